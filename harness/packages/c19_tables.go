package packages

// C19 (package tables): every function offered to `import` is the Go function
// whose name it is listed under, every type is the Go type of that name.
// The tables are produced by executing the package's own init functions; the
// obligations are closed (no free variable) - enumeration of a finite table.

import (
	"reflect"
	"sort"
	"strings"

	"github.com/mattn/anko/env"
	zz "github.com/mattn/anko/zzverif"
)

// entries that anko defines itself (not members of the Go package)
var zzAnkoDefinedTypes = map[string]string{
	"sort.SortFuncsStruct": "*packages.SortFuncsStruct",
}

// entries that are Go package variables of func type, not functions
var zzVariables = map[string]bool{"flag.Usage": true}

func zzSortedKeys(m map[string]map[string]reflect.Value) []string {
	var ks []string
	for k := range m {
		ks = append(ks, k)
	}
	sort.Strings(ks)
	return ks
}

func ZZ_C19_package_tables() {
	funcs, others := 0, 0
	for _, pkg := range zzSortedKeys(env.Packages) {
		table := env.Packages[pkg]
		var names []string
		for n := range table {
			names = append(names, n)
		}
		sort.Strings(names)
		for _, n := range names {
			v := table[n]
			if !v.IsValid() {
				// package-level variables of std packages whose initialisers the
				// engine does not run (os.ErrExist, ...): outside the claim
				others++
				continue
			}
			if zzVariables[pkg+"."+n] {
				others++
				continue
			}
			if v.Kind() == reflect.Func {
				funcs++
				got := zz.FuncName(v.Interface())
				zz.Assertf(got == pkg+"."+n, "C19.tables/function-is-its-name/"+pkg+"."+n, got)
			} else {
				others++
			}
		}
	}
	var tpkgs []string
	for k := range env.PackageTypes {
		tpkgs = append(tpkgs, k)
	}
	sort.Strings(tpkgs)
	types := 0
	for _, pkg := range tpkgs {
		table := env.PackageTypes[pkg]
		var names []string
		for n := range table {
			names = append(names, n)
		}
		sort.Strings(names)
		short := pkg
		if i := strings.LastIndex(pkg, "/"); i >= 0 {
			short = pkg[i+1:]
		}
		for _, n := range names {
			t := table[n]
			types++
			zz.Assert(t != nil, "C19.tables/valid-type/"+pkg+"."+n)
			if t == nil {
				continue
			}
			want := short + "." + n
			if w, ok := zzAnkoDefinedTypes[pkg+"."+n]; ok {
				want = w
			}
			got := t.String()
			zz.Assertf(got == want || got == "*"+want, "C19.tables/type-is-its-name/"+pkg+"."+n, got)
		}
	}
	zz.Assert(funcs > 300 && types > 20, "C19.tables/non-vacuous")
	_ = others
}
