//go:build !appengine
// +build !appengine

package main

// C18: the command-line tool reports exactly what the library computes.
// Function-level harness: parseFlags / setupEnv / runNonInteractive run with
// the OS stubbed (file reads from the harness's virtual files, standard
// output captured).

import (
	"flag"
	"os"
	"strings"

	"github.com/mattn/anko/core"
	"github.com/mattn/anko/env"
	"github.com/mattn/anko/vm"
	zz "github.com/mattn/anko/zzverif"
)

type zzScript struct {
	name string
	src  string
	kind int // 0 ok, 1 parse error, 2 run error
}

var zzScripts = []zzScript{
	{"print", "println(\"hello\")\nprint(1, 2)\nprintln()", 0},
	{"silent", "a = 1 + 2", 0},
	{"args", "println(len(args))\nfor a in args { println(a) }", 0},
	{"builtins", "println(range(3))\nprintln(keys({\"a\": 1}))\nprintln(typeOf(1.5))", 0},
	{"import", "strings = import(\"strings\")\nprintln(strings.ToUpper(\"abc\"))", 0},
	{"printf", "printf(\"%d-%s\\n\", 7, \"x\")", 0},
	{"parse-error", "println(\"before\")\nfor {", 1},
	{"parse-error-token", "a = = 1", 1},
	{"lex-error", "println(1)\n\"unterminated", 1},
	{"run-error-after-output", "println(\"one\")\nprintln(undefined_name)\nprintln(\"never\")", 2},
	{"throw", "println(\"t\")\nthrow \"boom\"", 2},
	{"type-error", "a = 1\na.b = 2", 2},
	{"builtin-misuse", "println(\"k\")\nkeys(1)", 2},
	{"builtin-misuse-range", "range()", 2},
	{"package-function-panics", "strings = import(\"strings\")\nstrings.Repeat(\"x\", -1)", 2},
	{"stray-break", "println(1)\nbreak", 2},
	{"stray-continue", "continue", 2},
	{"go-function-error-value", "strconv = import(\"strconv\")\nr = strconv.Atoi(\"x\")\nprintln(r[1] != nil)", 0},
	{"empty", "", 0},
	// statements whose meaning depends on the whole program being one run
	{"top-level-return-guard", "if len(args) == 0 {\n println(\"usage\")\n return\n}\nprintln(args[0])", 0},
	{"top-level-return-then-more", "println(\"a\")\nreturn 1\nprintln(\"b\")", 0},
	{"top-level-defer-order", "defer println(\"bye\")\nprintln(\"hello\")", 0},
	{"top-level-defer-after-error", "defer println(\"cleanup\")\nprintln(\"x\")\nthrow \"late\"", 2},
	{"function-defined-late-used-early", "println(f())\nfunc f() { return 1 }", 2},
	{"result-of-last-statement-is-not-printed", "1 + 2", 0},
	// builtins that look at the environment the script runs in
	{"defined-own-names", "x = 1\nprintln(defined(\"x\"))\nprintln(defined(\"nosuch\"))\nprintln(defined(\"println\"))\nprintln(defined(\"args\"))", 0},
	{"defined-gates-a-throw", "func helper(a) { return a }\nif !defined(\"helper\") { throw \"helper is missing\" }\nprintln(helper(3))", 0},
	{"defined-module", "module m { y = 1 }\nprintln(defined(\"m\"))\nprintln(defined(\"y\"))", 0},
	{"defined-inside-function", "g = 2\nf = func() { return defined(\"g\") }\nprintln(f())", 0},
	{"load-sees-loader-globals", "g = 5\nload(\"LIBPATH\")\nprintln(h)", 0},
	{"load-missing-file", "println(1)\nload(\"/zzverif/no-such-lib.ank\")", 2},
	{"load-defines-for-loader", "load(\"LIBPATH2\")\nprintln(twice(4))", 0},
}

func zzLibrary(src string, a []string) (string, error) {
	e2 := env.NewEnv()
	e2.Define("args", a)
	core.Import(e2)
	var err error
	out := zz.CaptureStdout(func() {
		_, err = vm.Execute(e2, nil, src)
	})
	return out, err
}

func ZZ_C18_run_noninteractive() {
	s := zzScripts[zz.Choose(len(zzScripts))]
	if strings.Contains(s.src, "LIBPATH") {
		lib := zz.SetFile("/zzverif/lib.ank", "h = g + 1")
		lib2 := zz.SetFile("/zzverif/lib2.ank", "func twice(x) { return x * 2 }")
		s.src = strings.Replace(strings.Replace(s.src, "LIBPATH2", lib2, 1), "LIBPATH", lib, 1)
	}
	useFile := zz.Choose(2) == 1
	nargs := zz.Choose(3)
	trailing := []string{"x", "y z"}[:nargs]
	unreadable := useFile && zz.Choose(4) == 0
	// command line
	cmdline := []string{"anko"}
	path := "/zzverif/script.ank"
	if useFile {
		if unreadable {
			path = "/zzverif/does-not-exist.ank"
		} else {
			path = zz.SetFile(path, s.src)
		}
		cmdline = append(cmdline, path)
		cmdline = append(cmdline, trailing...)
	} else {
		if s.src == "" {
			return // -e "" means "no -e": interactive mode, outside this check
		}
		cmdline = append(cmdline, "-e", s.src)
		cmdline = append(cmdline, trailing...)
	}
	os.Args = cmdline
	flag.CommandLine = flag.NewFlagSet(cmdline[0], flag.ContinueOnError)
	flagExecute, file, args = "", "", nil
	parseFlags()
	id := s.name + "/" + []string{"-e", "file"}[zz.Choose(1)*0+zzB2I(useFile)]
	zz.Assert(len(args) == nargs, "C18.trailing-arguments-become-args/"+id)
	if useFile {
		zz.Assert(file == path && flagExecute == "", "C18.flags/file/"+id)
	} else {
		zz.Assert(flagExecute == s.src, "C18.flags/-e/"+id)
	}
	setupEnv()
	code := 0
	out := zz.CaptureStdout(func() { code = runNonInteractive() })
	if unreadable {
		zz.Assert(code == 2, "C18.exit-2-when-file-unreadable/"+id)
		zz.Assert(strings.Count(out, "\n") == 1, "C18.one-diagnostic-line/"+id)
		return
	}
	libOut, libErr := zzLibrary(s.src, trailing)
	// verdict agrees with the library
	zz.Assert((code == 0) == (libErr == nil), "C18.exit-0-iff-library-succeeds/"+id)
	if libErr != nil {
		zz.Assert(code == 4, "C18.exit-4-on-parse-or-run-error/"+id)
	}
	zz.Assert((s.kind == 0) == (libErr == nil), "C18.script-classification/"+id)
	// output: exactly what the script prints, then one diagnostic line iff failed
	zz.Assert(strings.HasPrefix(out, libOut), "C18.output-starts-with-script-output/"+id)
	rest := strings.TrimPrefix(out, libOut)
	if code == 0 {
		zz.Assert(rest == "", "C18.no-extra-output-on-success/"+id)
	} else {
		zz.Assert(strings.Count(rest, "\n") == 1 && strings.HasSuffix(rest, "\n") && libErr != nil && strings.Contains(rest, libErr.Error()), "C18.one-diagnostic-line/"+id)
	}
}

func zzB2I(b bool) int {
	if b {
		return 1
	}
	return 0
}
