// Package zzverif is the harness vocabulary shared by the symbolic engine and
// the native replay backend.  Under symgo every function below is an engine
// intrinsic (the bodies here never run).  Natively, nondeterministic calls are
// answered in call order from the replay file named by VERIF_REPLAY and a
// failed Assert is recorded (see Failed).
package zzverif

import (
	"encoding/json"
	"fmt"
	"math"
	"os"
	"strconv"
	"sync"
	"sync/atomic"
)

type answer struct {
	Fn  string `json:"fn"`
	Val string `json:"v"`
}

type replayFile struct {
	Harness string   `json:"harness"`
	Assert  string   `json:"assert"`
	Answers []answer `json:"answers"`
}

var (
	mu      sync.Mutex
	loaded  bool
	file    replayFile
	pos     int
	trace   []int
	failed  []string
	reached = map[string]int{}
)

type AssumeFailed struct{ Msg string }

func load() {
	if loaded {
		return
	}
	loaded = true
	path := os.Getenv("VERIF_REPLAY")
	if path == "" {
		return
	}
	data, err := os.ReadFile(path)
	if err != nil {
		panic("zzverif: " + err.Error())
	}
	if err := json.Unmarshal(data, &file); err != nil {
		panic("zzverif: " + err.Error())
	}
}

// Reset rewinds the replay state (used by the native test driver).
func Reset() {
	mu.Lock()
	defer mu.Unlock()
	loaded = false
	pos = 0
	trace = nil
	failed = nil
	reached = map[string]int{}
	load()
}

func Harness() string { load(); return file.Harness }
func Expect() string  { load(); return file.Assert }

func next(fn string) uint64 {
	mu.Lock()
	defer mu.Unlock()
	load()
	if pos >= len(file.Answers) {
		// beyond the recorded answers: the engine never got here on the
		// recorded path; answer 0
		pos++
		return 0
	}
	a := file.Answers[pos]
	pos++
	if a.Fn != fn && !(a.Fn == "SymStringByte" && fn == "Byte") {
		panic(AssumeFailed{fmt.Sprintf("replay out of sync: want %s have %s at %d", fn, a.Fn, pos-1)})
	}
	if a.Val == "" {
		return 0
	}
	v, err := strconv.ParseUint(a.Val, 0, 64)
	if err != nil {
		// wide values are truncated to 64 bits
		return 0
	}
	return v
}

func Bool() bool       { return next("Bool") != 0 }
func Int64() int64     { return int64(next("Int64")) }
func Int() int         { return int(next("Int")) }
func Int32() int32     { return int32(next("Int32")) }
func Int16() int16     { return int16(next("Int16")) }
func Int8() int8       { return int8(next("Int8")) }
func Uint64() uint64   { return next("Uint64") }
func Uint32() uint32   { return uint32(next("Uint32")) }
func Uint16() uint16   { return uint16(next("Uint16")) }
func Uint8() uint8     { return uint8(next("Uint8")) }
func Byte() byte       { return byte(next("Byte")) }
func Rune() rune       { return rune(next("Rune")) }
func Float64() float64 { return math.Float64frombits(next("Float64")) }
func Float32() float32 { return math.Float32frombits(uint32(next("Float32"))) }

// Choose forks over 0..n-1.
func Choose(n int) int {
	v := int(next("Choose"))
	if v < 0 || v >= n {
		panic(AssumeFailed{"Choose answer out of range"})
	}
	return v
}

// Assume restricts the inputs; it must precede the code it constrains.
func Assume(b bool) {
	if !b {
		panic(AssumeFailed{"assumption false on replay"})
	}
}

// Assert states the property.
func Assert(b bool, id string) { Assertf(b, id, "") }

func Assertf(b bool, id string, msg string) {
	mu.Lock()
	defer mu.Unlock()
	reached[id]++
	if !b {
		failed = append(failed, id+"\t"+msg)
	}
}

// Failed lists the assertions that failed natively.
func Failed() []string {
	mu.Lock()
	defer mu.Unlock()
	return append([]string{}, failed...)
}

func Probe(tag int) {
	mu.Lock()
	trace = append(trace, tag)
	mu.Unlock()
}

func Trace() []int {
	mu.Lock()
	defer mu.Unlock()
	return append([]int{}, trace...)
}

func TraceLen() int { mu.Lock(); defer mu.Unlock(); return len(trace) }
func ResetTrace()   { mu.Lock(); trace = nil; mu.Unlock() }

// SymString returns a string of n ASCII bytes.
func SymString(n int) string {
	b := make([]byte, n)
	for i := range b {
		b[i] = Byte()
		if b[i] >= 0x80 {
			panic(AssumeFailed{"non-ASCII byte"})
		}
	}
	return string(b)
}

func Note(s string) {}

// Symbolic reports whether the harness runs under the engine.
func Symbolic() bool { return false }

// Monitors: engine-only; natively they are no-ops and the harness uses its
// native oracle (deep dumps, the race detector, process death).
func Freeze(roots ...interface{})                 {}
func FreezeGlobals()                              {}
func Unfreeze()                                   {}
func Events(kind string) int                      { return 0 }
func GoroutineCrashes() int                       { return 0 }
func Drain()                                      {}
func SchedExplore(on bool, maxSwitches int)       {}
func SelectExplore(on bool)                       {}
func PermuteMaps(on bool)                         {}
func NondetCount(kind string) int                 { return 0 }
func LockMonitor()                                {}
func Guard(mu interface{}, fields ...interface{}) {}
func Steps() int                                  { return 0 }
func Stdout() string                              { return "" }
func Opaque() int                                 { return 0 }
func Budget(n int64)                              {}

// CallDepth raises the engine's bound on nested calls for a harness that walks deep trees.
func CallDepth(n int64)             {}
func IsConcrete(v interface{}) bool { return true }

// Branch-free helpers: under the engine these build terms without forking.
func Ite(c bool, a, b int) int {
	if c {
		return a
	}
	return b
}
func Ite64(c bool, a, b int64) int64 {
	if c {
		return a
	}
	return b
}
func And(a, b bool) bool     { return a && b }
func Or(a, b bool) bool      { return a || b }
func Not(a bool) bool        { return !a }
func Implies(a, b bool) bool { return !a || b }

func LocksHeld() int { return 0 }

// RWMutex is a sync.RWMutex that yields the processor around every lock
// operation.  It is used only by native replays of schedule-dependent
// findings (the env source is overlaid so that its mutex has this type);
// the engine always analyses the unmodified source.
type RWMutex struct {
	mu      sync.RWMutex
	readers int32
}

// While a harness runs one operation on one goroutine (SingleGoroutine(true)),
// a read lock taken on a mutex that already has a reader is a recursive read
// lock: sync.RWMutex forbids it (it deadlocks as soon as a writer queues up
// between the two).  Native oracle for C13.D1.no-self-deadlock.
var singleGoroutine, recursiveReadLocks int32

func SingleGoroutine(on bool) {
	if on {
		atomic.StoreInt32(&recursiveReadLocks, 0)
		atomic.StoreInt32(&singleGoroutine, 1)
	} else {
		atomic.StoreInt32(&singleGoroutine, 0)
	}
}
func RecursiveReadLocks() int { return int(atomic.LoadInt32(&recursiveReadLocks)) }

var yieldCounter uint32

func maybeYield() {
	n := atomicAdd(&yieldCounter)
	if n%3 != 0 {
		gosched()
	}
	if n%7 == 0 {
		gosched()
		gosched()
	}
}

func (m *RWMutex) Lock()   { maybeYield(); m.mu.Lock(); maybeYield() }
func (m *RWMutex) Unlock() { m.mu.Unlock(); maybeYield() }
func (m *RWMutex) RLock() {
	if atomic.LoadInt32(&singleGoroutine) == 1 && atomic.LoadInt32(&m.readers) > 0 {
		atomic.AddInt32(&recursiveReadLocks, 1)
	}
	maybeYield()
	m.mu.RLock()
	atomic.AddInt32(&m.readers, 1)
	maybeYield()
}
func (m *RWMutex) RUnlock()      { atomic.AddInt32(&m.readers, -1); m.mu.RUnlock(); maybeYield() }
func (m *RWMutex) TryLock() bool { return m.mu.TryLock() }

// Input / Output: concrete (corpus) mode.  Natively Input reads VERIF_INPUT
// and Output prints a line.
func Input() string   { return os.Getenv("VERIF_INPUT") }
func Output(s string) { fmt.Println("ZZOUT " + s) }

// UnwindIsViolation: from here on, exceeding the instruction budget is the
// violation id (termination is part of the property).
func UnwindIsViolation(id string) {}

// MaxDecisions bounds the number of symbolic decisions on a path (an
// unwinding bound for loops whose every iteration branches on symbolic data).
func MaxDecisions(n int) {}

func EventText(kind string) string { return "" }

// FrozenAliases: engine-only (number of pointers / addressable reflect.Values
// reachable from the arguments that alias a frozen cell).
func FrozenAliases(vs ...interface{}) int { return 0 }

// SchedChannelsOnly: schedule exploration switches only at channel
// operations and goroutine starts (not at mutex operations).
func SchedChannelsOnly(on bool) {}

// SetFile makes a file with the given content readable at (or near) path and
// returns the path to use.  Engine: a virtual file.  Natively: a temp file.
func SetFile(path, content string) string {
	f, err := os.CreateTemp("", "zzverif-*.ank")
	if err != nil {
		panic(err)
	}
	f.WriteString(content)
	f.Close()
	return f.Name()
}

// CaptureStdout runs f and returns what it wrote to standard output.
func CaptureStdout(f func()) string {
	old := os.Stdout
	r, w, err := os.Pipe()
	if err != nil {
		panic(err)
	}
	os.Stdout = w
	done := make(chan string)
	go func() {
		var buf []byte
		tmp := make([]byte, 4096)
		for {
			n, err := r.Read(tmp)
			buf = append(buf, tmp[:n]...)
			if err != nil {
				break
			}
		}
		done <- string(buf)
	}()
	func() {
		defer func() {
			w.Close()
			os.Stdout = old
		}()
		f()
	}()
	return <-done
}

// DeadlockIsViolation: from here on, all goroutines blocked forever is the
// violation id (natively the run hangs and the replay times out).
func DeadlockIsViolation(id string) {}
