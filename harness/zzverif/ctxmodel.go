package zzverif

// A channel-only model of context.WithCancel for the engine (the real package
// rests on sync/atomic.Value, which is laid over unsafe pointers): the engine
// redirects calls of context.WithCancel / WithTimeout / WithDeadline in the
// code under check to WithCancel below.  A child is cancelled by its cancel
// function or as soon as its parent is (a watcher goroutine, as the real
// package starts one for a parent of a foreign type); deadlines never fire
// (time is logical).  Natively nothing calls this file.

import (
	"context"
	"errors"
	"time"
)

var errCtxCanceled = errors.New("context canceled")

type cancelCtx struct {
	parent context.Context
	done   chan struct{}
	closed bool
}

func (c *cancelCtx) Done() <-chan struct{}           { return c.done }
func (c *cancelCtx) Deadline() (time.Time, bool)     { return time.Time{}, false }
func (c *cancelCtx) Value(k interface{}) interface{} { return c.parent.Value(k) }
func (c *cancelCtx) Err() error {
	if c.closed {
		return errCtxCanceled
	}
	return nil
}

func (c *cancelCtx) cancel() {
	if !c.closed {
		c.closed = true
		close(c.done)
	}
}

// WithCancel is the model of context.WithCancel.
func WithCancel(parent context.Context) (context.Context, context.CancelFunc) {
	c := &cancelCtx{parent: parent, done: make(chan struct{})}
	if pd := parent.Done(); pd != nil {
		go func() {
			select {
			case <-pd:
				c.cancel()
			case <-c.done:
			}
		}()
	}
	return c, c.cancel
}
