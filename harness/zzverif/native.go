package zzverif

import (
	"math"
	"reflect"
	"runtime"
	"sync/atomic"
)

func reflectValueOf(f interface{}) reflect.Value { return reflect.ValueOf(f) }

func funcNameOf(rv reflect.Value) string {
	if !rv.IsValid() || rv.Kind() != reflect.Func || rv.IsNil() {
		return ""
	}
	fn := runtime.FuncForPC(rv.Pointer())
	if fn == nil {
		return ""
	}
	return fn.Name()
}

func atomicAdd(p *uint32) uint32 { return atomic.AddUint32(p, 1) }
func gosched()                   { runtime.Gosched() }

// FuncName returns the fully qualified name of a Go function value
// ("strings.ToUpper", "net/http.Get").
func FuncName(f interface{}) string {
	rv := reflectValueOf(f)
	return funcNameOf(rv)
}

// ---- native oracle for "package-level state is read-only during a run".
// Under the engine the write barrier decides this; when it reports a write to
// a package-level variable, the replay overlay registers that variable here
// (generated file in the variable's package) and the harness compares a deep
// structural dump of it before and after the step.

type watched struct {
	name string
	ptr  interface{}
}

var watchedGlobals []watched

// WatchGlobal registers a pointer to a package-level variable.
func WatchGlobal(name string, ptr interface{}) {
	watchedGlobals = append(watchedGlobals, watched{name, ptr})
}

// GlobalsDump is a deep structural dump of every watched variable ("" when
// nothing is watched, as in every run of the engine).
func GlobalsDump() string {
	out := ""
	for _, w := range watchedGlobals {
		out += w.name + "=" + deepDump(w.ptr) + ";"
	}
	return out
}

func deepDump(x interface{}) string {
	var sb []byte
	seen := map[uintptr]bool{}
	var walk func(v reflect.Value, depth int)
	walk = func(v reflect.Value, depth int) {
		if depth > 60 || !v.IsValid() {
			sb = append(sb, "<>"...)
			return
		}
		switch v.Kind() {
		case reflect.Ptr, reflect.Interface:
			if v.IsNil() {
				sb = append(sb, "nil"...)
				return
			}
			if v.Kind() == reflect.Ptr {
				if seen[v.Pointer()] {
					sb = append(sb, "<seen>"...)
					return
				}
				seen[v.Pointer()] = true
				sb = append(sb, '&')
			}
			walk(v.Elem(), depth+1)
		case reflect.Struct:
			sb = append(sb, '{')
			for i := 0; i < v.NumField(); i++ {
				sb = append(sb, (v.Type().Field(i).Name + ":")...)
				walk(v.Field(i), depth+1)
				sb = append(sb, ' ')
			}
			sb = append(sb, '}')
		case reflect.Slice, reflect.Array:
			sb = append(sb, '[')
			sb = appendInt(sb, v.Len())
			sb = append(sb, ':')
			for i := 0; i < v.Len(); i++ {
				walk(v.Index(i), depth+1)
				sb = append(sb, ' ')
			}
			sb = append(sb, ']')
		case reflect.Map:
			// entry count and the dumps of the entries in a canonical order
			sb = append(sb, "map["...)
			sb = appendInt(sb, v.Len())
			sb = append(sb, ':')
			var items []string
			it := v.MapRange()
			for it.Next() {
				save := sb
				sb = nil
				walk(it.Key(), depth+1)
				sb = append(sb, '=')
				walk(it.Value(), depth+1)
				items = append(items, string(sb))
				sb = save
			}
			sortStrings(items)
			for _, s := range items {
				sb = append(sb, s...)
				sb = append(sb, ' ')
			}
			sb = append(sb, ']')
		case reflect.Bool:
			if v.Bool() {
				sb = append(sb, 'T')
			} else {
				sb = append(sb, 'F')
			}
		case reflect.Int, reflect.Int8, reflect.Int16, reflect.Int32, reflect.Int64:
			sb = appendInt(sb, int(v.Int()))
		case reflect.Uint, reflect.Uint8, reflect.Uint16, reflect.Uint32, reflect.Uint64, reflect.Uintptr:
			sb = appendInt(sb, int(v.Uint()))
		case reflect.Float32, reflect.Float64:
			sb = appendInt(sb, int(math.Float64bits(v.Float())))
		case reflect.String:
			sb = append(sb, ("\"" + v.String() + "\"")...)
		case reflect.Func, reflect.Chan, reflect.UnsafePointer:
			sb = append(sb, '@')
			sb = appendInt(sb, int(v.Pointer()))
		default:
			sb = append(sb, '?')
		}
	}
	walk(reflect.ValueOf(x), 0)
	return string(sb)
}

func appendInt(b []byte, i int) []byte {
	if i < 0 {
		b = append(b, '-')
		i = -i
	}
	if i >= 10 {
		b = appendInt(b, i/10)
	}
	return append(b, byte('0'+i%10))
}

func sortStrings(a []string) {
	for i := 1; i < len(a); i++ {
		for j := i; j > 0 && a[j] < a[j-1]; j-- {
			a[j], a[j-1] = a[j-1], a[j]
		}
	}
}
