package zzverif

import (
	"reflect"
	"runtime"
	"sync/atomic"
)

func reflectValueOf(f interface{}) reflect.Value { return reflect.ValueOf(f) }

func funcNameOf(rv reflect.Value) string {
	if !rv.IsValid() || rv.Kind() != reflect.Func || rv.IsNil() {
		return ""
	}
	fn := runtime.FuncForPC(rv.Pointer())
	if fn == nil {
		return ""
	}
	return fn.Name()
}

func atomicAdd(p *uint32) uint32 { return atomic.AddUint32(p, 1) }
func gosched()                   { runtime.Gosched() }

// FuncName returns the fully qualified name of a Go function value
// ("strings.ToUpper", "net/http.Get").
func FuncName(f interface{}) string {
	rv := reflectValueOf(f)
	return funcNameOf(rv)
}
