package zzverif

import (
	"runtime"
	"sync/atomic"
)

func atomicAdd(p *uint32) uint32 { return atomic.AddUint32(p, 1) }
func gosched()                   { runtime.Gosched() }
