package zzcorpus

import (
	"encoding/json"
	"fmt"
	"os"
	"testing"
)

// TestZZCorpus runs every script of VERIF_CORPUS natively and writes the
// renderings to VERIF_CORPUS_OUT.
func TestZZCorpus(t *testing.T) {
	in := os.Getenv("VERIF_CORPUS")
	if in == "" {
		t.Skip("no corpus")
	}
	data, err := os.ReadFile(in)
	if err != nil {
		t.Fatal(err)
	}
	var scripts []string
	if err := json.Unmarshal(data, &scripts); err != nil {
		t.Fatal(err)
	}
	out := make([]string, len(scripts))
	for i, s := range scripts {
		func() {
			defer func() {
				if p := recover(); p != nil {
					out[i] = fmt.Sprintf("PANIC %v", p)
				}
			}()
			out[i] = RunScript(s)
		}()
	}
	data, _ = json.Marshal(out)
	os.WriteFile(os.Getenv("VERIF_CORPUS_OUT"), data, 0o644)
}
