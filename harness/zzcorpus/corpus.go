// Package zzcorpus runs one script through the public API and renders the
// outcome; the same code runs natively and under the engine (translator
// self-validation, DESIGN §4.5).
package zzcorpus

import (
	"context"
	"fmt"
	"reflect"
	"sort"
	"strconv"
	"time"

	"github.com/mattn/anko/core"
	"github.com/mattn/anko/env"
	_ "github.com/mattn/anko/packages"
	"github.com/mattn/anko/vm"
	zz "github.com/mattn/anko/zzverif"
)

// Render gives a canonical text for a script result.
func Render(v interface{}, depth int) string {
	if depth > 6 {
		return "..."
	}
	switch x := v.(type) {
	case nil:
		return "nil"
	case bool:
		return "bool:" + strconv.FormatBool(x)
	case int64:
		return "int64:" + strconv.FormatInt(x, 10)
	case int:
		return "int:" + strconv.Itoa(x)
	case int32:
		return "int32:" + strconv.FormatInt(int64(x), 10)
	case uint8:
		return "uint8:" + strconv.FormatInt(int64(x), 10)
	case float64:
		return "float64:" + strconv.FormatFloat(x, 'g', -1, 64)
	case float32:
		return "float32:" + strconv.FormatFloat(float64(x), 'g', -1, 32)
	case string:
		return "string:" + strconv.Quote(x)
	case error:
		return "error:" + strconv.Quote(x.Error())
	case []interface{}:
		s := "[]interface{"
		for i, e := range x {
			if i > 0 {
				s += ","
			}
			s += Render(e, depth+1)
		}
		return s + "}"
	case map[interface{}]interface{}:
		var parts []string
		for k, e := range x {
			parts = append(parts, Render(k, depth+1)+"=>"+Render(e, depth+1))
		}
		sort.Strings(parts)
		s := "map{"
		for i, p := range parts {
			if i > 0 {
				s += ","
			}
			s += p
		}
		return s + "}"
	}
	rv := reflect.ValueOf(v)
	switch rv.Kind() {
	case reflect.Slice, reflect.Array:
		s := rv.Type().String() + "{"
		for i := 0; i < rv.Len(); i++ {
			if i > 0 {
				s += ","
			}
			s += Render(rv.Index(i).Interface(), depth+1)
		}
		return s + "}"
	case reflect.Map:
		var parts []string
		for _, k := range rv.MapKeys() {
			parts = append(parts, Render(k.Interface(), depth+1)+"=>"+Render(rv.MapIndex(k).Interface(), depth+1))
		}
		sort.Strings(parts)
		s := rv.Type().String() + "{"
		for i, p := range parts {
			if i > 0 {
				s += ","
			}
			s += p
		}
		return s + "}"
	case reflect.Ptr:
		if rv.IsNil() {
			return rv.Type().String() + ":nil"
		}
		return rv.Type().String() + ":&" + Render(rv.Elem().Interface(), depth+1)
	case reflect.Func, reflect.Chan:
		return rv.Type().String()
	case reflect.Struct:
		return rv.Type().String() + "{...}"
	}
	return fmt.Sprintf("%s:%v", rv.Type().String(), v)
}

// RunScript executes src in a fresh environment with the core builtins.
func RunScript(src string) string {
	e := env.NewEnv()
	core.Import(e)
	ctx := context.Background()
	if !zz.Symbolic() {
		var cancel func()
		ctx, cancel = context.WithTimeout(ctx, 2*time.Second)
		defer cancel()
	}
	v, err := vm.ExecuteContext(ctx, e, nil, src)
	out := Render(v, 0)
	if err != nil {
		out += " ERR " + strconv.Quote(err.Error())
	}
	return out
}

func ZZ_corpus_run() {
	zz.Output(RunScript(zz.Input()))
}
