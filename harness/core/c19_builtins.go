package core

// C19: core builtins agree with their Go counterparts.

import (
	"math"
	"reflect"
	"time"

	"github.com/mattn/anko/env"
	zz "github.com/mattn/anko/zzverif"
)

func zzBuiltin(name string) interface{} {
	e := env.NewEnv()
	Import(e)
	f, err := e.Get(name)
	if err != nil {
		panic("builtin missing: " + name)
	}
	return f
}

// zzCall invokes f and reports a panic as an error text (the interpreter
// converts panics of builtins into errors at the call site).
func zzCallRange(f func(...int64) []int64, args ...int64) (res []int64, panicked bool) {
	defer func() {
		if r := recover(); r != nil {
			if _, ok := r.(zz.AssumeFailed); ok {
				panic(r)
			}
			panicked = true
		}
	}()
	return f(args...), false
}

// zzRangeLength: range(start, stop, step) for inputs whose mathematical
// progression has exactly n elements.  The inputs are characterised from the
// element side (cheap for the solver): the n elements e_k = start + k*step
// exist without overflow, and stop lies strictly beyond the last element but
// at most one step beyond it (n == 0: stop is not beyond start at all).
func zzRangeLength(n int, symbolicStep bool) {
	f := zzBuiltin("range").(func(...int64) []int64)
	const maxI, minI = int64(9223372036854775807), int64(-9223372036854775808)
	var step int64
	if symbolicStep {
		step = zz.Int64()
		zz.Assume(step != 0)
	} else {
		pool := []int64{1, 2, 3, 7, 1 << 62, maxI, -1, -2, -5, minI, minI + 1}
		step = pool[zz.Choose(len(pool))]
	}
	start := zz.Int64()
	stop := zz.Int64()
	up := step > 0
	last := start
	for k := 1; k < n; k++ {
		if up {
			zz.Assume(last <= maxI-step)
		} else {
			zz.Assume(last >= minI-step)
		}
		last += step
	}
	if n == 0 {
		if up {
			zz.Assume(stop <= start)
		} else {
			zz.Assume(stop >= start)
		}
	} else if up {
		zz.Assume(stop > last)
		zz.Assume(uint64(stop)-uint64(last) <= uint64(step))
	} else {
		zz.Assume(stop < last)
		zz.Assume(uint64(last)-uint64(stop) <= uint64(-step))
	}
	zz.Budget(400000)
	zz.MaxDecisions(30 + 12*n)
	zz.UnwindIsViolation("terminates.C19.range")
	var res []int64
	var p bool
	if step == 1 && start == 0 && zz.Choose(2) == 0 {
		res, p = zzCallRange(f, stop)
	} else if step == 1 && zz.Choose(2) == 0 {
		res, p = zzCallRange(f, start, stop)
	} else {
		res, p = zzCallRange(f, start, stop, step)
	}
	zz.Assert(!p, "C19.range/no-panic")
	if p {
		return
	}
	zz.Assert(len(res) == n, "C19.range/length")
	for k := 0; k < len(res) && k < n; k++ {
		zz.Assert(res[k] == start+int64(k)*step, "C19.range/element")
	}
}

func zzRangeMisuse() {
	f := zzBuiltin("range").(func(...int64) []int64)
	switch zz.Choose(3) {
	case 0:
		_, p := zzCallRange(f)
		zz.Assert(p, "C19.range/wrong-argument-count-is-error")
	case 1:
		_, p := zzCallRange(f, zz.Int64(), zz.Int64(), zz.Int64(), zz.Int64())
		zz.Assert(p, "C19.range/wrong-argument-count-is-error")
	case 2:
		_, p := zzCallRange(f, zz.Int64(), zz.Int64(), 0)
		zz.Assert(p, "C19.range/zero-step-is-error")
	}
}

func ZZ_C19_range_misuse()  { zzRangeMisuse() }
func ZZ_C19_range_sym_n0()  { zzRangeLength(0, true) }
func ZZ_C19_range_sym_n1()  { zzRangeLength(1, true) }
func ZZ_C19_range_sym_n2()  { zzRangeLength(2, true) }
func ZZ_C19_range_sym_n3()  { zzRangeLength(3, true) }
func ZZ_C19_range_pool_n3() { zzRangeLength(3, false) }
func ZZ_C19_range_pool_n4() { zzRangeLength(4, false) }
func ZZ_C19_range_pool_n6() { zzRangeLength(6, false) }
func ZZ_C19_range_pool_n8() { zzRangeLength(8, false) }

// ---- keys

func ZZ_C19_keys() {
	f := zzBuiltin("keys").(func(interface{}) []interface{})
	n := zz.Choose(4)
	m := map[interface{}]interface{}{}
	pool := []interface{}{"a", int64(1), true, 1.5}
	for i := 0; i < n; i++ {
		m[pool[i]] = zz.Int64()
	}
	ks := f(m)
	zz.Assert(len(ks) == n, "C19.keys/count")
	for i := 0; i < n; i++ {
		c := 0
		for _, k := range ks {
			if k == pool[i] {
				c++
			}
		}
		zz.Assert(c == 1, "C19.keys/each-once")
	}
	// typed map and symbolic int keys
	a, b := zz.Int64(), zz.Int64()
	zz.Assume(a != b)
	tm := map[int64]string{a: "x", b: "y"}
	ks2 := f(tm)
	zz.Assert(len(ks2) == 2, "C19.keys/count-typed")
	ca, cb := 0, 0
	for _, k := range ks2 {
		if ki, ok := k.(int64); ok {
			ca += zz.Ite(ki == a, 1, 0)
			cb += zz.Ite(ki == b, 1, 0)
		}
	}
	zz.Assert(zz.And(ca == 1, cb == 1), "C19.keys/each-once-typed")
	// misuse
	p := false
	func() {
		defer func() {
			if recover() != nil {
				p = true
			}
		}()
		f(int64(1))
	}()
	zz.Assert(p, "C19.keys/non-map-is-error")
}

// ---- typeOf / kindOf

type zzStruct struct{ A int64 }

type zzCelsius float64
type zzName string
type zzFlag bool
type zzCount uint16
type zzErr struct{}

func (zzErr) Error() string { return "e" }

func ZZ_C19_typeOf_kindOf() {
	typeOf := zzBuiltin("typeOf").(func(interface{}) string)
	kindOf := zzBuiltin("kindOf").(func(interface{}) string)
	vals := []interface{}{nil, true, int64(1), 1.5, "s", []interface{}{}, map[interface{}]interface{}{}, int32(1), uint8(1), float32(1),
		[]int64{}, map[string]int64{}, new(int64), zzStruct{}, &zzStruct{}, make(chan int64), func() {}, []string{}, [][]interface{}{},
		// defined types over basic kinds: the type name is theirs, the kind their underlying one
		time.Duration(5), zzCelsius(1.5), zzName("n"), zzFlag(true), zzCount(3), []zzCount{1}, map[zzName]zzCount{}, [2]int64{}, error(zzErr{})}
	types := []string{"nil", "bool", "int64", "float64", "string", "[]interface {}", "map[interface {}]interface {}", "int32", "uint8", "float32",
		"[]int64", "map[string]int64", "*int64", "core.zzStruct", "*core.zzStruct", "chan int64", "func()", "[]string", "[][]interface {}",
		"time.Duration", "core.zzCelsius", "core.zzName", "core.zzFlag", "core.zzCount", "[]core.zzCount", "map[core.zzName]core.zzCount", "[2]int64", "core.zzErr"}
	kinds := []string{"nil", "bool", "int64", "float64", "string", "slice", "map", "int32", "uint8", "float32",
		"slice", "map", "ptr", "struct", "ptr", "chan", "func", "slice", "slice",
		"int64", "float64", "string", "bool", "uint16", "slice", "map", "array", "struct"}
	i := zz.Choose(len(vals))
	zz.Assert(typeOf(vals[i]) == types[i], "C19.typeOf")
	zz.Assert(kindOf(vals[i]) == kinds[i], "C19.kindOf")
	if !zz.Symbolic() {
		// natively the oracle is the reflect package itself
		if vals[i] != nil {
			zz.Assert(typeOf(vals[i]) == reflect.TypeOf(vals[i]).String(), "C19.typeOf")
			zz.Assert(kindOf(vals[i]) == reflect.TypeOf(vals[i]).Kind().String(), "C19.kindOf")
		}
	}
}

// ---- toInt / toFloat / toString / toBool / toRune / toChar / slices

func ZZ_C19_toInt_toFloat() {
	toInt := zzBuiltin("toInt").(func(interface{}) int64)
	toFloat := zzBuiltin("toFloat").(func(interface{}) float64)
	switch zz.Choose(8) {
	case 0:
		i := zz.Int64()
		zz.Assert(toInt(i) == i, "C19.toInt/int64")
		zz.Assert(toFloat(i) == float64(i), "C19.toFloat/int64")
	case 1:
		f := zz.Float64()
		zz.Assert(toInt(f) == int64(f), "C19.toInt/float64")
		g := toFloat(f)
		zz.Assert(zz.Or(g == f, zz.And(g != g, f != f)), "C19.toFloat/float64")
	case 2:
		i := zz.Int32()
		zz.Assert(toInt(i) == int64(i), "C19.toInt/int32")
		zz.Assert(toFloat(i) == float64(i), "C19.toFloat/int32")
	case 3:
		u := zz.Uint8()
		zz.Assert(toInt(u) == int64(u), "C19.toInt/uint8")
	case 4:
		// (the last four: decimal numerals outside int64 / float64 - strconv.ParseInt and
		// ParseFloat give the nearest value of the type together with their range error)
		strs := []string{"0", "-1", "42", "9223372036854775807", "1.5", "1e3", "-2.75", "007", "+5", "-9223372036854775808", "9223372036854775808", "-9223372036854775809", "1e309", "-1e309"}
		ints := []int64{0, -1, 42, 9223372036854775807, 1, 1000, -2, 7, 5, -9223372036854775808, 9223372036854775807, -9223372036854775808, 0, 0}
		floats := []float64{0, -1, 42, 9223372036854775807, 1.5, 1000, -2.75, 7, 5, -9223372036854775808, 9223372036854775808, -9223372036854775809, math.Inf(1), math.Inf(-1)}
		k := zz.Choose(len(strs))
		if k < 12 { // (an infinite float has no defined int64 reading)
			zz.Assert(toInt(strs[k]) == ints[k], "C19.toInt/decimal-string")
		}
		zz.Assert(toFloat(strs[k]) == floats[k], "C19.toFloat/decimal-string")
	case 5:
		// (among the non-numeric strings: everything strconv.ParseFloat reads that is not a decimal numeral)
		bad := []interface{}{nil, "", "abc", "1x", []interface{}{int64(1)}, map[interface{}]interface{}{}, []int64{1}, zzStruct{},
			"NaN", "Inf", "+Inf", "-inf", "infinity", "0x1p4", "0x10", "1_000", "0b11", "0o17", " 1", "1 ", "e5", "."}
		k := zz.Choose(len(bad))
		zz.Assert(toInt(bad[k]) == 0, "C19.toInt/non-numeric-is-0")
		zz.Assert(toFloat(bad[k]) == 0, "C19.toFloat/non-numeric-is-0")
	case 6:
		b := zz.Bool()
		zz.Assert(toInt(b) == int64(zz.Ite(b, 1, 0)), "C19.toInt/bool")
	case 7:
		f := zz.Float32()
		zz.Assert(toInt(f) == int64(f), "C19.toInt/float32")
	}
}

func ZZ_C19_toString_toRune_slices() {
	toString := zzBuiltin("toString").(func(interface{}) string)
	toRune := zzBuiltin("toRune").(func(string) rune)
	toChar := zzBuiltin("toChar").(func(rune) string)
	toByteSlice := zzBuiltin("toByteSlice").(func(string) []byte)
	toRuneSlice := zzBuiltin("toRuneSlice").(func(string) []rune)
	toIntSlice := zzBuiltin("toIntSlice").(func([]interface{}) []int64)
	toFloatSlice := zzBuiltin("toFloatSlice").(func([]interface{}) []float64)
	toStringSlice := zzBuiltin("toStringSlice").(func([]interface{}) []string)
	toBoolSlice := zzBuiltin("toBoolSlice").(func([]interface{}) []bool)
	switch zz.Choose(9) {
	case 8:
		// strings beyond ASCII, valid and invalid UTF-8 (concrete pool: the engine's
		// symbolic strings are ASCII): every conversion is Go's own
		pool := []string{"é", "日本", "a\xffb", "\xff", "\xc3", "a\x80", "\xe6\x97", "aé\xfe", "\xf0\x9f\x98\x80", "\xed\xa0\x80", ""}
		str := pool[zz.Choose(len(pool))]
		rs := toRuneSlice(str)
		want := []rune(str)
		zz.Assertf(len(rs) == len(want), "C19.toRuneSlice/go-conversion-beyond-ascii", str)
		for i := range want {
			if i < len(rs) {
				zz.Assertf(rs[i] == want[i], "C19.toRuneSlice/go-conversion-beyond-ascii", str)
			}
		}
		bs := toByteSlice(str)
		zz.Assertf(string(bs) == str, "C19.toByteSlice/go-conversion-beyond-ascii", str)
		zz.Assertf(toString(bs) == str, "C19.toString/bytes-beyond-ascii", str)
		if len(want) > 0 {
			zz.Assertf(toRune(str) == want[0], "C19.toRune/go-conversion-beyond-ascii", str)
			zz.Assertf(toChar(want[0]) == string(want[0]), "C19.toChar/go-conversion-beyond-ascii", str)
		}
	case 7:
		// a conversion's result is a value of its own (Go's string(b), []byte(s),
		// []rune(s) copy): a later store into the argument does not show in a
		// result obtained earlier, nor a store into the result in the argument
		b0, b1, w := zz.Byte(), zz.Byte(), zz.Byte()
		zz.Assume(zz.And(zz.And(b0 < 0x80, b1 < 0x80), zz.And(w < 0x80, w != b0)))
		buf := []byte{b0, b1}
		str := toString(buf)
		buf[0] = w
		zz.Assert(len(str) == 2 && str[0] == b0 && str[1] == b1, "C19.toString/result-independent-of-later-store-into-the-bytes")
		buf = buf[:1]
		zz.Assert(len(str) == 2, "C19.toString/result-independent-of-later-store-into-the-bytes")
		src := string([]byte{b0, b1})
		bs := toByteSlice(src)
		bs[0] = w
		zz.Assert(src[0] == b0, "C19.toByteSlice/store-into-result-leaves-the-string")
		bs2 := toByteSlice(src)
		zz.Assert(bs2[0] == b0, "C19.toByteSlice/results-do-not-share-storage")
		rs := toRuneSlice(src)
		rs[0] = rune(w)
		rs2 := toRuneSlice(src)
		zz.Assert(rs2[0] == rune(b0) && src[0] == b0, "C19.toRuneSlice/results-do-not-share-storage")
		in := []interface{}{int64(b0), int64(b1)}
		is := toIntSlice(in)
		in[0] = int64(w)
		zz.Assert(is[0] == int64(b0), "C19.toIntSlice/result-independent-of-later-store-into-the-argument")
	case 0:
		vals := []interface{}{int64(1), int64(-9223372036854775808), 1.5, 1e21, true, "s", nil, []byte("ab"), float32(0.1)}
		texts := []string{"1", "-9223372036854775808", "1.5", "1e+21", "true", "s", "<nil>", "ab", "0.1"}
		k := zz.Choose(len(vals))
		zz.Assert(toString(vals[k]) == texts[k], "C19.toString")
	case 1:
		s := zz.SymString(zz.Choose(3))
		r := toRune(s)
		if len(s) == 0 {
			zz.Assert(r == 0, "C19.toRune/empty")
		} else {
			zz.Assert(r == rune(s[0]), "C19.toRune/first-rune")
		}
		zz.Assert(toRune("é") == 'é', "C19.toRune/non-ascii")
	case 2:
		r := zz.Rune()
		zz.Assume(zz.And(r >= 0, r < 0x80))
		zz.Assert(toChar(r) == string(r), "C19.toChar")
		zz.Assert(toChar('é') == "é", "C19.toChar/non-ascii")
	case 3:
		s := zz.SymString(zz.Choose(3))
		b := toByteSlice(s)
		zz.Assert(len(b) == len(s), "C19.toByteSlice/len")
		for i := range b {
			zz.Assert(b[i] == s[i], "C19.toByteSlice/element")
		}
		rs := toRuneSlice(s)
		zz.Assert(len(rs) == len(s), "C19.toRuneSlice/len")
		for i := range rs {
			zz.Assert(rs[i] == rune(s[i]), "C19.toRuneSlice/element")
		}
	case 4:
		i, f := zz.Int64(), zz.Float64()
		in := []interface{}{i, f, "x", nil, true}
		out := toIntSlice(in)
		zz.Assert(len(out) == 5, "C19.toIntSlice/len")
		zz.Assert(out[0] == i, "C19.toIntSlice/int")
		zz.Assert(out[1] == int64(f), "C19.toIntSlice/float")
		zz.Assert(out[2] == 0 && out[3] == 0 && out[4] == 0, "C19.toIntSlice/unconvertible-is-zero")
	case 5:
		i, f := zz.Int64(), zz.Float64()
		out := toFloatSlice([]interface{}{i, f, "x", nil})
		zz.Assert(len(out) == 4, "C19.toFloatSlice/len")
		zz.Assert(out[0] == float64(i), "C19.toFloatSlice/int")
		zz.Assert(zz.Or(out[1] == f, f != f), "C19.toFloatSlice/float")
		zz.Assert(out[2] == 0 && out[3] == 0, "C19.toFloatSlice/unconvertible-is-zero")
	case 6:
		s := zz.SymString(zz.Choose(3))
		b := zz.Bool()
		out := toStringSlice([]interface{}{s, nil, b})
		zz.Assert(len(out) == 3 && out[0] == s && out[1] == "" && out[2] == "", "C19.toStringSlice")
		ob := toBoolSlice([]interface{}{b, nil, "x", s})
		zz.Assert(len(ob) == 4 && ob[0] == b && !ob[1] && !ob[2] && !ob[3], "C19.toBoolSlice")
	}
}
