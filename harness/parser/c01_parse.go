package parser

// C01 / C15-P2: ParseSrc is total on bounded inputs: it returns a tree with a
// nil error or an error of type *parser.Error, and never panics - for every
// source of n symbolic (ASCII) runes.

import (
	"github.com/mattn/anko/ast"
	zz "github.com/mattn/anko/zzverif"
)

func zzParseTotal(n int) {
	src := zz.SymString(n)
	var stmt ast.Stmt
	var err error
	panicked := false
	func() {
		defer func() {
			if r := recover(); r != nil {
				if _, ok := r.(zz.AssumeFailed); ok {
					panic(r)
				}
				panicked = true
			}
		}()
		stmt, err = ParseSrc(src)
		_ = stmt
	}()
	zz.Assert(!panicked, "C15.P2.parse-no-panic")
	if panicked {
		return
	}
	if err != nil {
		pe, ok := err.(*Error)
		zz.Assert(ok, "C15.P2.error-is-parser-error")
		if ok {
			// position inside the input: 1 <= line <= lines, 1 <= column <= len(line)+1
			runes := []rune(src)
			zz.Assert(zzPosOK(runes, 0, pe.Pos.Line, pe.Pos.Column), "C15.P2.error-position-in-input")
		}
	}
}

// zzParseTotalWide: the same obligations for sources of n symbolic runes over
// every code point 0..0x10FFFF, entered at Parse with the rune slice ParseSrc
// would have built ([]rune(src) is the only thing ParseSrc adds).
func zzParseTotalWide(n int) {
	zzWide = true
	runes := zzRunes(n)
	zzWide = false
	var err error
	panicked := false
	func() {
		defer func() {
			if r := recover(); r != nil {
				if _, ok := r.(zz.AssumeFailed); ok {
					panic(r)
				}
				panicked = true
			}
		}()
		_, err = Parse(&Scanner{src: append([]rune{}, runes...)})
	}()
	zz.Assert(!panicked, "C15.P2.parse-no-panic")
	if panicked {
		return
	}
	if err != nil {
		pe, ok := err.(*Error)
		zz.Assert(ok, "C15.P2.error-is-parser-error")
		if ok {
			zz.Assert(zzPosOK(runes, 0, pe.Pos.Line, pe.Pos.Column), "C15.P2.error-position-in-input")
		}
	}
}

func ZZ_C15_P2_parse_wide_n1() { zzParseTotalWide(1) }
func ZZ_C15_P2_parse_wide_n2() { zzParseTotalWide(2) }
func ZZ_C15_P2_parse_wide_n3() { zzParseTotalWide(3) }

func ZZ_C15_P2_parse_n1() { zzParseTotal(1) }
func ZZ_C15_P2_parse_n2() { zzParseTotal(2) }
func ZZ_C15_P2_parse_n3() { zzParseTotal(3) }
func ZZ_C15_P2_parse_n4() { zzParseTotal(4) }
