package parser

// C01 / C15-P2: ParseSrc is total on bounded inputs: it returns a tree with a
// nil error or an error of type *parser.Error, and never panics - for every
// source of n symbolic (ASCII) runes.

import (
	"github.com/mattn/anko/ast"
	zz "github.com/mattn/anko/zzverif"
)

func zzParseTotal(n int) {
	src := zz.SymString(n)
	var stmt ast.Stmt
	var err error
	panicked := false
	func() {
		defer func() {
			if r := recover(); r != nil {
				if _, ok := r.(zz.AssumeFailed); ok {
					panic(r)
				}
				panicked = true
			}
		}()
		stmt, err = ParseSrc(src)
		_ = stmt
	}()
	zz.Assert(!panicked, "C15.P2.parse-no-panic")
	if panicked {
		return
	}
	if err != nil {
		pe, ok := err.(*Error)
		zz.Assert(ok, "C15.P2.error-is-parser-error")
		if ok {
			// position inside the input: 1 <= line <= lines, 1 <= column <= len(line)+1
			runes := []rune(src)
			zz.Assert(zzPosOK(runes, 0, pe.Pos.Line, pe.Pos.Column), "C15.P2.error-position-in-input")
		}
	}
}

// zzParseTotalWide: the same obligations for sources of n symbolic runes over
// every code point 0..0x10FFFF, entered at Parse with the rune slice ParseSrc
// would have built ([]rune(src) is the only thing ParseSrc adds).
func zzParseTotalWide(n int) {
	zzWide = true
	runes := zzRunes(n)
	zzWide = false
	var err error
	panicked := false
	func() {
		defer func() {
			if r := recover(); r != nil {
				if _, ok := r.(zz.AssumeFailed); ok {
					panic(r)
				}
				panicked = true
			}
		}()
		_, err = Parse(&Scanner{src: append([]rune{}, runes...)})
	}()
	zz.Assert(!panicked, "C15.P2.parse-no-panic")
	if panicked {
		return
	}
	if err != nil {
		pe, ok := err.(*Error)
		zz.Assert(ok, "C15.P2.error-is-parser-error")
		if ok {
			zz.Assert(zzPosOK(runes, 0, pe.Pos.Line, pe.Pos.Column), "C15.P2.error-position-in-input")
		}
	}
}

func ZZ_C15_P2_parse_wide_n1() { zzParseTotalWide(1) }
func ZZ_C15_P2_parse_wide_n2() { zzParseTotalWide(2) }
func ZZ_C15_P2_parse_wide_n3() { zzParseTotalWide(3) }

func ZZ_C15_P2_parse_n1() { zzParseTotal(1) }
func ZZ_C15_P2_parse_n2() { zzParseTotal(2) }
func ZZ_C15_P2_parse_n3() { zzParseTotal(3) }
func ZZ_C15_P2_parse_n4() { zzParseTotal(4) }

// zzActionErrorPrograms: erroneous programs for the errors raised by the
// grammar's semantic actions (not by the LALR tables): each family is a
// template whose clause bodies are empty, one-line or multi-line, because the
// nodes an action can take a position from differ with them.
func zzActionErrorPrograms() []string {
	bodies := []string{"", " b ", "\nb\n", " b; c "}
	var out []string
	add := func(s ...string) { out = append(out, s...) }
	add(" = 1", "= 1", "\n= 1", "a, b = ", "a, b =\n", "a = 1\n = 2")
	add("x, y, z = <-c", "x,\ny, z = <- c", "v, ok, z = <- c\n")
	for _, b1 := range bodies {
		for _, b2 := range bodies {
			for _, b3 := range bodies[:3] {
				add("if a {" + b1 + "} else {" + b2 + "} else {" + b3 + "}")
			}
			add("for in a {"+b1+"}"+b2, "for a, b, c in d {"+b1+"}"+b2, "\nfor a,\nb, c in d {"+b1+"}")
			for _, pre := range []string{"", "case 1: x\n", "\n"} {
				for _, mid := range []string{"", ";", "\n", "case 2: y\n", "\ncase 2:\n"} {
					add("switch a {" + pre + "default:" + b1 + mid + "default:" + b2 + "}")
					add("switch a {" + pre + "default:" + b1 + mid + "default:" + b2 + "\n}\n")
				}
			}
		}
	}
	add("f(, 1)", "a = [, 1]", "func(, a) { }", "func f(, a) { }", "var , a = 1", "{, \"a\": 1}", "a = {\n, \"a\": 1}", "[,\n1]", "f(\n, 1)", "x = [1]\ny = [, 2]")
	add("1.2.3", "-1.2.3", "0x", "a = 1.2.3", "\n\n1.2.3", "0b", "-0x", "1e", "0x1.8", "a = [1, 0x]", "f(-0b)", "1.2.3\n")
	return out
}

// ZZ_C15_P2_action_errors: the obligations of P2 for the programs above.
func ZZ_C15_P2_action_errors() {
	progs := zzActionErrorPrograms()
	src := progs[zz.Choose(len(progs))]
	var err error
	panicked := false
	func() {
		defer func() {
			if r := recover(); r != nil {
				if _, ok := r.(zz.AssumeFailed); ok {
					panic(r)
				}
				panicked = true
			}
		}()
		_, err = ParseSrc(src)
	}()
	zz.Assertf(!panicked, "C15.P2.parse-no-panic", src)
	if panicked || err == nil {
		return
	}
	pe, ok := err.(*Error)
	zz.Assertf(ok, "C15.P2.error-is-parser-error", src)
	if ok {
		msg := pe.Message
		if len(msg) > 16 && msg[:16] == "invalid number: " {
			msg = "invalid number"
		}
		zz.Assertf(zzPosOK([]rune(src), 0, pe.Pos.Line, pe.Pos.Column), "C15.P2.action-error/position-in-input/"+msg, src)
	}
}
