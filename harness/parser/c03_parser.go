package parser

// C03: the parser builds the tree the source spells out.

import (
	"math"
	"reflect"
	"strconv"
	"strings"

	"github.com/mattn/anko/ast"
	zz "github.com/mattn/anko/zzverif"
)

// ---------------------------------------------------------------- operators (lexer)

type zzTok struct {
	spelling string
	tok      int
}

// reference token table, written from the language description
var zzOperatorTokens = []zzTok{
	{"==", EQEQ}, {"!=", NEQ}, {"<=", LE}, {">=", GE}, {"&&", ANDAND}, {"||", OROR}, {"++", PLUSPLUS}, {"--", MINUSMINUS},
	{"+=", PLUSEQ}, {"-=", MINUSEQ}, {"*=", MULEQ}, {"/=", DIVEQ}, {"&=", ANDEQ}, {"|=", OREQ}, {"<<", SHIFTLEFT}, {">>", SHIFTRIGHT},
	{"<-", OPCHAN}, {"??", NILCOALESCE}, {"...", VARARG},
	{"+", '+'}, {"-", '-'}, {"*", '*'}, {"/", '/'}, {"%", '%'}, {"<", '<'}, {">", '>'}, {"=", '='}, {"!", '!'}, {"&", '&'}, {"|", '|'},
	{"^", '^'}, {"?", '?'}, {":", ':'}, {".", '.'}, {",", ','}, {";", ';'}, {"(", '('}, {")", ')'}, {"[", '['}, {"]", ']'}, {"{", '{'}, {"}", '}'},
}

// zzLongest: the longest spelling of the table that is a prefix of s (as
// runes), written without looking at lexer.go.
func zzLongest(s []rune) (int, int) {
	best, bestTok := 0, 0
	for _, t := range zzOperatorTokens {
		r := []rune(t.spelling)
		if len(r) > len(s) || len(r) <= best {
			continue
		}
		m := true
		for i := range r {
			if s[i] != r[i] {
				m = false
			}
		}
		if m {
			best, bestTok = len(r), t.tok
		}
	}
	return best, bestTok
}

// ZZ_C03_operator_tokens: spelling ++ [c] with c an arbitrary rune: longest
// match token code, literal and consumed length.
func ZZ_C03_operator_tokens() {
	t := zzOperatorTokens[zz.Choose(len(zzOperatorTokens))]
	c := zz.Rune()
	zz.Assume(zz.And(c >= 0, c < 0x80))
	// comment openers and "= <-" are other constructs
	sp := []rune(t.spelling)
	if t.spelling == "/" {
		zz.Assume(zz.And(c != '/', c != '*'))
	}
	if t.spelling == "=" {
		zz.Assume(c != ' ')
	}
	src := append(append([]rune{}, sp...), c)
	s := &Scanner{src: src}
	tok, lit, _, err := s.Scan()
	// reference: is there a longer spelling using c?  only if the result is in the table
	n, want := zzLongest(src)
	id := "C03.operator/" + t.spelling
	if t.spelling == "." && c == '.' {
		// ".." is not a token: a lexical error
		zz.Assert(err != nil, id+"/two-dots-is-error")
		return
	}
	zz.Assert(err == nil, id+"/no-error")
	zz.Assert(tok == want, id+"/longest-match-token")
	zz.Assert(s.offset == n, id+"/consumed-length")
	if tok != VARARG {
		zz.Assert(lit == string(src[:n]), id+"/literal")
	}
}

// ---------------------------------------------------------------- literals

func zzParseLiteral(src string) (reflect.Value, bool) {
	stmt, err := ParseSrc(src)
	if err != nil || stmt == nil {
		return reflect.Value{}, false
	}
	var e ast.Expr
	switch s := stmt.(type) {
	case *ast.StmtsStmt:
		if len(s.Stmts) != 1 {
			return reflect.Value{}, false
		}
		es, ok := s.Stmts[0].(*ast.ExprStmt)
		if !ok {
			return reflect.Value{}, false
		}
		e = es.Expr
	case *ast.ExprStmt:
		e = s.Expr
	default:
		return reflect.Value{}, false
	}
	l, ok := e.(*ast.LiteralExpr)
	if !ok {
		return reflect.Value{}, false
	}
	return l.Literal, true
}

func zzDigits(n int, hex bool) (string, []int64) {
	b := make([]byte, n)
	vals := make([]int64, n)
	for i := range b {
		c := zz.Byte()
		if !hex {
			zz.Assume(zz.And(c >= '0', c <= '9'))
			vals[i] = int64(c - '0')
		} else {
			switch zz.Choose(3) {
			case 0:
				zz.Assume(zz.And(c >= '0', c <= '9'))
				vals[i] = int64(c - '0')
			case 1:
				zz.Assume(zz.And(c >= 'a', c <= 'f'))
				vals[i] = int64(c-'a') + 10
			case 2:
				zz.Assume(zz.And(c >= 'A', c <= 'F'))
				vals[i] = int64(c-'A') + 10
			}
		}
		b[i] = c
	}
	return string(b), vals
}

// zzIntLiteral: n symbolic digits in the given base denote exactly that
// int64 (n small: no overflow possible).
func zzIntLiteral(n int, base int64, prefix string, neg bool) {
	digits, vals := zzDigits(n, base == 16)
	if base == 2 {
		for _, v := range vals {
			zz.Assume(v <= 1)
		}
	}
	want := int64(0)
	for _, v := range vals {
		want = want*base + v
	}
	src := prefix + digits
	if neg {
		src = "-" + src
		want = -want
	}
	rv, ok := zzParseLiteral(src)
	id := "C03.int-literal/base" + []string{"", "", "2", "", "", "", "", "", "", "", "10", "", "", "", "", "", "16"}[base]
	zz.Assert(ok, id+"/parses-to-a-literal")
	if ok {
		zz.Assert(rv.Kind() == reflect.Int64, id+"/kind-int64")
		zz.Assert(rv.Int() == want, id+"/exact-value")
	}
}

func ZZ_C03_decimal_literals()   { zzIntLiteral(1+zz.Choose(4), 10, "", zz.Choose(2) == 1) }
func ZZ_C03_decimal_literals_6() { zzIntLiteral(5+zz.Choose(2), 10, "", false) }
func ZZ_C03_hex_literals() {
	zzIntLiteral(1+zz.Choose(3), 16, []string{"0x", "0X"}[zz.Choose(2)], zz.Choose(2) == 1)
}
func ZZ_C03_binary_literals() {
	zzIntLiteral(1+zz.Choose(4), 2, []string{"0b", "0B"}[zz.Choose(2)], zz.Choose(2) == 1)
}

// ZZ_C03_int64_edge: concrete 18-digit prefix + symbolic last digit: accepted
// iff representable in int64.
func ZZ_C03_int64_edge() {
	d := zz.Byte()
	zz.Assume(zz.And(d >= '0', d <= '9'))
	neg := zz.Choose(2) == 1
	src := "922337203685477580" + string([]byte{d})
	limit := byte('7')
	if neg {
		src = "-" + src
		limit = '8'
	}
	rv, ok := zzParseLiteral(src)
	if d <= limit {
		zz.Assert(ok && rv.Kind() == reflect.Int64, "C03.int64-edge/representable-accepted")
		if ok && rv.Kind() == reflect.Int64 {
			want := int64(9223372036854775800) + int64(d-'0')
			if neg {
				want = -9223372036854775800 - int64(d-'0')
			}
			zz.Assert(rv.Int() == want, "C03.int64-edge/exact-value")
		}
	} else {
		_, err := ParseSrc(src)
		zz.Assert(err != nil, "C03.int64-edge/not-representable-rejected")
	}
}

// ZZ_C03_float_and_malformed: concrete spellings.
func ZZ_C03_float_and_malformed() {
	type c struct {
		src  string
		ok   bool
		want float64
	}
	cases := []c{{"1.5", true, 1.5}, {"0.1", true, 0.1}, {"1e3", true, 1000}, {"1E3", true, 1000}, {"2.5e-3", true, 0.0025}, {"1e+2", true, 100},
		{"10.0", true, 10}, {"1.", true, 1}, {"1e400", false, 0}, {"1.2.3", false, 0}, {"1e", false, 0}, {"0x", false, 0}, {"1a", false, 0},
		{"0b2", false, 0}, {"1e5e5", false, 0}, {"-1.5", true, -1.5}, {"-1e3", true, -1000}, {"-2.5e-3", true, -0.0025}, {"-1.", true, -1}, {"-1e400", false, 0}, {"-0b2", false, 0}, {"-0x", false, 0}, {"123456789012345678901234567890", false, 0}}
	k := cases[zz.Choose(len(cases))]
	rv, ok := zzParseLiteral(k.src)
	if k.ok {
		zz.Assert(ok && rv.Kind() == reflect.Float64 && rv.Float() == k.want, "C03.float-literal/"+k.src)
	} else {
		_, err := ParseSrc(k.src)
		zz.Assert(err != nil, "C03.malformed-number-rejected/"+k.src)
	}
}

// ZZ_C03_float_roundtrip: a float literal denotes exactly the float64 nearest to
// what is written.  The engine cannot encode decimal-to-binary rounding of a
// symbolic numeral, so the obligation is decided on a structured concrete pool
// instead: 1536 float64 values (12 binades from 2^-10 to 2^63, 128 mantissa
// patterns each: the binade's ends, single bits, long carries, an arithmetic
// progression), each written in the three spellings Go's own formatter gives -
// shortest plain decimal (15 to 17 significant digits), shortest exponent
// form, and 17 significant digits - and read back through the real scanner,
// grammar action and number conversion.  Reference: strconv on the same text.
func ZZ_C03_float_roundtrip() {
	exps := []uint64{1013, 1019, 1022, 1023, 1024, 1030, 1042, 1060, 1075, 1076, 1080, 1086}
	e := exps[zz.Choose(len(exps))]
	m := zz.Choose(128)
	var mant uint64
	switch {
	case m == 0:
		mant = 0
	case m == 1:
		mant = 1<<52 - 1
	case m < 54:
		mant = 1 << uint(m-2)
	case m < 80:
		mant = (1<<52 - 1) ^ (1 << uint(m-54)) // long runs of ones
	default:
		mant = (uint64(m) * 0x9E3779B97F4A7C15) & (1<<52 - 1) // spread
	}
	f := math.Float64frombits(e<<52 | mant)
	neg := zz.Choose(2) == 1
	if neg {
		f = -f
	}
	form := zz.Choose(3)
	var text string
	switch form {
	case 0:
		text = strconv.FormatFloat(f, 'f', -1, 64)
		if !strings.Contains(text, ".") {
			text += ".0"
		}
	case 1:
		text = strconv.FormatFloat(f, 'e', -1, 64)
	case 2:
		text = strconv.FormatFloat(f, 'e', 16, 64)
	}
	rv, ok := zzParseLiteral(text)
	id := []string{"shortest-decimal", "shortest-exponent", "17-digits"}[form]
	zz.Assertf(ok && rv.IsValid() && rv.Kind() == reflect.Float64, "C03.float-literal/roundtrip/parses-as-float/"+id, text)
	if ok && rv.IsValid() && rv.Kind() == reflect.Float64 {
		zz.Assertf(math.Float64bits(rv.Float()) == math.Float64bits(f), "C03.float-literal/roundtrip/denotes-the-nearest-float64/"+id, text)
	}
}

// ZZ_C03_string_literals: quoted strings with escapes, raw strings.
func ZZ_C03_string_literals() {
	n := zz.Choose(4)
	q := []byte{'"', '\''}[zz.Choose(2)]
	content := make([]byte, n)
	for i := range content {
		c := zz.Byte()
		zz.Assume(zz.And(c < 0x80, zz.And(c != '\n', c != q)))
		content[i] = c
	}
	// reference unescape
	var want []byte
	bad := false
	for i := 0; i < n; i++ {
		c := content[i]
		if c != '\\' {
			want = append(want, c)
			continue
		}
		if i+1 >= n {
			bad = true // a trailing backslash escapes the closing quote
			break
		}
		i++
		switch content[i] {
		case 'b':
			want = append(want, '\b')
		case 'f':
			want = append(want, '\f')
		case 'r':
			want = append(want, '\r')
		case 'n':
			want = append(want, '\n')
		case 't':
			want = append(want, '\t')
		default:
			want = append(want, content[i])
		}
	}
	src := string(q) + string(content) + string(q)
	rv, ok := zzParseLiteral(src)
	if bad {
		_, err := ParseSrc(src)
		zz.Assert(err != nil, "C03.string-literal/unterminated-is-error")
		return
	}
	zz.Assert(ok && rv.Kind() == reflect.String, "C03.string-literal/parses")
	if ok && rv.Kind() == reflect.String {
		zz.Assert(rv.String() == string(want), "C03.string-literal/denotes-exactly-what-is-written")
	}
}

func ZZ_C03_raw_string_literals() {
	n := zz.Choose(4)
	content := make([]byte, n)
	for i := range content {
		c := zz.Byte()
		zz.Assume(zz.And(c < 0x80, c != '`'))
		content[i] = c
	}
	rv, ok := zzParseLiteral("`" + string(content) + "`")
	zz.Assert(ok && rv.Kind() == reflect.String, "C03.raw-string/parses")
	if ok && rv.Kind() == reflect.String {
		zz.Assert(rv.String() == string(content), "C03.raw-string/verbatim")
	}
}

// ---------------------------------------------------------------- precedence

// operator table of the property: loosest (1) to tightest
var zzBinOps = []struct {
	sp    string
	level int
}{
	{"||", 2}, {"&&", 3}, {"==", 4}, {"!=", 4}, {"<", 4}, {"<=", 4}, {">", 4}, {">=", 4},
	{"+", 5}, {"-", 5}, {"|", 5}, {"*", 6}, {"/", 6}, {"%", 6}, {"<<", 6}, {">>", 6}, {"&", 6}, {"in", 7}, {"??", 1},
}

// zzClimb: reference precedence climbing over operands x[lo..hi] and the
// operators between them; returns the fully parenthesised spelling.
func zzClimb(operands []string, ops []int, lo, hi int) string {
	if lo == hi {
		return operands[lo]
	}
	// split at the loosest operator; among equals the last one (left
	// associative) - for ?? (right associative) the first one
	best := -1
	for i := lo; i < hi; i++ {
		l := zzBinOps[ops[i]].level
		if best < 0 || l < zzBinOps[ops[best]].level {
			best = i
		} else if l == zzBinOps[ops[best]].level && l != 1 {
			best = i
		}
	}
	return "(" + zzClimb(operands, ops, lo, best) + " " + zzBinOps[ops[best]].sp + " " + zzClimb(operands, ops, best+1, hi) + ")"
}

// zzSameExpr: structural equality modulo ParenExpr and positions.
func zzSameExpr(a, b ast.Expr) bool {
	for {
		p, ok := a.(*ast.ParenExpr)
		if !ok {
			break
		}
		a = p.SubExpr
	}
	for {
		p, ok := b.(*ast.ParenExpr)
		if !ok {
			break
		}
		b = p.SubExpr
	}
	if a == nil || b == nil {
		return a == nil && b == nil
	}
	switch x := a.(type) {
	case *ast.IdentExpr:
		y, ok := b.(*ast.IdentExpr)
		return ok && x.Lit == y.Lit
	case *ast.LiteralExpr:
		y, ok := b.(*ast.LiteralExpr)
		return ok && x.Literal.Kind() == y.Literal.Kind()
	case *ast.OpExpr:
		y, ok := b.(*ast.OpExpr)
		return ok && zzSameOp(x.Op, y.Op)
	case *ast.UnaryExpr:
		y, ok := b.(*ast.UnaryExpr)
		return ok && x.Operator == y.Operator && zzSameExpr(x.Expr, y.Expr)
	case *ast.AddrExpr:
		y, ok := b.(*ast.AddrExpr)
		return ok && zzSameExpr(x.Expr, y.Expr)
	case *ast.DerefExpr:
		y, ok := b.(*ast.DerefExpr)
		return ok && zzSameExpr(x.Expr, y.Expr)
	case *ast.TernaryOpExpr:
		y, ok := b.(*ast.TernaryOpExpr)
		return ok && zzSameExpr(x.Expr, y.Expr) && zzSameExpr(x.LHS, y.LHS) && zzSameExpr(x.RHS, y.RHS)
	case *ast.NilCoalescingOpExpr:
		y, ok := b.(*ast.NilCoalescingOpExpr)
		return ok && zzSameExpr(x.LHS, y.LHS) && zzSameExpr(x.RHS, y.RHS)
	case *ast.IncludeExpr:
		y, ok := b.(*ast.IncludeExpr)
		return ok && zzSameExpr(x.ItemExpr, y.ItemExpr) && zzSameExpr(x.ListExpr, y.ListExpr)
	case *ast.ItemExpr:
		y, ok := b.(*ast.ItemExpr)
		return ok && zzSameExpr(x.Item, y.Item) && zzSameExpr(x.Index, y.Index)
	case *ast.SliceExpr:
		y, ok := b.(*ast.SliceExpr)
		return ok && zzSameExpr(x.Item, y.Item) && zzSameExpr(x.Begin, y.Begin) && zzSameExpr(x.End, y.End) && zzSameExpr(x.Cap, y.Cap)
	case *ast.MemberExpr:
		y, ok := b.(*ast.MemberExpr)
		return ok && x.Name == y.Name && zzSameExpr(x.Expr, y.Expr)
	case *ast.CallExpr:
		y, ok := b.(*ast.CallExpr)
		if !ok || x.Name != y.Name || len(x.SubExprs) != len(y.SubExprs) {
			return false
		}
		for i := range x.SubExprs {
			if !zzSameExpr(x.SubExprs[i], y.SubExprs[i]) {
				return false
			}
		}
		return true
	case *ast.AnonCallExpr:
		y, ok := b.(*ast.AnonCallExpr)
		if !ok || len(x.SubExprs) != len(y.SubExprs) || !zzSameExpr(x.Expr, y.Expr) {
			return false
		}
		for i := range x.SubExprs {
			if !zzSameExpr(x.SubExprs[i], y.SubExprs[i]) {
				return false
			}
		}
		return true
	}
	return false
}

func zzSameOp(a, b ast.Operator) bool {
	switch x := a.(type) {
	case *ast.BinaryOperator:
		y, ok := b.(*ast.BinaryOperator)
		return ok && x.Operator == y.Operator && zzSameExpr(x.LHS, y.LHS) && zzSameExpr(x.RHS, y.RHS)
	case *ast.ComparisonOperator:
		y, ok := b.(*ast.ComparisonOperator)
		return ok && x.Operator == y.Operator && zzSameExpr(x.LHS, y.LHS) && zzSameExpr(x.RHS, y.RHS)
	case *ast.AddOperator:
		y, ok := b.(*ast.AddOperator)
		return ok && x.Operator == y.Operator && zzSameExpr(x.LHS, y.LHS) && zzSameExpr(x.RHS, y.RHS)
	case *ast.MultiplyOperator:
		y, ok := b.(*ast.MultiplyOperator)
		return ok && x.Operator == y.Operator && zzSameExpr(x.LHS, y.LHS) && zzSameExpr(x.RHS, y.RHS)
	}
	return false
}

// zzExprOf parses src in statement context ctx and returns the expression.
func zzExprOf(src string, ctx int) (ast.Expr, bool) {
	full := src
	switch ctx {
	case 1:
		full = "return " + src
	case 2:
		full = "if " + src + " { }"
	case 3:
		full = "z = " + src
	case 4:
		full = "f(" + src + ")"
	}
	stmt, err := ParseSrc(full)
	if err != nil || stmt == nil {
		return nil, false
	}
	if ss, ok := stmt.(*ast.StmtsStmt); ok {
		if len(ss.Stmts) != 1 {
			return nil, false
		}
		stmt = ss.Stmts[0]
	}
	switch s := stmt.(type) {
	case *ast.ExprStmt:
		if ctx == 4 {
			c, ok := s.Expr.(*ast.CallExpr)
			if !ok || len(c.SubExprs) != 1 {
				return nil, false
			}
			return c.SubExprs[0], true
		}
		return s.Expr, true
	case *ast.ReturnStmt:
		if len(s.Exprs) != 1 {
			return nil, false
		}
		return s.Exprs[0], true
	case *ast.IfStmt:
		return s.If, true
	case *ast.LetsStmt:
		if len(s.RHSS) != 1 {
			return nil, false
		}
		return s.RHSS[0], true
	}
	return nil, false
}

var zzPrefixes = []string{"", "-", "!", "^", "&", "*"}
var zzPostfixes = []string{"", "(x)", "[x]", "[x:y]", ".m"}

// zzPrecedence: n binary operators between decorated operands; the written
// expression and its fully parenthesised reference spelling must parse to the
// same tree (modulo ParenExpr and positions).
// zzOperandProfile: what the operands of the precedence harnesses are spelled as
// (0 identifiers; 1 integer literals; 2 an identifier followed by integer
// literals; 3 a string, a float, an integer, an identifier) - a grammar action
// may treat constant operands differently from names.
var zzOperandProfile int

func zzPrecedence(n int, decorate bool) {
	names := [][]string{{"a", "b", "c", "d"}, {"1", "2", "3", "4"}, {"x", "1", "2", "3"}, {"\"s\"", "1.5", "2", "y"}}[zzOperandProfile]
	operands := make([]string, n+1)
	shown := make([]string, n+1)
	for i := range operands {
		pre, post := "", ""
		if decorate && i < 2 {
			pre = zzPrefixes[zz.Choose(len(zzPrefixes))]
			post = zzPostfixes[zz.Choose(len(zzPostfixes))]
		}
		operands[i] = pre + names[i] + post
		// unary binds tighter than every binary operator, postfix tighter than unary
		if pre != "" {
			shown[i] = "(" + pre + "(" + names[i] + post + "))"
		} else {
			shown[i] = operands[i]
		}
	}
	ops := make([]int, n)
	src := operands[0]
	for i := range ops {
		ops[i] = zz.Choose(len(zzBinOps))
		src += " " + zzBinOps[ops[i]].sp + " " + operands[i+1]
	}
	ref := zzClimb(shown, ops, 0, n)
	ctx := zz.Choose(5)
	id := "C03.precedence/"
	for i := range ops {
		if i > 0 {
			id += ","
		}
		id += zzBinOps[ops[i]].sp
	}
	e1, ok1 := zzExprOf(src, ctx)
	e2, ok2 := zzExprOf(ref, ctx)
	zz.Assert(ok1 && ok2, id+"/both-spellings-parse")
	if ok1 && ok2 {
		zz.Assertf(zzSameExpr(e1, e2), id+"/same-tree-as-explicit-parentheses", src+"  vs  "+ref)
	}
}

func ZZ_C03_precedence_2()           { zzPrecedence(2, false) }
func ZZ_C03_precedence_2_decorated() { zzPrecedence(1, true) }
func ZZ_C03_precedence_3()           { zzPrecedence(3, false) }

// ZZ_C03_precedence_2_literals: the same pairs with literal operands.
func ZZ_C03_precedence_2_literals() {
	zzOperandProfile = 1 + zz.Choose(3)
	defer func() { zzOperandProfile = 0 }()
	zzPrecedence(2, false)
}

// ZZ_C03_ternary: ?: is right-associative and looser than every binary operator.
func ZZ_C03_ternary() {
	op := zzBinOps[zz.Choose(len(zzBinOps))].sp
	type c struct{ src, ref string }
	cases := []c{
		{"a " + op + " b ? c : d", "(a " + op + " b) ? c : d"},
		{"a ? b " + op + " c : d", "a ? (b " + op + " c) : d"},
		{"a ? b : c " + op + " d", "a ? b : (c " + op + " d)"},
		{"a ? b : c ? d : e", "a ? b : (c ? d : e)"},
		{"a ? b ? c : d : e", "a ? (b ? c : d) : e"},
		{"-a ? b : c", "(-a) ? b : c"},
		{"a ? b : c[x]", "a ? b : (c[x])"},
	}
	k := cases[zz.Choose(len(cases))]
	if op == "??" && (k.src == cases[0].src || k.src == cases[2].src) {
		// ?: and ?? share the loosest level, both right-associative
		k = c{"a ?? b ? c : d", "a ?? (b ? c : d)"}
	}
	ctx := zz.Choose(5)
	e1, ok1 := zzExprOf(k.src, ctx)
	e2, ok2 := zzExprOf(k.ref, ctx)
	zz.Assert(ok1 && ok2, "C03.ternary/both-spellings-parse/"+op)
	if ok1 && ok2 {
		zz.Assertf(zzSameExpr(e1, e2), "C03.ternary/same-tree-as-explicit-parentheses/"+op, k.src+"  vs  "+k.ref)
	}
}

// ZZ_C03_hex_binary_edge: hexadecimal and binary literals at the int64 edge:
// accepted iff representable in int64 (0x8000000000000000 is not).
func ZZ_C03_hex_binary_edge() {
	if zz.Choose(3) == 2 {
		// the most negative int64 in every base, and one beyond it
		zeros := ""
		for i := 0; i < 63; i++ {
			zeros += "0"
		}
		type c struct {
			src string
			ok  bool
		}
		cases := []c{{"-0x8000000000000000", true}, {"-0x8000000000000001", false}, {"-0b1" + zeros, true}, {"-0b1" + zeros[:61] + "1", true}, {"-0b1" + zeros + "0", false},
			{"-9223372036854775808", true}, {"-9223372036854775809", false}, {"0x8000000000000000", false}, {"0b1" + zeros, false}}
		k := cases[zz.Choose(len(cases))]
		rv, ok := zzParseLiteral(k.src)
		if k.ok {
			want := int64(-9223372036854775808)
			if k.src == "-0b1"+zeros[:61]+"1" {
				want = -(1<<62 + 1)
			}
			zz.Assert(ok && rv.Kind() == reflect.Int64 && rv.Int() == want, "C03.negative-edge/representable-accepted/"+k.src[:4])
		} else {
			_, err := ParseSrc(k.src)
			zz.Assert(err != nil, "C03.negative-edge/not-representable-rejected/"+k.src[:4])
		}
		return
	}
	if zz.Choose(2) == 0 {
		// "0x" + d + 15 f's, d a symbolic hex digit
		ds, vals := zzDigits(1, true)
		src := []string{"0x", "0X"}[zz.Choose(2)] + ds + "fffffffffffffff"
		rv, ok := zzParseLiteral(src)
		if vals[0] <= 7 {
			zz.Assert(ok && rv.Kind() == reflect.Int64, "C03.hex-edge/representable-accepted")
			if ok && rv.Kind() == reflect.Int64 {
				zz.Assert(rv.Int() == vals[0]<<60|0x0fffffffffffffff, "C03.hex-edge/exact-value")
			}
		} else {
			_, err := ParseSrc(src)
			zz.Assert(err != nil, "C03.hex-edge/not-representable-rejected")
		}
		return
	}
	// "0b" + b + 63 ones
	ds, vals := zzDigits(1, false)
	zz.Assume(vals[0] <= 1)
	ones := ""
	for i := 0; i < 63; i++ {
		ones += "1"
	}
	src := "0b" + ds + ones
	rv, ok := zzParseLiteral(src)
	if vals[0] == 0 {
		zz.Assert(ok && rv.Kind() == reflect.Int64 && rv.Int() == 9223372036854775807, "C03.binary-edge/representable-accepted")
	} else {
		_, err := ParseSrc(src)
		zz.Assert(err != nil, "C03.binary-edge/not-representable-rejected")
	}
}

// ZZ_C03_unary_stacking: unary operators nest right to left: `u1 u2 a` is
// `u1 (u2 a)` for every pair, also under a binary operator and a postfix.
func ZZ_C03_unary_stacking() {
	us := []string{"-", "!", "^", "&", "*"}
	u1, u2 := us[zz.Choose(len(us))], us[zz.Choose(len(us))]
	if u1 == "-" && u2 == "-" {
		return // "--" is the decrement token
	}
	if u1 == "&" && u2 == "&" {
		return // "&&" is a token of its own
	}
	shapes := []struct{ src, ref string }{
		{u1 + u2 + "a", u1 + "(" + u2 + "a)"},
		{u1 + u2 + u2 + "a", u1 + "(" + u2 + "(" + u2 + "a))"},
		{u1 + u2 + "a + b", "(" + u1 + "(" + u2 + "a)) + b"},
		{u1 + u2 + "a[x]", u1 + "(" + u2 + "(a[x]))"},
		{"b * " + u1 + u2 + "a", "b * (" + u1 + "(" + u2 + "a))"},
	}
	k := shapes[zz.Choose(len(shapes))]
	if u2 == "-" && (k.src == shapes[1].src) {
		return // "--"
	}
	if u2 == "&" && (k.src == shapes[1].src) {
		return
	}
	ctx := zz.Choose(5)
	e1, ok1 := zzExprOf(k.src, ctx)
	e2, ok2 := zzExprOf(k.ref, ctx)
	id := "C03.unary-stacking/" + u1 + u2
	zz.Assert(ok1 && ok2, id+"/both-spellings-parse")
	if ok1 && ok2 {
		zz.Assertf(zzSameExpr(e1, e2), id+"/same-tree-as-explicit-parentheses", k.src+"  vs  "+k.ref)
	}
}
