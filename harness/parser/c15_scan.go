package parser

import (
	zz "github.com/mattn/anko/zzverif"
)

// zzRunes returns n symbolic runes, each ASCII (0..0x7f) - the documented
// assumption for symbolic runes; concrete non-ASCII members are added by the
// callers through zzRuneAt.
func zzRunes(n int) []rune {
	out := make([]rune, n)
	for i := range out {
		r := zz.Rune()
		if zzWide {
			zz.Assume(zz.And(r >= 0, r <= 0x10FFFF))
		} else {
			zz.Assume(zz.And(r >= 0, r < 0x80))
		}
		out[i] = r
	}
	return out
}

// zzWide: the symbolic runes range over every code point 0..0x10FFFF (what
// []rune(src) can hold for arbitrary bytes, and more: surrogates included).
// unicode.IsLetter is then membership in the real range table and string(rune)
// the UTF-8 encoding by length class.
var zzWide bool

// zzScanState builds an arbitrary scanner state satisfying the invariant I
// over src = prefix ++ suffix(symbolic, n runes).
//
//	shape 0: prefix ""      offset 0 lineHead 0
//	shape 1: prefix "a\n"   offset 2 lineHead 2
//	shape 2: prefix "ab"    offset 2 lineHead 0
//	shape 3: prefix "\nab"  offset 3 lineHead 1
//
// line is symbolic (lines of an unseen earlier part of the input; the
// translation lemma C15-P4a justifies that the scanner does not depend on it).
func zzScanState(n int) (*Scanner, int64) {
	var prefix []rune
	lineHead := 0
	switch zz.Choose(4) {
	case 0:
	case 1:
		prefix = []rune("a\n")
		lineHead = 2
	case 2:
		prefix = []rune("ab")
	case 3:
		prefix = []rune("\nab")
		lineHead = 1
	}
	src := append(prefix, zzRunes(n)...)
	extra := zz.Int64()
	zz.Assume(zz.And(extra >= 0, extra < 1<<30))
	nl := 0
	for _, r := range prefix[:lineHead] {
		if r == '\n' {
			nl++
		}
	}
	s := &Scanner{src: src, offset: len(prefix), lineHead: lineHead, line: int(extra) + nl}
	return s, extra
}

// zzInvariant is the scanner invariant I as a (possibly symbolic) bool.
func zzInvariant(s *Scanner, extra int64) bool {
	if s.lineHead < 0 || s.lineHead > s.offset || s.offset > len(s.src) {
		return false
	}
	ok := true
	if s.lineHead > 0 {
		ok = zz.And(ok, s.src[s.lineHead-1] == '\n')
	}
	for i := s.lineHead; i < s.offset; i++ {
		ok = zz.And(ok, s.src[i] != '\n')
	}
	cnt := 0
	for i := 0; i < s.lineHead; i++ {
		cnt += zz.Ite(s.src[i] == '\n', 1, 0)
	}
	ok = zz.And(ok, s.line == int(extra)+cnt)
	return ok
}

// zzPosOK: pos names a position inside the input: some offset q in 0..len
// has line(q) == pos.Line and column(q) == pos.Column, with lines counted
// from extra+1.
func zzPosOK(src []rune, extra int64, line, col int) bool {
	found := false
	curLine := int(extra) + 1
	curCol := 1
	for q := 0; q <= len(src); q++ {
		found = zz.Or(found, zz.And(line == curLine, col == curCol))
		if q < len(src) {
			isNL := src[q] == '\n'
			curLine = zz.Ite(isNL, curLine+1, curLine)
			curCol = zz.Ite(isNL, 1, curCol+1)
		}
	}
	return found
}

func zzScanStep(n int) {
	s, extra := zzScanState(n)
	zz.Assert(zzInvariant(s, extra), "C15.P1.pre-invariant-consistent")
	off0 := s.offset
	tok, lit, pos, err := s.Scan()
	_, _ = tok, lit
	zz.Assert(zzInvariant(s, extra), "C15.P1.invariant-preserved")
	zz.Assert(s.offset >= off0, "C15.P1.progress-monotone")
	zz.Assert(zzPosOK(s.src, extra, pos.Line, pos.Column), "C15.P1.position-in-input")
	if err == nil && tok != EOF {
		zz.Assert(s.offset > off0, "C15.P1.token-consumes-input")
	}
}

func ZZ_C15_P1_scan_n1() { zzScanStep(1) }
func ZZ_C15_P1_scan_n2() { zzScanStep(2) }
func ZZ_C15_P1_scan_n3() { zzScanStep(3) }
func ZZ_C15_P1_scan_n4() { zzScanStep(4) }
func ZZ_C15_P1_scan_n5() { zzScanStep(5) }
func ZZ_C15_P1_scan_n6() { zzScanStep(6) }
func ZZ_C15_P1_scan_n8() { zzScanStep(8) }

func zzScanStepWide(n int) {
	zzWide = true
	defer func() { zzWide = false }()
	zzScanStep(n)
}

func ZZ_C15_P1_scan_wide_n1() { zzScanStepWide(1) }
func ZZ_C15_P1_scan_wide_n2() { zzScanStepWide(2) }
func ZZ_C15_P1_scan_wide_n3() { zzScanStepWide(3) }
func ZZ_C15_P1_scan_wide_n4() { zzScanStepWide(4) }
