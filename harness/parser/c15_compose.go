package parser

// C15-P3 / P4: parsing has no memory between calls and is compositional.

import (
	"reflect"

	"github.com/mattn/anko/ast"
	"github.com/mattn/anko/ast/astutil"
	zz "github.com/mattn/anko/zzverif"
)

// ZZ_C15_P4a_scan_translation (relational scanner lemma): scanner A over src2
// and scanner B over prefix ++ "\n" ++ src2, started at the corresponding
// states, return the same token and literal, positions shifted by exactly the
// prefix's line count (+1) and by no column, and corresponding post-states.
func zzScanTranslation(n int) {
	prefix := []string{"", "x", "ab\ncd", "\n\n", "a = 1 // c"}[zz.Choose(5)]
	suffix := zzRunes(n)
	pr := []rune(prefix)
	lines := 1
	for _, r := range pr {
		if r == '\n' {
			lines++
		}
	}
	a := &Scanner{src: suffix}
	bsrc := append(append(append([]rune{}, pr...), '\n'), suffix...)
	shift := len(pr) + 1
	b := &Scanner{src: bsrc, offset: shift, lineHead: shift, line: lines}
	ta, la, pa, ea := a.Scan()
	tb, lb, pb, eb := b.Scan()
	zz.Assert(ta == tb, "C15.P4a.same-token")
	zz.Assert(la == lb, "C15.P4a.same-literal")
	zz.Assert((ea == nil) == (eb == nil), "C15.P4a.same-error-status")
	zz.Assert(pb.Line == pa.Line+lines, "C15.P4a.line-shifted-by-prefix-lines")
	zz.Assert(pb.Column == pa.Column, "C15.P4a.column-unchanged")
	zz.Assert(b.offset == a.offset+shift, "C15.P4a.post-offset-corresponds")
	zz.Assert(b.line == a.line+lines, "C15.P4a.post-line-corresponds")
	zz.Assert(b.lineHead == a.lineHead+shift, "C15.P4a.post-linehead-corresponds")
}

func ZZ_C15_P4a_scan_translation_n2() { zzScanTranslation(2) }
func ZZ_C15_P4a_scan_translation_n3() { zzScanTranslation(3) }
func ZZ_C15_P4a_scan_translation_n4() { zzScanTranslation(4) }

// statement-forming snippets that parse on their own
var zzSnippets = []string{
	"a = 1", "b = a + 2 * 3", "if a { b = 1 } else { b = 2 }", "for i in [1, 2] { a += i }", "func f(x) { return x }", "f(1)",
	"a = [1, 2, 3]", "m = {\"k\": 1}", "a[0] = 2", "try { throw 1 } catch e { }", "switch a { case 1: b = 1\ndefault: b = 2 }",
	"// comment", "/* block\ncomment */", "x = `raw\nstring`", "var c = 1", "module m { d = 1 }", "a ?? b", "a ? b : c", "",
	"for { break }", "for i = 0; i < 2; i++ { }", "a.b = 1", "delete(m, \"k\")", "go f(1)", "defer f(1)", "s = \"a\\nb\"",
	"a = 1; b = 2", "a, b = 1, 2", "x = make([]int64, 1)", "len(a)", "-a + !b",
	// texts whose last token closes a node positioned from the lexer's last
	// token (empty array, parenthesis, typed literal): the token after it is
	// the end of input alone and a newline in a concatenation
	"x = []", "[]", "y = (a)", "(a + b)", "z = []int64{1}", "w = [\n1,\n2\n]", "f([])", "a = [[]]", "a = ([])", "m = {}", "x = [] ", "x = [] // c",
}

type zzNodeRec struct {
	kind string
	line int
	col  int
}

func zzFlatten(stmt ast.Stmt) []zzNodeRec {
	var out []zzNodeRec
	if stmt == nil {
		return out
	}
	astutil.Walk(stmt, func(x interface{}) error {
		if p, ok := x.(ast.Pos); ok {
			pos := p.Position()
			out = append(out, zzNodeRec{reflect.TypeOf(x).String(), pos.Line, pos.Column})
		}
		return nil
	})
	return out
}

func zzTopLevel(stmt ast.Stmt) []ast.Stmt {
	if stmt == nil {
		return nil
	}
	if ss, ok := stmt.(*ast.StmtsStmt); ok {
		return ss.Stmts
	}
	return []ast.Stmt{stmt}
}

// ZZ_C15_P3_P4b: the same text always yields the same tree and parsing writes
// no pre-existing object; if two texts each parse on their own, their
// concatenation with a newline parses to the concatenation of their statement
// lists, every node of the second keeping its position shifted by the first
// text's line count.
func ZZ_C15_P3_P4b_compose() {
	s1 := zzSnippets[zz.Choose(len(zzSnippets))]
	s2 := zzSnippets[zz.Choose(len(zzSnippets))]
	g0 := ""
	if zz.Symbolic() {
		zz.FreezeGlobals()
	} else {
		g0 = zz.GlobalsDump() // native oracle: the variables the engine named, dumped before and after
	}
	t1, e1 := ParseSrc(s1)
	t1b, e1b := ParseSrc(s1)
	t2, e2 := ParseSrc(s2)
	if zz.Symbolic() {
		zz.Assertf(zz.Events("frozen-write") == 0, "C15.P3.parse-writes-no-shared-state", zz.EventText("frozen-write"))
		zz.Unfreeze()
	} else {
		zz.Assert(zz.GlobalsDump() == g0, "C15.P3.parse-writes-no-shared-state")
	}
	zz.Assert(e1 == nil && e2 == nil && e1b == nil, "C15.P4b.snippets-parse")
	if e1 != nil || e2 != nil {
		return
	}
	f1, f1b := zzFlatten(t1), zzFlatten(t1b)
	same := len(f1) == len(f1b)
	for i := 0; same && i < len(f1); i++ {
		same = f1[i] == f1b[i]
	}
	zz.Assert(same, "C15.P3.same-text-same-tree")
	tc, ec := ParseSrc(s1 + "\n" + s2)
	zz.Assert(ec == nil, "C15.P4b.concatenation-parses")
	if ec != nil {
		return
	}
	lines := 1
	for i := 0; i < len(s1); i++ {
		if s1[i] == '\n' {
			lines++
		}
	}
	// statement lists concatenate
	l1, l2, lc := zzTopLevel(t1), zzTopLevel(t2), zzTopLevel(tc)
	zz.Assert(len(lc) == len(l1)+len(l2), "C15.P4b.statement-lists-concatenate")
	if len(lc) != len(l1)+len(l2) {
		return
	}
	for i, st := range lc {
		var ref []zzNodeRec
		shift := 0
		if i < len(l1) {
			ref = zzFlatten(l1[i])
		} else {
			ref = zzFlatten(l2[i-len(l1)])
			shift = lines
		}
		got := zzFlatten(st)
		ok := len(got) == len(ref)
		for k := 0; ok && k < len(got); k++ {
			r := ref[k]
			if r.line != 0 || r.col != 0 {
				// nodes whose position the grammar never sets stay unset
				r.line += shift
			}
			ok = got[k] == r
		}
		zz.Assert(ok, "C15.P4b.same-subtrees-with-shifted-positions")
	}
}

// zzComposeSym: composition with one symbolic side of n ASCII runes.  If the
// symbolic text parses on its own, its concatenation with a fixed text that
// parses parses too, the statement lists concatenate and every node of the
// second text keeps its position shifted by the first text's line count.
func zzComposeSym(n int, symFirst bool) { zzComposeSymStem(n, symFirst, "") }

// zzComposeSymStem: the symbolic text starts with a fixed stem, so that texts
// whose first token needs more runes than the symbolic bound are reached too:
// every keyword of the scanner's table (taken from the real opName map) and a
// few multi-rune operators, followed by n symbolic runes.
func zzComposeSymStem(n int, symFirst bool, stem string) {
	sym := stem + zz.SymString(n)
	fixed := []string{"b = [1]", "f(x)", "if a { b }", "a = 1"}[zz.Choose(4)]
	s1, s2 := sym, fixed
	if !symFirst {
		s1, s2 = fixed, sym
	}
	t1, e1 := ParseSrc(s1)
	t2, e2 := ParseSrc(s2)
	if e1 != nil || e2 != nil {
		return
	}
	tc, ec := ParseSrc(s1 + "\n" + s2)
	zz.Assert(ec == nil, "C15.P4b.sym/concatenation-parses")
	if ec != nil {
		return
	}
	lines := 1
	for i := 0; i < len(s1); i++ {
		lines += zz.Ite(s1[i] == '\n', 1, 0)
	}
	l1, l2, lc := zzTopLevel(t1), zzTopLevel(t2), zzTopLevel(tc)
	zz.Assert(len(lc) == len(l1)+len(l2), "C15.P4b.sym/statement-lists-concatenate")
	if len(lc) != len(l1)+len(l2) {
		return
	}
	for i, st := range lc {
		var ref []zzNodeRec
		shift := 0
		if i < len(l1) {
			ref = zzFlatten(l1[i])
		} else {
			ref = zzFlatten(l2[i-len(l1)])
			shift = lines
		}
		got := zzFlatten(st)
		zz.Assert(len(got) == len(ref), "C15.P4b.sym/same-subtree-shape")
		if len(got) != len(ref) {
			return
		}
		ok := true
		for k := range got {
			r := ref[k]
			if r.line != 0 || r.col != 0 {
				r.line += shift
			}
			ok = zz.And(ok, zz.And(got[k].kind == r.kind, zz.And(got[k].line == r.line, got[k].col == r.col)))
		}
		zz.Assert(ok, "C15.P4b.sym/same-subtrees-with-shifted-positions")
	}
}

// zzStems: the keywords (sorted, from the real table) and operator stems.
func zzStems() []string {
	var ks []string
	for k := range opName {
		ks = append(ks, k)
	}
	for i := 1; i < len(ks); i++ {
		for j := i; j > 0 && ks[j] < ks[j-1]; j-- {
			ks[j], ks[j-1] = ks[j-1], ks[j]
		}
	}
	return append(ks, "x.", "x[", "x(", "\"s\"", "1.", "0x", "<-", "x ?", "# ", "// ", "/*", "x = ", "x,", "}", "{", "x +")
}

// ZZ_C15_P4b_compose_stem_*: stem + <= n symbolic runes as the second / first text.
func ZZ_C15_P4b_compose_stem_second_n1() {
	st := zzStems()
	zzComposeSymStem(1, false, st[zz.Choose(len(st))])
}
func ZZ_C15_P4b_compose_stem_second_n2() {
	st := zzStems()
	zzComposeSymStem(2, false, st[zz.Choose(len(st))])
}
func ZZ_C15_P4b_compose_stem_first_n1() {
	st := zzStems()
	zzComposeSymStem(1, true, st[zz.Choose(len(st))])
}
func ZZ_C15_P4b_compose_stem_first_n2() {
	st := zzStems()
	zzComposeSymStem(2, true, st[zz.Choose(len(st))])
}

func ZZ_C15_P4b_compose_sym_first_n1()  { zzComposeSym(1, true) }
func ZZ_C15_P4b_compose_sym_first_n2()  { zzComposeSym(2, true) }
func ZZ_C15_P4b_compose_sym_first_n3()  { zzComposeSym(3, true) }
func ZZ_C15_P4b_compose_sym_second_n1() { zzComposeSym(1, false) }
func ZZ_C15_P4b_compose_sym_second_n2() { zzComposeSym(2, false) }
func ZZ_C15_P4b_compose_sym_second_n3() { zzComposeSym(3, false) }
