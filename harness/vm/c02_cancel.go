package vm

// C02: cancelling the context always stops a running script.  Time becomes
// logical: the harness context reports done from its c-th poll on (every call
// of Done() is a poll), and a canceller goroutine closes it when the
// interpreter blocks.  "Returns within a short bounded time" becomes: after
// the first poll that observes the cancellation no probe is logged any more
// and the call returns the error "execution interrupted".

import (
	"context"
	"time"

	"github.com/mattn/anko/env"
	zz "github.com/mattn/anko/zzverif"
)

type zzCtx struct {
	polls      int
	cancelAt   int
	ch         chan struct{}
	closed     bool
	observedAt int // probe-trace length when the cancellation was first observable
}

func zzNewCtx(cancelAt int) *zzCtx {
	return &zzCtx{cancelAt: cancelAt, ch: make(chan struct{}), observedAt: -1}
}

func (c *zzCtx) cancel() {
	if !c.closed {
		c.closed = true
		c.observedAt = zz.TraceLen()
		close(c.ch)
	}
}

func (c *zzCtx) Done() <-chan struct{} {
	if c.polls >= c.cancelAt {
		c.cancel()
	}
	c.polls++
	return c.ch
}

func (c *zzCtx) Err() error {
	if c.closed {
		return ErrInterrupt
	}
	return nil
}
func (c *zzCtx) Deadline() (time.Time, bool)       { return time.Time{}, false }
func (c *zzCtx) Value(key interface{}) interface{} { return nil }

// spinning / blocking cores.  p(1) is logged on every round.
var zzCancelCores = []struct{ name, src string }{
	{"loop", "for { p(1) }"},
	{"loop-cond", "for true { p(1) }"},
	{"c-for", "for i = 0; true; i++ { p(1) }"},
	{"for-in-slice", "for x in [1, 2, 3, 4, 5, 6, 7, 8] { p(1) }"},
	{"for-in-map", "for k, v in {\"a\": 1, \"b\": 2, \"c\": 3, \"d\": 4, \"e\": 5, \"f\": 6} { p(1) }"},
	{"for-in-chan", "for x in ch { p(1) }"},
	{"chan-receive", "p(1); <-ch"},
	{"chan-receive-stmt", "p(1); v, ok = <-ch"},
	{"chan-send", "p(1); ch <- 1"},
	{"recursion", "func r() { p(1); r() }; r()"},
	{"call-0", "f0 = func() { for { p(1) } }; f0()"},
	{"call-2", "f2 = func(a, b) { for { p(1) } }; f2(1, 2)"},
	{"call-4", "f4 = func(a, b, c, d) { for { p(1) } }; f4(1, 2, 3, 4)"},
	{"call-5-reflect-path", "f5 = func(a, b, c, d, e) { for { p(1) } }; f5(1, 2, 3, 4, 5)"},
	{"call-variadic", "fv = func(a...) { for { p(1) } }; fv(1, 2)"},
	{"call-spread", "f2 = func(a, b) { for { p(1) } }; f2([1, 2]...)"},
	{"call-anonymous", "func() { for { p(1) } }()"},
	{"call-from-container", "fs = [func() { for { p(1) } }]; fs[0]()"},
	{"defer-body", "func() { defer func() { for { p(1) } }(); p(1) }()"},
	{"callback-from-go", "callback(func() { for { p(1) } })"},
}

// wrappers around the core; p(99) must never run once the cancellation was observed
var zzCancelWrappers = []struct{ name, pre, post string }{
	{"none", "", ""},
	{"try-catch", "try { ", " } catch e { p(98) }"},
	{"try-catch-finally", "try { ", " } catch e { p(98) } finally { p(97) }"},
	{"try-empty-catch", "try { ", " } catch e { }"},
	{"try-call-empty-catch", "try { func() { ", " }() } catch e { }"},
	{"try-call-empty-catch-empty-finally", "try { func() { ", " }() } catch e { } finally { }"},
	{"if-call-in-condition", "if (func() { ", " }()) { }"},
	{"nil-coalesce-left", "x = (func() { ", " }()) ?? 1"},
	{"nil-coalesce-in-list", "x = [(func() { ", " }()) ?? 1, p(99)]"},
	{"nil-coalesce-in-call", "p((func() { ", " }()) ?? 99)"},
	{"nil-coalesce-nested", "x = ((func() { ", " }()) ?? nil) ?? p(99)"},
	{"if-body", "if true { ", " }"},
	{"switch-body", "switch 1 { case 1: ", " }"},
	{"module", "module m { ", " }"},
	{"function", "func() { ", " }()"},
	{"catch-block", "try { throw 1 } catch e { ", " }"},
	{"finally-block", "try { } catch e { } finally { ", " }"},
	{"deferred", "func() { defer func() { ", " }() }()"},
	{"nested-try", "try { try { ", " } catch e1 { p(96) } } catch e2 { p(95) }"},
	// the core runs while a statement stores its results: inside the index of an assignment target
	{"ok-target-of-receive-statement", "zzc = make(chan int64, 1); zzc <- 7; zzm = {}; zzv, zzm[func() { ", " }()] = <-zzc"},
	{"value-target-of-receive-statement", "zzc = make(chan int64, 1); zzc <- 7; zzm = {}; zzm[func() { ", " }()] = <-zzc"},
	{"assignment-target-index", "zzm = {}; zzm[func() { ", " }()] = 1"},
	{"multi-assignment-target-index", "zzm = {}; zzx, zzm[func() { ", " }()] = 1, 2"},
	{"map-item-form-target-index", "zzm = {}; zzx, zzm[func() { ", " }()] = zzm[1]"},
	{"op-assignment-target-index", "zzm = {0: 1}; zzm[func() { ", "; return 0 }()] += 1"},
	{"delete-key", "zzm = {}; delete(zzm, func() { ", " }())"},
	{"switch-case-expression", "switch 1 { case func() { ", " }(): p(99) }"},
	{"for-in-collection", "for zzx in func() { ", "; return [1] }() { p(99) }"},
	{"c-for-post", "zzn = 0; for zzi = 0; zzn < 1; func() { ", " }() { zzn = 1 }"},
	{"send-value", "zzc = make(chan int64, 1); zzc <- func() { ", "; return 1 }()"},
	{"throw-value", "throw func() { ", "; return 1 }()"},
	{"map-literal-value", "zzm = {\"k\": func() { ", " }()}"},
	{"make-length", "make([]int64, func() { ", "; return 1 }())"},
	{"member-of-call", "zzm = {}; zzm.k = func() { ", " }()"},
}

func zzCancelRun(core, wrapper, cancelAt int, blocking bool) {
	// the interrupted construct is followed by another statement, or is the last one
	trailing := zz.Choose(2) == 0
	c := zzCancelCores[core]
	w := zzCancelWrappers[wrapper]
	ctx := zzNewCtx(cancelAt)
	e := env.NewEnv()
	e.Define("p", func(i int64) int64 { zz.Probe(int(i)); return i })
	e.Define("ch", make(chan interface{}))
	e.Define("callback", func(f func()) { f() })
	if blocking {
		// the cancellation arrives while the interpreter is blocked
		go ctx.cancel()
	}
	zz.ResetTrace()
	zz.Budget(3000000)
	id := c.name + "/" + w.name
	src := w.pre + c.src + w.post
	if trailing {
		src += "\np(99)"
	} else {
		id += "/last-statement"
	}
	zz.UnwindIsViolation("terminates.C02/" + id)
	zz.DeadlockIsViolation("terminates.C02/" + id)
	_, err := ExecuteContext(ctx, e, &Options{Debug: false}, src)
	zz.Assert(ctx.closed, "C02.cancellation-was-delivered/"+id)
	zz.Assert(err != nil && err.Error() == ErrInterrupt.Error(), "C02.returns-execution-interrupted/"+id)
	if ctx.observedAt >= 0 {
		tr := zz.Trace()
		// nothing is logged after the first poll that observed the cancellation
		// (natively the canceller goroutine may fire before the first probe)
		if zz.Symbolic() {
			zz.Assert(len(tr) == ctx.observedAt, "C02.no-side-effect-after-cancellation/"+id)
		}
		for _, t := range tr {
			zz.Assert(t != 99, "C02.no-statement-after-the-interrupted-one/"+id)
		}
	}
}

func zzIsBlockingCore(core int) bool {
	switch zzCancelCores[core].name {
	case "for-in-chan", "chan-receive", "chan-receive-stmt", "chan-send":
		return true
	}
	return false
}

// ZZ_C02_cores: every spinning / blocking core, cancellation at poll 0..4.
func ZZ_C02_cores() {
	core := zz.Choose(len(zzCancelCores))
	if zzIsBlockingCore(core) {
		zzCancelRun(core, 0, 1000000, true)
		return
	}
	zzCancelRun(core, 0, zz.Choose(5), false)
}

// ZZ_C02_wrapped: no construct swallows the interruption.
func ZZ_C02_wrapped() {
	core := zz.Choose(len(zzCancelCores))
	wrapper := 1 + zz.Choose(len(zzCancelWrappers)-1)
	if zzIsBlockingCore(core) {
		zzCancelRun(core, wrapper, 1000000, true)
		return
	}
	zzCancelRun(core, wrapper, 2+zz.Choose(6), false)
}

// ZZ_C02_poll_on_entry: a context that is already cancelled stops the run
// before anything is executed.
func ZZ_C02_poll_on_entry() {
	core := zz.Choose(len(zzCancelCores))
	ctx := zzNewCtx(0)
	e := env.NewEnv()
	e.Define("p", func(i int64) int64 { zz.Probe(int(i)); return i })
	e.Define("ch", make(chan interface{}))
	e.Define("callback", func(f func()) { f() })
	zz.ResetTrace()
	_, err := ExecuteContext(ctx, e, nil, zzCancelCores[core].src)
	zz.Assert(err != nil && err.Error() == ErrInterrupt.Error(), "C02.entry/returns-execution-interrupted")
	zz.Assert(zz.TraceLen() == 0, "C02.entry/nothing-executed")
}

// ZZ_C02_library_functions: the cancellation that counts is the one of the run
// that *calls*: script functions defined by an earlier run on the same
// environment (a prelude executed under another context) and called by a run
// whose context is then cancelled stop like any other code - whatever their
// arity (the call paths differ at 0-4 / 5+ parameters and for variadic
// functions), called plainly, through go, under try, as a deferred call.
func ZZ_C02_library_functions() {
	params := []string{"", "a", "a, b, c, d", "a, b, c, d, g", "a...", "a, b..."}
	args := []string{"", "1", "1, 2, 3, 4", "1, 2, 3, 4, 5", "1, 2", "1, 2, 3"}
	pi := zz.Choose(len(params))
	bodies := []struct{ name, src string }{
		{"loop", "for { p(1) }"},
		{"c-for", "for i = 0; true; i++ { p(1) }"},
		{"recursion", "func zzr() { p(1); zzr() }; zzr()"},
		{"chan-receive", "p(1); <-ch"},
		{"for-in-chan", "p(1); for x in ch { }"},
	}
	bi := zz.Choose(len(bodies))
	blocking := bi >= 3
	calls := []struct{ name, pre, post string }{
		{"plain", "", ""},
		{"in-try", "try { ", " } catch e { p(98) }"},
		{"left-of-??", "x = (", ") ?? p(98)"},
		{"deferred", "func() { defer ", " }()"},
		{"in-list", "x = [", ", p(98)]"},
	}
	ci := zz.Choose(len(calls))
	e := env.NewEnv()
	e.Define("p", func(i int64) int64 { zz.Probe(int(i)); return i })
	e.Define("ch", make(chan interface{}))
	// the prelude runs to completion under a context of its own
	_, perr := ExecuteContext(zzNewCtx(1000000), e, &Options{Debug: false}, "lib = func("+params[pi]+") { "+bodies[bi].src+" }")
	zz.Assert(perr == nil, "C02.library/prelude-runs")
	cancelAt := 1000000
	if !blocking {
		cancelAt = 3 + zz.Choose(4)
	}
	ctx := zzNewCtx(cancelAt)
	if blocking {
		go ctx.cancel()
	}
	id := bodies[bi].name + "/" + []string{"0", "1", "4", "5-reflect-path", "variadic", "fixed-then-variadic"}[pi] + "/" + calls[ci].name
	zz.ResetTrace()
	zz.Budget(3000000)
	zz.UnwindIsViolation("terminates.C02.library/" + id)
	zz.DeadlockIsViolation("terminates.C02.library/" + id)
	_, err := ExecuteContext(ctx, e, &Options{Debug: false}, calls[ci].pre+"lib("+args[pi]+")"+calls[ci].post+"\np(99)")
	zz.Assert(ctx.closed, "C02.cancellation-was-delivered/library/"+id)
	zz.Assert(err != nil && err.Error() == ErrInterrupt.Error(), "C02.returns-execution-interrupted/library/"+id)
	for _, t := range zz.Trace() {
		zz.Assert(t != 99 && t != 98, "C02.no-statement-after-the-interrupted-one/library/"+id)
	}
}

// ZZ_C02_host_calls_after_cancellation: the cancellation arrives while one host
// call is running (the one call whose duration the property excludes: here the
// host function zzcancel cancels the context itself).  No *further* host call
// of the same expression starts - a list of forty slow host calls does not run
// to its end - no statement after it runs, and the run reports the interruption.
func ZZ_C02_host_calls_after_cancellation() {
	forms := []struct{ name, src string }{
		{"list-literal", "x = [p(1), zzcancel(), p(2), p(3)]"},
		{"call-arguments", "q(p(1), zzcancel(), p(2), p(3))"},
		{"operator-chain", "x = p(1) + zzcancel() + p(2) + p(3)"},
		{"map-literal", "x = {\"a\": p(1), \"b\": zzcancel(), \"c\": p(2)}"},
		{"multi-assignment", "a, b, c = zzcancel(), p(2), p(3)"},
		{"nested-calls", "p(p(zzcancel()))"},
		{"return-list", "func() { return zzcancel(), p(2), p(3) }()"},
		{"script-function-arguments", "f = func(a, b, c) { return a }; f(zzcancel(), p(2), p(3))"},
		{"variadic-go-arguments", "qv(zzcancel(), p(2), p(3))"},
		{"index-operands", "l = [1, 2, 3]; l[zzcancel()] + l[p(1)]"},
		{"condition", "if zzcancel() == 0 && p(2) == 2 { p(3) }"},
		{"method-of-host-value", "x = [zzcancel(), rec.Get()]"},
	}
	f := forms[zz.Choose(len(forms))]
	trailing := zz.Choose(2) == 0
	ctx := zzNewCtx(1000000)
	e := env.NewEnv()
	e.Define("p", func(i int64) int64 { zz.Probe(int(i)); return i })
	e.Define("q", func(a, b, c, d int64) int64 { zz.Probe(50); return a })
	e.Define("qv", func(a ...int64) int64 { zz.Probe(51); return 0 })
	e.Define("zzcancel", func() int64 { ctx.cancel(); return 0 })
	e.Define("rec", &zzProbeRec{})
	src := f.src
	id := f.name
	if trailing {
		src += "\np(99)"
	} else {
		id += "/last-statement"
	}
	zz.ResetTrace()
	zz.Budget(3000000)
	_, err := ExecuteContext(ctx, e, &Options{Debug: false}, src)
	zz.Assertf(ctx.closed, "C02.cancellation-was-delivered/host-calls/"+id, src)
	zz.Assertf(err != nil && err.Error() == ErrInterrupt.Error(), "C02.returns-execution-interrupted/host-calls/"+id, src)
	if ctx.observedAt >= 0 {
		zz.Assertf(zz.TraceLen() == ctx.observedAt, "C02.no-host-call-starts-after-cancellation/"+id, src)
	}
}

type zzProbeRec struct{}

func (*zzProbeRec) Get() int64 { zz.Probe(60); return 0 }

// ZZ_C02_racing_senders: several senders on one buffered channel and no
// receiver; whichever of them finds the buffer full blocks - the cancellation
// must end every one of them, under every interleaving of the senders at
// channel-operation granularity (a send that checks for room and then sends in
// two steps blocks outside any wait on the context when another sender takes
// the slot in between).  The main script is one of the senders: if it cannot
// be interrupted, ExecuteContext never returns (engine: deadlock; native
// replay: the stress variant below times out).
func ZZ_C02_racing_senders() { zzRacingSenders(1) }

// (thorough: three senders)
func ZZ_C02_racing_senders_3() { zzRacingSenders(2) }

func zzRacingSenders(others int) {
	capacity := []string{"1", "2"}[zz.Choose(2)]
	src := "ch = make(chan int64, " + capacity + ")\n"
	for i := 0; i < others; i++ {
		src += "go func() { for { ch <- 1 } }()\n"
	}
	src += "for { ch <- 2 }"
	ctx := zzNewCtx(1000000)
	e := env.NewEnv()
	id := "cap" + capacity + "/" + []string{"", "2-senders", "3-senders"}[others]
	if !zz.Symbolic() {
		// native: real goroutines race; cancel after a moment, many rounds
		for round := 0; round < 200; round++ {
			rctx, cancel := context.WithTimeout(context.Background(), 2*time.Millisecond)
			done := make(chan error, 1)
			go func() {
				_, err := ExecuteContext(rctx, env.NewEnv(), &Options{Debug: false}, "ch = make(chan int64, 1)\n"+
					"go func() { for { ch <- 1 } }()\ngo func() { for { ch <- 1 } }()\ngo func() { for { ch <- 1 } }()\nfor { ch <- 2 }")
				done <- err
			}()
			select {
			case <-done:
			case <-time.After(3 * time.Second):
				zz.Assert(false, "terminates.C02.racing-senders/"+id)
				cancel()
				return
			}
			cancel()
		}
		return
	}
	go ctx.cancel()
	zz.Budget(3000000)
	zz.UnwindIsViolation("terminates.C02.racing-senders/" + id)
	zz.DeadlockIsViolation("terminates.C02.racing-senders/" + id)
	zz.MaxDecisions(4000)
	zz.SchedChannelsOnly(true)
	zz.SchedExplore(true, 3)
	_, err := ExecuteContext(ctx, e, &Options{Debug: false}, src)
	zz.SchedExplore(false, 0)
	zz.Assert(err != nil && err.Error() == ErrInterrupt.Error(), "C02.returns-execution-interrupted/racing-senders/"+id)
}
