package vm

// C07: operands are evaluated exactly once, left to right; skipped operands
// never run.  Every operand is a probe call p(i) that logs i; operand j may be
// made to fail (it logs, then raises).

import (
	"reflect"

	"github.com/mattn/anko/ast"
	"github.com/mattn/anko/env"
	zz "github.com/mattn/anko/zzverif"
)

// zzOrderEnv: p(i) logs i and returns i; ps(i) logs and returns a slice (for
// spreading); pbad(i) logs and fails; pnil(i) logs and returns nil;
// pt/pf log and return true/false.
func zzOrderEnv() *env.Env {
	e := env.NewEnv()
	e.Define("p", func(i int64) int64 { zz.Probe(int(i)); return i })
	e.Define("ps", func(i int64) []interface{} { zz.Probe(int(i)); return []interface{}{int64(100), int64(101)} })
	e.Define("pbad", func(i int64) int64 { zz.Probe(int(i)); panic("operand fails") })
	e.Define("pnil", func(i int64) interface{} { zz.Probe(int(i)); return nil })
	e.Define("pt", func(i int64) bool { zz.Probe(int(i)); return true })
	e.Define("pf", func(i int64) bool { zz.Probe(int(i)); return false })
	e.Define("pstr", func(i int64) string { zz.Probe(int(i)); return "notanumber" })
	// callees
	e.Define("go0", func() int64 { return 0 })
	e.Define("go1", func(a int64) int64 { return a })
	e.Define("go2", func(a, b int64) int64 { return a + b })
	e.Define("go3", func(a, b, c int64) int64 { return a + b + c })
	e.Define("gov", func(a int64, rest ...int64) int64 { return a + int64(len(rest)) })
	e.Define("goi", func(xs ...interface{}) int64 { return int64(len(xs)) })
	for n := 0; n <= 6; n++ {
		e.DefineValue([]string{"s0", "s1", "s2", "s3", "s4", "s5", "s6"}[n], zzScriptFunc(n, false))
	}
	e.DefineValue("sv1", zzScriptFunc(1, true))
	e.DefineValue("sv2", zzScriptFunc(2, true))
	return e
}

// zzOperands builds n operands p(0..n-1); operand j (if 0<=j<n) fails.
func zzOperands(n, j int) []ast.Expr { return zzOperandsKind(n, j, "pbad") }

// zzOperandsKind: the failing operand is a call of bad (pbad raises; pstr
// yields a string no int64 parameter accepts, so its conversion fails).
func zzOperandsKind(n, j int, bad string) []ast.Expr {
	out := make([]ast.Expr, n)
	for i := range out {
		name := "p"
		if i == j {
			name = bad
		}
		out[i] = zzProbeCall(name, i)
	}
	return out
}

// zzCheckTrace: no tag twice, tags increasing; on success complete 0..n-1,
// when operand j failed exactly 0..j.
func zzCheckTrace(id string, n, j int, failed bool, strict bool) {
	tr := zz.Trace()
	inc := true
	for i := 1; i < len(tr); i++ {
		if tr[i] <= tr[i-1] {
			inc = false
		}
	}
	zz.Assert(inc, "C07.once-and-in-order/"+id)
	if !strict {
		// a call whose argument count does not fit is rejected before or while
		// its operands are evaluated; one that is accepted all the same has no
		// licence to leave operands out
		if !failed {
			zz.Assert(len(tr) == n, "C07.accepted-call-evaluates-every-operand/"+id)
		}
		return
	}
	if j >= 0 && j < n {
		zz.Assert(failed, "C07.failing-operand-fails-evaluation/"+id)
		zz.Assert(len(tr) == j+1, "C07.evaluation-stops-at-failing-operand/"+id)
	} else if !failed {
		zz.Assert(len(tr) == n, "C07.all-operands-evaluated/"+id)
	}
}

var zzCallees = []string{"go0", "go1", "go2", "go3", "gov", "goi", "s0", "s1", "s2", "s3", "s4", "s5", "s6", "sv1", "sv2"}
var zzCalleeArity = []int{0, 1, 2, 3, -1, -1, 0, 1, 2, 3, 4, 5, 6, -1, -2}

// ZZ_C07_calls: every call form.
func ZZ_C07_calls() {
	e := zzOrderEnv()
	ci := zz.Choose(len(zzCallees))
	callee := zzCallees[ci]
	n := zz.Choose(7) // 0..6 operands: the reflect path of script functions starts at 5 parameters
	j := zz.Choose(n+1) - 1
	spread := n > 0 && zz.Choose(2) == 1
	// for Go callees with int64 parameters the failure may also be the
	// conversion of the operand's value for the parameter
	bad := "pbad"
	if ci >= 1 && ci <= 4 && j >= 0 && zz.Choose(2) == 1 {
		bad = "pstr"
	}
	ops := zzOperandsKind(n, j, bad)
	if spread && j != n-1 {
		ops[n-1] = zzProbeCall("ps", n-1)
	}
	mode := zz.Choose(4)
	var st ast.Stmt
	switch mode {
	case 0:
		st = &ast.ExprStmt{Expr: &ast.CallExpr{Name: callee, SubExprs: ops, VarArg: spread}}
	case 1:
		st = &ast.ExprStmt{Expr: &ast.AnonCallExpr{Expr: zzIdent(callee), SubExprs: ops, VarArg: spread}}
	case 2:
		st = &ast.GoroutineStmt{Expr: &ast.CallExpr{Name: callee, SubExprs: ops, VarArg: spread, Go: true}}
	case 3:
		st = &ast.StmtsStmt{Stmts: []ast.Stmt{
			&ast.DeferStmt{Expr: &ast.CallExpr{Name: callee, SubExprs: ops, VarArg: spread}},
			&ast.ExprStmt{Expr: zzProbeCall("p", 50)}, // runs after the defer statement's operands, before the deferred call
		}}
	}
	zz.ResetTrace()
	_, err := Run(e, &Options{Debug: false}, st)
	zz.Drain()
	id := callee + "/" + []string{"direct", "anonymous", "go", "defer"}[mode]
	if bad == "pstr" {
		id += "/conversion-fails"
	}
	if spread {
		id += "/spread"
	}
	arity := zzCalleeArity[ci]
	// a call whose argument count fits is "strict": completeness is asserted
	fits := !spread && (arity == n || (arity == -1 && n >= 1 && callee != "goi") || callee == "goi" || (arity == -2 && n >= 2) || (callee == "sv1"))
	if mode == 3 {
		tr := zz.Trace()
		// the operands are evaluated at the defer statement: before probe 50
		seen50 := false
		ok := true
		for _, t := range tr {
			if t == 50 {
				seen50 = true
			} else if seen50 {
				ok = false
			}
		}
		zz.Assert(ok, "C07.defer-evaluates-operands-at-the-statement/"+id)
		// drop 50 for the ordering check
		zz.ResetTrace()
		for _, t := range tr {
			if t != 50 {
				zz.Probe(t)
			}
		}
	}
	zzCheckTrace(id, n, j, err != nil, fits)
}

// ZZ_C07_literals_and_operators: list/map literals, binary operators, index
// and slice expressions, return lists, multi-assignment and var right sides.
func ZZ_C07_literals_and_operators() {
	e := zzOrderEnv()
	form := zz.Choose(12)
	var n int
	switch form {
	case 0, 1, 8, 9, 10:
		n = zz.Choose(4)
	case 2:
		n = 2 * zz.Choose(3)
	case 3, 4, 5, 6:
		n = 2
	case 7:
		n = 2
	case 11:
		n = 2 + zz.Choose(3)
	}
	j := zz.Choose(n+1) - 1
	ops := zzOperands(n, j)
	var st ast.Stmt
	ex := func(x ast.Expr) ast.Stmt { return &ast.ExprStmt{Expr: x} }
	name := ""
	switch form {
	case 0:
		name = "array-literal"
		st = ex(&ast.ArrayExpr{Exprs: ops})
	case 1:
		name = "typed-array-literal"
		st = ex(&ast.ArrayExpr{Exprs: ops, TypeData: &ast.TypeStruct{Kind: ast.TypeSlice, SubType: &ast.TypeStruct{Name: "int64"}, Dimensions: 1}})
	case 2:
		name = "map-literal"
		m := &ast.MapExpr{}
		for i := 0; i < n; i += 2 {
			m.Keys = append(m.Keys, ops[i])
			m.Values = append(m.Values, ops[i+1])
		}
		st = ex(m)
	case 3:
		name = "add-operator"
		st = ex(zzBinOp([]string{"+", "-", "|"}[zz.Choose(3)], ops[0], ops[1]))
	case 4:
		name = "multiply-operator"
		st = ex(zzBinOp([]string{"*", "/", "%", "<<", ">>", "&"}[zz.Choose(6)], ops[0], ops[1]))
	case 5:
		name = "comparison-operator"
		st = ex(zzBinOp([]string{"==", "!=", "<", "<=", ">", ">="}[zz.Choose(6)], ops[0], ops[1]))
	case 6:
		name = "index"
		e.Define("lst", []interface{}{int64(0), int64(1), int64(2)})
		// item is operand 0 (returns 0: not indexable -> the index is still evaluated once); use ps for a list
		if j != 0 {
			ops[0] = zzProbeCall("ps", 0)
		}
		st = ex(&ast.ItemExpr{Item: ops[0], Index: ops[1]})
	case 7:
		name = "in"
		if j != 1 {
			ops[1] = zzProbeCall("ps", 1)
		}
		st = ex(&ast.IncludeExpr{ItemExpr: ops[0], ListExpr: ops[1]})
	case 8:
		name = "return-list"
		fn := &ast.FuncExpr{Stmt: &ast.StmtsStmt{Stmts: []ast.Stmt{&ast.ReturnStmt{Exprs: ops}}}}
		st = ex(&ast.AnonCallExpr{Expr: fn})
	case 9:
		name = "multi-assignment"
		var lhs []ast.Expr
		for i := 0; i < n; i++ {
			lhs = append(lhs, zzIdent([]string{"va", "vb", "vc"}[i]))
		}
		if n == 0 {
			lhs = []ast.Expr{zzIdent("va")}
			ops = []ast.Expr{zzLit(int64(0))}
		}
		st = &ast.LetsStmt{LHSS: lhs, RHSS: ops}
	case 10:
		name = "var"
		names := []string{"va", "vb", "vc"}[:n]
		if n == 0 {
			names = []string{"va"}
			ops = []ast.Expr{zzLit(int64(0))}
		}
		st = &ast.VarStmt{Names: names, Exprs: ops}
	case 11:
		name = "slice-expr"
		if j != 0 {
			ops[0] = zzProbeCall("ps", 0)
		}
		sl := &ast.SliceExpr{Item: ops[0], Begin: ops[1]}
		if n > 2 {
			sl.End = ops[2]
		}
		if n > 3 {
			sl.Cap = ops[3]
		}
		st = ex(sl)
	}
	zz.ResetTrace()
	_, err := Run(e, &Options{Debug: false}, st)
	// value-dependent failures (index out of range, bad bounds) are not
	// operand failures: completeness is asserted only when nothing failed
	strict := form <= 5 || form == 8 || form == 9 || form == 10
	if !strict {
		tr := zz.Trace()
		if j >= 0 && j < n {
			zz.Assert(len(tr) == j+1, "C07.evaluation-stops-at-failing-operand/"+name)
		} else if err == nil {
			zz.Assert(len(tr) == n, "C07.all-operands-evaluated/"+name)
		}
	}
	zzCheckTrace(name, n, j, err != nil, strict)
}

// ZZ_C07_short_circuit: && || ?: ?? evaluate only the operands the result
// depends on.
func ZZ_C07_short_circuit() {
	e := zzOrderEnv()
	form := zz.Choose(4)
	left := []string{"pt", "pf", "pnil", "pbad", "p"}[zz.Choose(5)]
	l := zzProbeCall(left, 0)
	var x ast.Expr
	var wantRight, wantThird bool
	switch form {
	case 0: // l && r
		x = zzBinOp("&&", l, zzProbeCall("pt", 1))
		wantRight = left == "pt" || left == "p" && false
		if left == "p" { // p(0) returns 0: falsy
			wantRight = false
		}
	case 1: // l || r
		x = zzBinOp("||", l, zzProbeCall("pt", 1))
		wantRight = left == "pf" || left == "pnil" || left == "p"
	case 2: // l ? a : b
		x = &ast.TernaryOpExpr{Expr: l, LHS: zzProbeCall("p", 1), RHS: zzProbeCall("p", 2)}
		wantRight = left == "pt"
		wantThird = left == "pf" || left == "pnil" || left == "p"
	case 3: // l ?? r : the right side only when the left is nil or fails
		x = &ast.NilCoalescingOpExpr{LHS: l, RHS: zzProbeCall("p", 1)}
		wantRight = left == "pnil" || left == "pbad"
	}
	if left == "pbad" && form != 3 {
		wantRight, wantThird = false, false
	}
	zz.ResetTrace()
	_, _ = Run(e, &Options{Debug: false}, &ast.ExprStmt{Expr: x})
	tr := zz.Trace()
	id := []string{"&&", "||", "?:", "??"}[form] + "/" + left
	c0, c1, c2 := 0, 0, 0
	for _, t := range tr {
		switch t {
		case 0:
			c0++
		case 1:
			c1++
		case 2:
			c2++
		}
	}
	zz.Assert(c0 == 1, "C07.short-circuit/left-once/"+id)
	want1 := 0
	if wantRight {
		want1 = 1
	}
	want2 := 0
	if wantThird {
		want2 = 1
	}
	zz.Assert(c1 == want1, "C07.short-circuit/right-only-when-needed/"+id)
	zz.Assert(c2 == want2, "C07.short-circuit/third-only-when-needed/"+id)
	_ = reflect.ValueOf
}

// zzOrderObj: a Go value whose methods are reached with member syntax.
type zzOrderObj struct{ N int64 }

func (o *zzOrderObj) M2(a, b int64) int64           { return a + b + o.N }
func (o zzOrderObj) V2(a, b int64) int64            { return a - b }
func (o *zzOrderObj) MV(a int64, rest ...int64) int { return len(rest) }

// ZZ_C07_member_calls: calls whose callee is itself an expression - a method
// of a Go value, a function of a module, an element of a container, a
// function literal - directly, through go and through defer.
func ZZ_C07_member_calls() {
	e := zzOrderEnv()
	e.Define("obj", &zzOrderObj{N: 1})
	e.Define("val", zzOrderObj{N: 2})
	mod, _ := e.NewModule("mod")
	mod.DefineValue("s2", zzScriptFunc(2, false))
	mod.DefineValue("sv1", zzScriptFunc(1, true))
	e.Define("fs", []interface{}{zzScriptFunc(2, false).Interface(), func(a, b int64) int64 { return a * b }})
	callees := []struct {
		name  string
		expr  ast.Expr
		arity int // -1: at least one
	}{
		{"obj.M2", &ast.MemberExpr{Expr: zzIdent("obj"), Name: "M2"}, 2},
		{"val.V2", &ast.MemberExpr{Expr: zzIdent("val"), Name: "V2"}, 2},
		{"obj.MV", &ast.MemberExpr{Expr: zzIdent("obj"), Name: "MV"}, -1},
		{"mod.s2", &ast.MemberExpr{Expr: zzIdent("mod"), Name: "s2"}, 2},
		{"mod.sv1", &ast.MemberExpr{Expr: zzIdent("mod"), Name: "sv1"}, -1},
		{"fs[0]", &ast.ItemExpr{Item: zzIdent("fs"), Index: zzLit(int64(0))}, 2},
		{"fs[1]", &ast.ItemExpr{Item: zzIdent("fs"), Index: zzLit(int64(1))}, 2},
		{"literal", &ast.FuncExpr{Params: []string{"a", "b"}, Stmt: &ast.ReturnStmt{Exprs: []ast.Expr{zzIdent("a")}}}, 2},
	}
	c := callees[zz.Choose(len(callees))]
	n := zz.Choose(4)
	j := zz.Choose(n+1) - 1
	bad := "pbad"
	if (c.name == "obj.M2" || c.name == "val.V2" || c.name == "obj.MV" || c.name == "fs[1]") && j >= 0 && zz.Choose(2) == 1 {
		bad = "pstr"
	}
	spread := n > 0 && zz.Choose(2) == 1
	ops := zzOperandsKind(n, j, bad)
	if spread && j != n-1 {
		ops[n-1] = zzProbeCall("ps", n-1)
	}
	mode := zz.Choose(3)
	var st ast.Stmt
	switch mode {
	case 0:
		st = &ast.ExprStmt{Expr: &ast.AnonCallExpr{Expr: c.expr, SubExprs: ops, VarArg: spread}}
	case 1:
		st = &ast.GoroutineStmt{Expr: &ast.AnonCallExpr{Expr: c.expr, SubExprs: ops, VarArg: spread, Go: true}}
	case 2:
		st = &ast.StmtsStmt{Stmts: []ast.Stmt{
			&ast.DeferStmt{Expr: &ast.AnonCallExpr{Expr: c.expr, SubExprs: ops, VarArg: spread}},
			&ast.ExprStmt{Expr: zzProbeCall("p", 50)},
		}}
	}
	zz.ResetTrace()
	_, err := Run(e, &Options{Debug: false}, st)
	zz.Drain()
	id := c.name + "/" + []string{"direct", "go", "defer"}[mode]
	if bad == "pstr" {
		id += "/conversion-fails"
	}
	if spread {
		id += "/spread"
	}
	if mode == 2 {
		tr := zz.Trace()
		seen50, ok := false, true
		for _, t := range tr {
			if t == 50 {
				seen50 = true
			} else if seen50 {
				ok = false
			}
		}
		zz.Assert(ok, "C07.defer-evaluates-operands-at-the-statement/"+id)
		zz.ResetTrace()
		for _, t := range tr {
			if t != 50 {
				zz.Probe(t)
			}
		}
	}
	fits := !spread && (c.arity == n || (c.arity == -1 && n >= 1))
	zzCheckTrace(id, n, j, err != nil, fits)
}

// ZZ_C07_assignment_targets: the index operands of an assignment target are
// operands of an index expression like any other: evaluated exactly once, the
// ones of one target left to right.  (The order between the right-hand side and
// the target's operands is not asserted.)
func ZZ_C07_assignment_targets() {
	e := zzOrderEnv()
	e.Define("lst", []interface{}{int64(0), int64(1), int64(2)})
	e.Define("nest", []interface{}{[]interface{}{int64(5)}, []interface{}{int64(6), int64(7)}})
	e.Define("m", map[interface{}]interface{}{"k": int64(1)})
	e.Define("mm", map[interface{}]interface{}{int64(0): map[interface{}]interface{}{}})
	e.Define("mnest", map[interface{}]interface{}{int64(0): []interface{}{int64(5)}})
	e.Define("ilst", []int64{0, 1, 2})
	e.Define("strs", []interface{}{"ab"})
	e.Define("nilmaps", map[string]map[string]int64{"k": nil})
	e.Define("inest", [][]int64{{5, 6}, {7}})
	e.Define("recs", []*zzRec{{A: 1}, {A: 2}})
	e.Define("gset", func(p *int64) { *p = 42 })
	e.Define("gset2", func(p *int64, v int64) { *p = v })
	e.Define("gseti", func(p *interface{}) { *p = int64(42) })
	e.Define("pk", func(tag int64) string { zz.Probe(int(tag)); return "k" })
	e.Define("i0", func(tag int64) int64 { zz.Probe(int(tag)); return 0 })
	e.Define("i1", func(tag int64) int64 { zz.Probe(int(tag)); return 1 })
	forms := []struct{ name, src string }{
		{"slice-element", "lst[i1(1)] = p(9)"},
		{"slice-append-at-len", "lst[p(3)] = p(9)"},
		{"nested-slice-element", "nest[i1(1)][i0(2)] = p(9)"},
		{"nested-slice-append-at-len", "nest[i0(1)][i1(2)] = p(9)"},
		{"map-entry", "m[p(1)] = p(9)"},
		{"nested-map-entry", "mm[i0(1)][p(2)] = p(9)"},
		{"slice-in-map-append-at-len", "mnest[i0(1)][i1(2)] = p(9)"},
		// two more stores that go back through the target's syntax (the string is rebuilt, the nil map is made)
		{"string-in-slice-element-store-back", "strs[i0(1)][i1(2)] = pk(9)"},
		{"nil-typed-map-member-store-back", "nilmaps[pk(1)].z = p(9)"},
		{"two-targets", "lst[i0(1)], lst[i1(2)] = p(8), p(9)"},
		{"member-of-element", "mm[i0(1)].x = p(9)"},
		{"let-map-item", "v, ok = m[p(1)]"},
		// operands inside an `&` argument of a Go function (the call writes pointees back to variables)
		{"addr-of-element-argument", "gset(&ilst[i1(1)])"},
		{"addr-of-nested-element-argument", "gset(&inest[i0(1)][i1(2)])"},
		{"addr-of-map-entry-argument", "gseti(&m[pk(1)])"},
		{"addr-of-variable-argument", "n = 1; gset(&n); gset2(&n, p(9))"},
		{"addr-of-member-of-element-argument", "gset(&recs[i1(1)].A)"},
	}
	f := forms[zz.Choose(len(forms))]
	zz.ResetTrace()
	_, err := Execute(e, &Options{Debug: false}, f.src)
	zz.Assertf(err == nil, "C07.assignment-target/no-error/"+f.name, f.src)
	// every tag at most once; the target tags (< 8) in increasing order
	tr := zz.Trace()
	seen := map[int]int{}
	last := 0
	inc := true
	for _, t := range tr {
		seen[t]++
		if t < 8 {
			if t <= last {
				inc = false
			}
			last = t
		}
	}
	once := true
	for _, n := range seen {
		if n != 1 {
			once = false
		}
	}
	zz.Assertf(once, "C07.assignment-target/index-operands-evaluated-once/"+f.name, f.src)
	zz.Assertf(inc, "C07.assignment-target/index-operands-left-to-right/"+f.name, f.src)
}

type zzPriv struct {
	Pub  int64
	priv int64
}

// ZZ_C07_callee_outcomes: the operands of a call are evaluated once and the
// callee's body runs once whatever the body then does: returns, fails with a
// run-time error, throws, or ends in a Go panic that the interpreter recovers
// (reading an unexported field of a host struct into a list panics inside
// reflect).  Script functions of 0..6 parameters and variadic ones, called by
// name, through a variable, inside a list, on the left of ??.
func ZZ_C07_callee_outcomes() {
	e := zzOrderEnv()
	e.Define("s", zzPriv{Pub: 1, priv: 3})
	np := zz.Choose(8) // 0..6 fixed parameters, 7: variadic
	bodies := []string{"return 7", "return 1 % 0", "throw \"t\"", "return [s.priv]", "return pbad(98)", "x = [s.priv]; return 1"}
	bi := zz.Choose(len(bodies))
	params := []string{"", "a", "a, b", "a, b, c", "a, b, c, d", "a, b, c, d, e", "a, b, c, d, e, g", "a..."}[np]
	n := np
	if np == 7 {
		n = 2
	}
	args := ""
	for i := 0; i < n; i++ {
		if i > 0 {
			args += ", "
		}
		args += "p(" + string(rune('0'+i)) + ")"
	}
	call := "f(" + args + ")"
	form := zz.Choose(4)
	src := "f = func(" + params + ") { p(99); " + bodies[bi] + " }\n" +
		[]string{"r = " + call, "r = [p(50), " + call + ", p(51)]", "r = " + call + " ?? p(60)", "func g() { return " + call + " }; r = g()"}[form]
	zz.ResetTrace()
	zz.Budget(400000)
	_, err := Execute(e, &Options{Debug: false}, src)
	fails := bi != 0
	id := []string{"returns", "runtime-error", "throws", "recovered-go-panic", "go-function-panics-inside", "recovered-go-panic-in-statement"}[bi] + "/" +
		[]string{"0", "1", "2", "3", "4", "5", "6", "variadic"}[np] + "/" + []string{"assignment", "in-list", "left-of-??", "in-function"}[form]
	var want []int
	if form == 1 {
		want = append(want, 50)
	}
	for i := 0; i < n; i++ {
		want = append(want, i)
	}
	want = append(want, 99)
	if bi == 4 {
		want = append(want, 98)
	}
	switch form {
	case 1:
		if !fails {
			want = append(want, 51)
		}
	case 2:
		if fails {
			want = append(want, 60)
		}
	}
	zz.Assertf((err != nil) == (fails && form != 2), "C07.callee-outcome/error-status/"+id, src)
	zz.Assertf(zzSameTrace(zz.Trace(), want), "C07.callee-outcome/operands-and-body-once/"+id, src)
}
