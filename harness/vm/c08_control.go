package vm

// C08 / C09: control flow.  Differential against a reference control-flow
// interpreter over abstract programs: the statement skeleton is concrete
// (enumerated by forking), every leaf is a probed statement with a chosen
// outcome and every condition is a probed call whose truth per evaluation is
// chosen.  Compared: the probe trace, the result value, the error status.

import (
	"errors"
	"reflect"

	"github.com/mattn/anko/ast"
	"github.com/mattn/anko/env"
	"github.com/mattn/anko/parser"
	zz "github.com/mattn/anko/zzverif"
)

const (
	nLeaf = iota
	nSeq
	nIf       // kids: then, [elseif-then], else   conds: tags
	nSwitch   // kids: case bodies..., default
	nLoopInf  // for { body }
	nLoopCond // for c { body }
	nCFor     // for i = 0; c; post { body }
	nForIn    // for x in slice { body }
	nTry      // kids: try, catch, [finally]
	nFunc     // function literal called at once; kids: body
	nModule
)

const (
	oNormal = iota
	oBreak
	oContinue
	oReturn
	oError
	oThrow
)

type zzNode struct {
	k        int
	out      int // leaf outcome
	tag      int
	kids     []*zzNode
	conds    []int    // probe tags of conditions
	truths   [][]bool // per condition: truth of successive evaluations (last repeats as false)
	nElems   int      // for-in
	subject  int      // switch: index of the matching case (len = none)
	hasElse  bool
	hasFin   bool
	catchVar bool
	defers   []int // nFunc: tags of deferred probe calls registered at body start
	deferErr int   // index of the deferred call that fails (-1 none)
	retKind  int   // oReturn leaf: 0 `return v`, 1 bare `return` (nil), 2 `return v, w` (a list)
	defPos   int   // switch with default: number of cases written before the default clause
	multi    bool  // switch: every case lists two expressions, the second one is the candidate
	shadow   bool  // leaf directly inside a block with a scope of its own: it also re-binds the condition probe there
}

type zzGen struct {
	next   int
	budget int
	c09    bool
	lite   bool // quick tier: fewer statement kinds, outcomes and iterations
	stray  bool // inside a function body that is not inside a loop of its own
	text   bool // the program is rendered as source text and goes through the parser
}

func (g *zzGen) tag() int { g.next++; return g.next }

func (g *zzGen) truthSeq() []bool {
	// number of leading true evaluations: 0..2 (lite: 1..2), then false
	n := zz.Choose(3)
	if g.lite {
		n = 1 + zz.Choose(2)
	}
	s := make([]bool, n+1)
	for i := 0; i < n; i++ {
		s[i] = true
	}
	return s
}

// gen builds a statement of the given depth.  inLoop says whether break /
// continue may appear (never outside a loop: the statement leaves that open).
func (g *zzGen) gen(depth int, inLoop bool) *zzNode {
	if depth == 0 || g.budget <= 0 {
		return g.leaf(inLoop)
	}
	g.budget--
	kinds := []int{nLeaf, nSeq, nIf, nSwitch, nLoopInf, nLoopCond, nCFor, nForIn, nTry, nFunc, nModule}
	if g.lite {
		kinds = []int{nIf, nSwitch, nLoopInf, nLoopCond, nCFor, nForIn, nTry, nFunc}
	}
	k := kinds[zz.Choose(len(kinds))]
	n := &zzNode{k: k, tag: g.tag(), deferErr: -1}
	switch k {
	case nLeaf:
		return g.leaf(inLoop)
	case nSeq:
		n.kids = []*zzNode{g.gen(depth-1, inLoop), g.gen(depth-1, inLoop)}
	case nIf:
		n.conds = []int{g.tag()}
		n.truths = [][]bool{{zz.Choose(2) == 1}}
		n.kids = []*zzNode{g.gen(depth-1, inLoop)}
		if zz.Choose(2) == 1 { // else-if
			n.conds = append(n.conds, g.tag())
			n.truths = append(n.truths, []bool{zz.Choose(2) == 1})
			n.kids = append(n.kids, g.leaf(inLoop))
		}
		n.hasElse = zz.Choose(2) == 1
		if n.hasElse {
			n.kids = append(n.kids, g.leaf(inLoop))
		}
	case nSwitch:
		ncases := 1 + zz.Choose(2)
		for i := 0; i < ncases; i++ {
			n.kids = append(n.kids, g.leaf(inLoop))
		}
		n.subject = zz.Choose(ncases + 1)
		n.hasElse = zz.Choose(2) == 1 // default
		if n.hasElse {
			n.kids = append(n.kids, g.gen(depth-1, inLoop))
			if g.text {
				n.defPos = zz.Choose(ncases + 1) // the default clause may stand before, between or after the cases
			} else {
				n.defPos = ncases
			}
		}
		n.multi = !g.lite && zz.Choose(2) == 1
	case nLoopInf:
		// the body ends in break / return / error so that it terminates
		n.kids = []*zzNode{{k: nSeq, kids: []*zzNode{g.gen(depth-1, true), g.leafOf([]int{oBreak, oReturn, oError})}}}
	case nLoopCond:
		n.conds = []int{g.tag()}
		n.truths = [][]bool{g.truthSeq()}
		n.kids = []*zzNode{g.gen(depth-1, true)}
	case nCFor:
		n.conds = []int{g.tag(), g.tag()} // condition, post
		n.truths = [][]bool{g.truthSeq()}
		n.kids = []*zzNode{g.gen(depth-1, true)}
	case nForIn:
		n.nElems = zz.Choose(3)
		n.kids = []*zzNode{g.gen(depth-1, true)}
	case nTry:
		n.catchVar = zz.Choose(2) == 1
		n.kids = []*zzNode{g.gen(depth-1, inLoop), g.leaf(inLoop)}
		if g.c09 && zz.Choose(2) == 1 {
			n.hasFin = true
			n.kids = append(n.kids, g.leafOf([]int{oNormal, oError}))
		}
	case nFunc:
		if g.c09 {
			nd := zz.Choose(3)
			for i := 0; i < nd; i++ {
				n.defers = append(n.defers, g.tag())
			}
			if nd > 0 && zz.Choose(2) == 1 {
				n.deferErr = zz.Choose(nd)
			}
		}
		// a stray break / continue in a function body has no enclosing loop in
		// that invocation: it must not reach a loop of the caller
		g.stray = true
		n.kids = []*zzNode{g.gen(depth-1, false)}
		g.stray = false
	case nModule:
		n.kids = []*zzNode{g.gen(depth-1, inLoop)}
	}
	if k == nIf || k == nSwitch || k == nTry {
		// the branch, case and try / catch blocks have a scope of their own: a
		// `var c = cshadow` there must be gone when the block is left, however it
		// is left; if the scope leaks, later conditions call the shadow and the
		// probe trace shows it
		for _, kid := range n.kids {
			if kid.k == nLeaf {
				kid.shadow = true
			}
		}
	}
	return n
}

func (g *zzGen) leaf(inLoop bool) *zzNode {
	outs := []int{oNormal, oReturn, oError, oThrow}
	if g.lite {
		outs = []int{oNormal, oReturn, oError}
	}
	if inLoop {
		outs = append(outs, oBreak, oContinue)
	} else if g.stray {
		outs = append(outs, oBreak)
	}
	return g.leafOf(outs)
}

func (g *zzGen) leafOf(outs []int) *zzNode {
	n := &zzNode{k: nLeaf, out: outs[zz.Choose(len(outs))], tag: g.tag(), deferErr: -1}
	if n.out == oReturn && !g.lite {
		n.retKind = zz.Choose(3) // (the lite generator keeps `return v`: the depth-1 programs cover the other forms)
	}
	return n
}

// ---------------------------------------------------------------- reference

type zzRefState struct {
	trace        []int
	steps        int
	evals        map[int]int // condition tag -> evaluations so far
	hung         bool
	result       int64 // value of the last return / expression (tag based)
	retKind      int   // shape of the last return executed
	hasRes       bool
	rootReturned bool
	throughTry   string // set when break/continue/return leaves a try body
	depth        int
}

func (st *zzRefState) probe(tag int) { st.trace = append(st.trace, tag) }

func (st *zzRefState) cond(n *zzNode, i int) bool {
	st.probe(n.conds[i])
	k := st.evals[n.conds[i]]
	st.evals[n.conds[i]] = k + 1
	seq := n.truths[i]
	if k >= len(seq) {
		return false
	}
	return seq[k]
}

// ref executes n and returns its outcome (oNormal, oBreak, oContinue,
// oReturn, oError).  Errors carry nothing; values are the leaf tags.
func (st *zzRefState) ref(n *zzNode) int {
	st.steps++
	if st.steps > 200 {
		st.hung = true
		return oError
	}
	switch n.k {
	case nLeaf:
		st.probe(n.tag)
		switch n.out {
		case oNormal:
			st.result, st.hasRes = int64(n.tag), true
			return oNormal
		case oReturn:
			st.result, st.hasRes, st.retKind = int64(1000+n.tag), true, n.retKind
			return oReturn
		case oThrow:
			return oError
		}
		return n.out
	case nSeq:
		for _, c := range n.kids {
			if o := st.ref(c); o != oNormal {
				return o
			}
		}
		return oNormal
	case nIf:
		for i := range n.conds {
			if st.cond(n, i) {
				return st.ref(n.kids[i])
			}
		}
		if n.hasElse {
			return st.ref(n.kids[len(n.kids)-1])
		}
		return oNormal
	case nSwitch:
		ncases := len(n.kids)
		if n.hasElse {
			ncases--
		}
		if n.subject < ncases {
			return st.ref(n.kids[n.subject])
		}
		if n.hasElse {
			return st.ref(n.kids[len(n.kids)-1])
		}
		return oNormal
	case nLoopInf, nLoopCond, nCFor, nForIn:
		iter := 0
		for {
			if st.hung {
				return oError
			}
			switch n.k {
			case nLoopCond, nCFor:
				if !st.cond(n, 0) {
					return oNormal
				}
			case nForIn:
				if iter >= n.nElems {
					return oNormal
				}
			}
			iter++
			o := st.ref(n.kids[0])
			switch o {
			case oBreak:
				return oNormal
			case oReturn, oError:
				return o
			}
			// normal or continue: a C-style loop still runs its post expression
			if n.k == nCFor {
				st.probe(n.conds[1])
			}
		}
	case nTry:
		o := st.ref(n.kids[0])
		if o == oError {
			o = st.ref(n.kids[1]) // catch runs iff the try body failed
			if o != oNormal {
				return o
			}
		} else if o != oNormal {
			st.throughTry = "/" + []string{"", "break", "continue", "return"}[o] + "-through-try"
			return o // control signals pass through
		}
		if n.hasFin {
			return st.ref(n.kids[2])
		}
		return oNormal
	case nFunc:
		st.depth++
		o := st.ref(n.kids[0])
		st.depth--
		if st.depth == 0 {
			st.rootReturned = o == oReturn
		}
		// deferred calls run exactly once, LIFO, on every exit
		for i := len(n.defers) - 1; i >= 0; i-- {
			st.probe(n.defers[i])
		}
		if o == oBreak || o == oContinue {
			return oError
		}
		switch o {
		case oReturn:
			if n.deferErr >= 0 {
				st.hasRes = false
				return oError // a deferred error surfaces iff the body did not fail
			}
			return oNormal // the call expression yields the value
		case oNormal:
			if n.deferErr >= 0 {
				st.hasRes = false
				return oError
			}
			return oNormal
		}
		return oError
	case nModule:
		return st.ref(n.kids[0])
	}
	return oNormal
}

// ---------------------------------------------------------------- real AST

func zzProbeCall(name string, tag int) ast.Expr {
	return &ast.CallExpr{Name: name, SubExprs: []ast.Expr{zzLit(int64(tag))}}
}

type zzBuilder struct {
	truth map[int][]bool
	evals map[int]int
}

func (b *zzBuilder) build(n *zzNode) ast.Stmt {
	switch n.k {
	case nLeaf:
		p := &ast.ExprStmt{Expr: zzProbeCall("p", n.tag)}
		var s ast.Stmt
		sh := &ast.VarStmt{Names: []string{"c"}, Exprs: []ast.Expr{zzIdent("cshadow")}}
		switch n.out {
		case oNormal:
			if n.shadow {
				return &ast.StmtsStmt{Stmts: []ast.Stmt{p, sh}}
			}
			return p
		case oBreak:
			s = &ast.BreakStmt{}
		case oContinue:
			s = &ast.ContinueStmt{}
		case oReturn:
			switch n.retKind {
			case 0:
				s = &ast.ReturnStmt{Exprs: []ast.Expr{zzLit(int64(1000 + n.tag))}}
			case 1:
				s = &ast.ReturnStmt{}
			case 2:
				s = &ast.ReturnStmt{Exprs: []ast.Expr{zzLit(int64(1000 + n.tag)), zzLit(int64(2000 + n.tag))}}
			}
		case oError:
			s = &ast.ExprStmt{Expr: zzBad()}
		case oThrow:
			s = &ast.ThrowStmt{Expr: zzLit("thrown")}
		}
		if n.shadow {
			return &ast.StmtsStmt{Stmts: []ast.Stmt{&ast.ExprStmt{Expr: zzProbeCall("q", n.tag)}, sh, s}}
		}
		return &ast.StmtsStmt{Stmts: []ast.Stmt{&ast.ExprStmt{Expr: zzProbeCall("q", n.tag)}, s}}
	case nSeq:
		var ss []ast.Stmt
		for _, c := range n.kids {
			s := b.build(c)
			// statement lists are flat in parsed programs
			if inner, ok := s.(*ast.StmtsStmt); ok {
				ss = append(ss, inner.Stmts...)
			} else {
				ss = append(ss, s)
			}
		}
		return &ast.StmtsStmt{Stmts: ss}
	case nIf:
		b.truth[n.conds[0]] = n.truths[0]
		st := &ast.IfStmt{If: zzProbeCall("c", n.conds[0]), Then: b.block(n.kids[0])}
		if len(n.conds) > 1 {
			b.truth[n.conds[1]] = n.truths[1]
			st.ElseIf = []ast.Stmt{&ast.IfStmt{If: zzProbeCall("c", n.conds[1]), Then: b.block(n.kids[1])}}
		}
		if n.hasElse {
			st.Else = b.block(n.kids[len(n.kids)-1])
		}
		return st
	case nSwitch:
		ncases := len(n.kids)
		if n.hasElse {
			ncases--
		}
		st := &ast.SwitchStmt{Expr: zzLit(int64(n.subject))}
		for i := 0; i < ncases; i++ {
			exprs := []ast.Expr{zzLit(int64(i))}
			if n.multi {
				exprs = []ast.Expr{zzLit(int64(100 + i)), zzLit(int64(i))}
			}
			st.Cases = append(st.Cases, &ast.SwitchCaseStmt{Exprs: exprs, Stmt: b.block(n.kids[i])})
		}
		if n.hasElse {
			st.Default = b.block(n.kids[len(n.kids)-1])
		}
		return st
	case nLoopInf:
		return &ast.LoopStmt{Stmt: b.block(n.kids[0])}
	case nLoopCond:
		b.truth[n.conds[0]] = n.truths[0]
		return &ast.LoopStmt{Expr: zzProbeCall("c", n.conds[0]), Stmt: b.block(n.kids[0])}
	case nCFor:
		b.truth[n.conds[0]] = n.truths[0]
		return &ast.CForStmt{Stmt1: &ast.LetsStmt{LHSS: []ast.Expr{zzIdent("zzi")}, RHSS: []ast.Expr{zzLit(int64(0))}},
			Expr2: zzProbeCall("c", n.conds[0]), Expr3: zzProbeCall("p", n.conds[1]), Stmt: b.block(n.kids[0])}
	case nForIn:
		elems := make([]interface{}, n.nElems)
		for i := range elems {
			elems[i] = int64(i)
		}
		return &ast.ForStmt{Vars: []string{"zzx"}, Value: zzLit(elems), Stmt: b.block(n.kids[0])}
	case nTry:
		st := &ast.TryStmt{Try: b.block(n.kids[0]), Catch: b.block(n.kids[1])}
		if n.catchVar {
			st.Var = "zze"
		}
		if n.hasFin {
			st.Finally = b.block(n.kids[2])
		}
		return st
	case nFunc:
		var body []ast.Stmt
		for i, d := range n.defers {
			name := "p"
			if i == n.deferErr {
				name = "pfail"
			}
			body = append(body, &ast.DeferStmt{Expr: zzProbeCall(name, d)})
		}
		inner := b.build(n.kids[0])
		if ss, ok := inner.(*ast.StmtsStmt); ok {
			body = append(body, ss.Stmts...)
		} else {
			body = append(body, inner)
		}
		fn := &ast.FuncExpr{Stmt: &ast.StmtsStmt{Stmts: body}}
		return &ast.ExprStmt{Expr: &ast.AnonCallExpr{Expr: fn}}
	case nModule:
		return &ast.ModuleStmt{Name: "zzmod", Stmt: b.block(n.kids[0])}
	}
	return nil
}

func (b *zzBuilder) block(n *zzNode) ast.Stmt {
	s := b.build(n)
	if _, ok := s.(*ast.StmtsStmt); ok {
		return s
	}
	return &ast.StmtsStmt{Stmts: []ast.Stmt{s}}
}

// zzControlEnv binds the probes: p(tag) logs and returns tag; q(tag) logs
// (used in front of control statements); c(tag) logs and returns the chosen
// truth of that evaluation; pfail(tag) logs and fails.
func zzControlEnv(b *zzBuilder) *env.Env {
	e := env.NewEnv()
	e.Define("p", func(tag int64) int64 { zz.Probe(int(tag)); return tag })
	e.Define("q", func(tag int64) int64 { zz.Probe(int(tag)); return tag })
	e.Define("pfail", func(tag int64) int64 { zz.Probe(int(tag)); panic("zz deferred failure") })
	e.Define("cshadow", func(tag int64) bool { zz.Probe(int(tag) + 100000); return false })
	e.Define("c", func(tag int64) bool {
		zz.Probe(int(tag))
		k := b.evals[int(tag)]
		b.evals[int(tag)] = k + 1
		seq := b.truth[int(tag)]
		if k >= len(seq) {
			return false
		}
		return seq[k]
	})
	return e
}

func zzSameTrace(a, b []int) bool {
	if len(a) != len(b) {
		return false
	}
	for i := range a {
		if a[i] != b[i] {
			return false
		}
	}
	return true
}

// zzControl runs one abstract program of the given depth inside a function
// body (so that `return` is meaningful) and compares with the reference.
func zzControl(depth int, c09 bool, prefix string) { zzControlB(depth, 4, c09, prefix) }

// zzControlB: budget bounds the number of compound statements in the program.
func zzControlB(depth, budget int, c09 bool, prefix string) {
	zzControlL(depth, budget, c09, false, prefix)
}

func zzControlL(depth, budget int, c09, lite bool, prefix string) {
	zzControlT(depth, budget, c09, lite, false, prefix)
}

// zzControlT: with text set the program is rendered as source text, so that
// the parser's reading of every construct is part of what is compared.
func zzControlT(depth, budget int, c09, lite, text bool, prefix string) {
	g := &zzGen{budget: budget, c09: c09, lite: lite, text: text}
	prog := g.gen(depth, false)
	root := &zzNode{k: nFunc, kids: []*zzNode{prog}, deferErr: -1}
	ref := &zzRefState{evals: map[int]int{}}
	ro := ref.ref(root)
	zz.Assume(!ref.hung)
	b := &zzBuilder{truth: map[int][]bool{}, evals: map[int]int{}}
	stmt := b.build(root)
	e := zzControlEnv(b)
	zz.ResetTrace()
	// obligations of programs in which a control signal leaves a try body are
	// named apart (known finding: runTryStmt catches the signals)
	prefix += ref.throughTry
	zz.Budget(300000)
	zz.UnwindIsViolation("terminates." + prefix)
	var v interface{}
	var err error
	if text {
		src := zzRender(root, "")
		v, err = Execute(e, &Options{Debug: false}, src)
		if _, isParseError := err.(*parser.Error); isParseError {
			zz.Assertf(false, prefix+".generated-program-parses", src)
			return
		}
	} else {
		v, err = Run(e, &Options{Debug: false}, stmt)
	}
	zz.Assert((err == nil) == (ro != oError), prefix+".error-status")
	zz.Assert(zzSameTrace(zz.Trace(), ref.trace), prefix+".probe-trace")
	if err == nil && ro != oError && ref.rootReturned {
		// `return` ends the invocation and yields its value
		switch ref.retKind {
		case 0:
			i, ok := v.(int64)
			zz.Assert(ok && i == ref.result, prefix+".return-value")
		case 1:
			zz.Assert(v == nil, prefix+".return-value/bare-return-yields-nil")
		case 2:
			l, ok := v.([]interface{})
			zz.Assert(ok && len(l) == 2, prefix+".return-value/several-values-are-a-list")
			if ok && len(l) == 2 {
				a, okA := l[0].(int64)
				c, okC := l[1].(int64)
				zz.Assert(okA && okC && a == ref.result && c == ref.result+1000, prefix+".return-value/several-values-are-a-list")
			}
		}
	}
	_ = reflect.ValueOf
}

func ZZ_C08_control_d1()   { zzControl(1, false, "C08") }
func ZZ_C08_control_d2()   { zzControl(2, false, "C08") }
func ZZ_C08_control_d3()   { zzControl(3, false, "C08") }
func ZZ_C09_try_defer_d1() { zzControl(1, true, "C09") }
func ZZ_C09_try_defer_d2() { zzControl(2, true, "C09") }
func ZZ_C09_try_defer_d3() { zzControl(3, true, "C09") }

func ZZ_C08_control_d2_b2()   { zzControlB(2, 2, false, "C08") }
func ZZ_C09_try_defer_d2_b2() { zzControlB(2, 2, true, "C09") }
func ZZ_C08_control_d3_b3()   { zzControlB(3, 3, false, "C08") }
func ZZ_C09_try_defer_d3_b3() { zzControlB(3, 3, true, "C09") }

func ZZ_C08_control_d2_lite()   { zzControlL(2, 2, false, true, "C08") }
func ZZ_C09_try_defer_d2_lite() { zzControlL(2, 2, true, true, "C09") }

// ---------------------------------------------------------------- source text

func zzItoa(i int) string {
	if i == 0 {
		return "0"
	}
	neg := i < 0
	if neg {
		i = -i
	}
	d := ""
	for i > 0 {
		d = string(rune('0'+i%10)) + d
		i /= 10
	}
	if neg {
		return "-" + d
	}
	return d
}

// zzRender writes n as anko source, one statement per line.
func zzRender(n *zzNode, ind string) string {
	in2 := ind + "\t"
	block := func(k *zzNode) string { return "{\n" + zzRender(k, in2) + ind + "}" }
	switch n.k {
	case nLeaf:
		t := zzItoa(n.tag)
		sh := ""
		if n.shadow {
			sh = ind + "var c = cshadow\n"
		}
		switch n.out {
		case oNormal:
			return ind + "p(" + t + ")\n" + sh
		case oBreak:
			return ind + "q(" + t + ")\n" + sh + ind + "break\n"
		case oContinue:
			return ind + "q(" + t + ")\n" + sh + ind + "continue\n"
		case oReturn:
			switch n.retKind {
			case 1:
				return ind + "q(" + t + ")\n" + sh + ind + "return\n"
			case 2:
				return ind + "q(" + t + ")\n" + sh + ind + "return " + zzItoa(1000+n.tag) + ", " + zzItoa(2000+n.tag) + "\n"
			}
			return ind + "q(" + t + ")\n" + sh + ind + "return " + zzItoa(1000+n.tag) + "\n"
		case oError:
			return ind + "q(" + t + ")\n" + sh + ind + "zz_undefined\n"
		case oThrow:
			return ind + "q(" + t + ")\n" + sh + ind + "throw \"thrown\"\n"
		}
	case nSeq:
		out := ""
		for _, k := range n.kids {
			out += zzRender(k, ind)
		}
		return out
	case nIf:
		out := ind + "if c(" + zzItoa(n.conds[0]) + ") " + block(n.kids[0])
		if len(n.conds) > 1 {
			out += " else if c(" + zzItoa(n.conds[1]) + ") " + block(n.kids[1])
		}
		if n.hasElse {
			out += " else " + block(n.kids[len(n.kids)-1])
		}
		return out + "\n"
	case nSwitch:
		ncases := len(n.kids)
		if n.hasElse {
			ncases--
		}
		out := ind + "switch " + zzItoa(n.subject) + " {\n"
		def := ""
		if n.hasElse {
			def = ind + "default:\n" + zzRender(n.kids[len(n.kids)-1], in2)
		}
		for i := 0; i < ncases; i++ {
			if n.hasElse && n.defPos == i {
				out += def
			}
			out += ind + "case "
			if n.multi {
				out += zzItoa(100+i) + ", "
			}
			out += zzItoa(i) + ":\n" + zzRender(n.kids[i], in2)
		}
		if n.hasElse && n.defPos >= ncases {
			out += def
		}
		return out + ind + "}\n"
	case nLoopInf:
		return ind + "for " + block(n.kids[0]) + "\n"
	case nLoopCond:
		return ind + "for c(" + zzItoa(n.conds[0]) + ") " + block(n.kids[0]) + "\n"
	case nCFor:
		return ind + "for zzi = 0; c(" + zzItoa(n.conds[0]) + "); p(" + zzItoa(n.conds[1]) + ") " + block(n.kids[0]) + "\n"
	case nForIn:
		lst := ""
		for i := 0; i < n.nElems; i++ {
			if i > 0 {
				lst += ", "
			}
			lst += zzItoa(i)
		}
		return ind + "for zzx in [" + lst + "] " + block(n.kids[0]) + "\n"
	case nTry:
		out := ind + "try " + block(n.kids[0]) + " catch "
		if n.catchVar {
			out += "zze "
		}
		out += block(n.kids[1])
		if n.hasFin {
			out += " finally " + block(n.kids[2])
		}
		return out + "\n"
	case nFunc:
		out := ind + "func() {\n"
		for i, d := range n.defers {
			name := "p"
			if i == n.deferErr {
				name = "pfail"
			}
			out += in2 + "defer " + name + "(" + zzItoa(d) + ")\n"
		}
		return out + zzRender(n.kids[0], in2) + ind + "}()\n"
	case nModule:
		return ind + "module zzmod " + block(n.kids[0]) + "\n"
	}
	return ""
}

func ZZ_C08_control_d1_text()        { zzControlT(1, 4, false, false, true, "C08") }
func ZZ_C08_control_d2_text_lite()   { zzControlT(2, 2, false, true, true, "C08") }
func ZZ_C08_control_d2_text()        { zzControlT(2, 2, false, false, true, "C08") }
func ZZ_C09_try_defer_d1_text()      { zzControlT(1, 4, true, false, true, "C09") }
func ZZ_C09_try_defer_d2_text_lite() { zzControlT(2, 2, true, true, true, "C09") }

// ZZ_C09_throw_values: `throw v` aborts evaluation whatever v is: the statement
// after it does not run, the nearest catch runs with the error bound, an
// uncaught throw reaches the host as an error.
func ZZ_C09_throw_values() {
	vals := []string{`""`, `"x"`, `nil`, `0`, `zzn`, `false`, `true`, `[]`, `{}`, `" "`, `0.0`, `zzerr`, `[""]`, `"" + ""`, `func() { return "" }()`}
	vi := zz.Choose(len(vals))
	form := zz.Choose(4)
	e := env.NewEnv()
	e.Define("p", func(tag int64) int64 { zz.Probe(int(tag)); return tag })
	e.Define("zzn", zz.Int64())
	e.Define("zzerr", errors.New(""))
	var src string
	wantErr := false
	var want []int
	switch form {
	case 0:
		src = "p(1); throw " + vals[vi] + "; p(2)"
		wantErr, want = true, []int{1}
	case 1:
		src = "try { p(1); throw " + vals[vi] + "; p(2) } catch e { p(3) }; p(4)"
		want = []int{1, 3, 4}
	case 2:
		src = "f = func() { p(1); throw " + vals[vi] + "; p(2) }; try { f(); p(5) } catch e { p(3) } finally { p(6) }; p(4)"
		want = []int{1, 3, 6, 4}
	case 3:
		src = "for i in [1, 2] { p(1); throw " + vals[vi] + "; p(2) }; p(4)"
		wantErr, want = true, []int{1}
	}
	if form == 0 && vi == 0 {
		// a run-time error raised while a statement stores its results is an error like any other:
		// the ok target of `v, ok = <-c` (known finding: the suite pins that this one is ignored)
		zz.ResetTrace()
		_, cerr := Execute(e, &Options{Debug: false}, "c = make(chan int64, 1); c <- 1; try { v, nosuch[0] = <-c; p(2) } catch e { p(3) }; p(4)")
		zz.Assert(cerr == nil && zzSameTrace(zz.Trace(), []int{3, 4}), "C09.errors-reach-try/ok-target-of-receive-statement")
	}
	id := []string{"top-level", "in-try", "in-called-function", "in-loop"}[form] + "/" + vals[vi]
	zz.ResetTrace()
	zz.Budget(300000)
	_, err := Execute(e, &Options{Debug: false}, src)
	zz.Assertf((err != nil) == wantErr, "C09.throw/error-status/"+id, src)
	zz.Assertf(zzSameTrace(zz.Trace(), want), "C09.throw/nothing-runs-after-the-throw/"+id, src)
}

// ZZ_C09_defer_call_shapes: every shape of deferred call runs exactly once when
// the invocation ends, with the arguments as evaluated at the defer statement,
// after the body and in reverse order of registration: script functions of
// 0..6 parameters, variadic script and Go functions with and without a spread
// argument, a spread over fixed parameters, literals, module members.  Each
// callee records (shape tag, value) in a Go-side log.
func ZZ_C09_defer_call_shapes() {
	a, b, c := zz.Int64(), zz.Int64(), zz.Int64()
	type rec struct{ tag, v int64 }
	var log []rec
	e := env.NewEnv()
	e.Define("A", a)
	e.Define("B", b)
	e.Define("C", c)
	e.Define("rec", func(tag, v int64) { log = append(log, rec{tag, v}) })
	e.Define("gosum", func(tag int64, xs ...int64) {
		s := int64(len(xs)) * 1000000
		for _, x := range xs {
			s += x
		}
		log = append(log, rec{tag, s})
	})
	e.Define("gofixed", func(tag, x, y int64) { log = append(log, rec{tag, x - y}) })
	e.Define("len", func(v []interface{}) int64 { return int64(len(v)) })
	shapes := []struct {
		name, def, call string
		want            int64
	}{
		{"script-0", "f = func() { rec(T, 7) }", "f()", 7},
		{"script-1", "f = func(x) { rec(T, x) }", "f(A)", a},
		{"script-2", "f = func(x, y) { rec(T, x - y) }", "f(A, B)", a - b},
		{"script-3", "f = func(x, y, z) { rec(T, x - y + z) }", "f(A, B, C)", a - b + c},
		{"script-4", "f = func(x, y, z, u) { rec(T, x - y + z - u) }", "f(A, B, C, 1)", a - b + c - 1},
		{"script-5", "f = func(x, y, z, u, v) { rec(T, x - y + z - u + v) }", "f(A, B, C, 1, 2)", a - b + c - 1 + 2},
		{"script-6", "f = func(x, y, z, u, v, w) { rec(T, x - y + z - u + v - w) }", "f(A, B, C, 1, 2, 3)", a - b + c - 1 + 2 - 3},
		{"script-variadic", "f = func(xs...) { rec(T, len(xs) * 1000000 + xs[0] - xs[1]) }", "f(A, B)", 2000000 + a - b},
		{"script-variadic-spread", "f = func(xs...) { rec(T, len(xs) * 1000000 + xs[0] - xs[1]) }", "f([A, B]...)", 2000000 + a - b},
		{"script-fixed-then-variadic", "f = func(x, ys...) { rec(T, len(ys) * 1000000 + x - ys[0]) }", "f(A, B, C)", 2000000 + a - b},
		{"script-fixed-then-variadic-spread", "f = func(x, ys...) { rec(T, len(ys) * 1000000 + x - ys[0]) }", "f(A, [B, C]...)", 2000000 + a - b},
		{"script-spread-fixed", "f = func(x, y) { rec(T, x - y) }", "f([A, B]...)", a - b},
		{"script-spread-fixed-3", "f = func(x, y, z) { rec(T, x - y + z) }", "f(A, [B, C]...)", a - b + c},
		{"literal", "", "func(x, y) { rec(T, x - y) }(A, B)", a - b},
		{"literal-0", "", "func() { rec(T, A - B + 9) }()", 9}, // no arguments: the closure reads A and B when it runs
		{"go-variadic", "", "gosum(T, A, B)", 2000000 + a + b},
		{"go-variadic-spread", "", "gosum(T, [A, B]...)", 2000000 + a + b},
		{"go-variadic-empty", "", "gosum(T)", 0},
		{"go-fixed", "", "gofixed(T, A, B)", a - b},
		{"go-fixed-spread", "", "gofixed(T, [A, B]...)", a - b},
		{"module-member", "module m { f = func(x, y) { rec(T, x - y) } }", "m.f(A, B)", a - b},
	}
	s := shapes[zz.Choose(len(shapes))]
	// the deferred call of the shape between two plain deferred calls, in a
	// function whose body runs after the defer statements; a second program
	// re-binds the argument variables after the defer statement
	exit := []string{"", "return 5", "undefined_name"}[zz.Choose(3)]
	src := "T = 2\n" + s.def + "\nmain = func() {\n defer rec(1, 1)\n defer " + s.call + "\n defer rec(3, 3)\n A = 0\n B = 0\n rec(4, 4)\n " + exit + "\n}\ntry { main() } catch e { rec(5, 5) }"
	zz.Budget(400000)
	_, err := Execute(e, &Options{Debug: false}, src)
	id := s.name + "/" + []string{"falls-off-the-end", "return", "error"}[zz.Choose(1)*0+indexOf([]string{"", "return 5", "undefined_name"}, exit)]
	zz.Assertf(err == nil, "C09.defer-shape/no-host-error/"+id, src)
	// expected log: body (4), then LIFO: 3, the shape (2), 1; then 5 iff the body failed
	want := []rec{{4, 4}, {3, 3}, {2, s.want}, {1, 1}}
	if exit == "undefined_name" {
		want = append(want, rec{5, 5})
	}
	zz.Assertf(len(log) == len(want), "C09.defer-shape/runs-exactly-once-lifo/"+id, src)
	if len(log) != len(want) {
		return
	}
	for i := range want {
		zz.Assertf(log[i].tag == want[i].tag, "C09.defer-shape/runs-exactly-once-lifo/"+id, src)
		if log[i].tag == want[i].tag {
			zz.Assertf(log[i].v == want[i].v, "C09.defer-shape/arguments-as-evaluated-at-the-defer-statement/"+id, src)
		}
	}
}

func indexOf(l []string, s string) int {
	for i, x := range l {
		if x == s {
			return i
		}
	}
	return 0
}
