package vm

// C16: script channels and goroutines deliver every message once, in order.
// The interpreter's channel code (invokeChanExpr, runChanStmt, runForChanStmt,
// runCloseStmt, make(chan)) runs on the engine's channel model (Go's specified
// channel semantics); pipelines are explored under all schedules at
// channel-operation granularity.

import (
	"github.com/mattn/anko/env"
	zz "github.com/mattn/anko/zzverif"
	"time"
)

func zzChanEnv(a, b, c int64) *env.Env {
	e := env.NewEnv()
	e.Define("A", a)
	e.Define("B", b)
	e.Define("C", c)
	e.Define("p", func(i int64) int64 { zz.Probe(int(i)); return i })
	return e
}

func zzIntList(v interface{}) ([]int64, bool) {
	l, ok := v.([]interface{})
	if !ok {
		return nil, false
	}
	out := make([]int64, len(l))
	for i, x := range l {
		xi, isInt := x.(int64)
		if !isInt {
			return nil, false
		}
		out[i] = xi
	}
	return out, true
}

// ZZ_C16_sequential: FIFO, conversion to the element type, closed channels.
func ZZ_C16_sequential() {
	a, b, c := zz.Int64(), zz.Int64(), zz.Int64()
	e := zzChanEnv(a, b, c)
	elem := []string{"int64", "interface"}[zz.Choose(2)]
	mk := "ch = make(chan " + elem + ", 3)\n"
	zz.DeadlockIsViolation("terminates.C16.sequential")
	switch zz.Choose(11) {
	case 9:
		// leaving a for-in over a channel early consumes exactly what it received
		exit := []string{"break", "throw 1"}[zz.Choose(2)]
		r, err := Execute(e, nil, mk+"ch <- A; ch <- B; ch <- C; try { for x in ch { "+exit+" } } catch e { }; [<-ch, <-ch]")
		l, ok := zzIntList(r)
		zz.Assert(err == nil && ok && len(l) == 2, "C16.for-in-chan-early-exit/runs")
		if ok && len(l) == 2 {
			zz.Assert(zz.And(l[0] == b, l[1] == c), "C16.for-in-chan-early-exit/later-receiver-gets-the-remaining-items")
		}
	case 10:
		// a function leaving the loop by return
		r, err := Execute(e, nil, mk+"ch <- A; ch <- B; f = func() { for x in ch { return x } }; [f(), <-ch]")
		l, ok := zzIntList(r)
		zz.Assert(err == nil && ok && len(l) == 2, "C16.for-in-chan-return/runs")
		if ok && len(l) == 2 {
			zz.Assert(zz.And(l[0] == a, l[1] == b), "C16.for-in-chan-return/received-once-in-order")
		}
	case 0:
		r, err := Execute(e, nil, mk+"ch <- A; ch <- B; ch <- C; [<-ch, <-ch, <-ch]")
		l, ok := zzIntList(r)
		zz.Assert(err == nil && ok && len(l) == 3, "C16.fifo/runs")
		if ok && len(l) == 3 {
			zz.Assert(zz.And(zz.And(l[0] == a, l[1] == b), l[2] == c), "C16.fifo/order-and-values")
		}
	case 1:
		f := zz.Float64()
		e.Define("F", f)
		r, err := Execute(e, nil, "ch = make(chan int64, 1); ch <- F; <-ch")
		ri, ok := r.(int64)
		zz.Assert(err == nil && ok && ri == int64(f), "C16.send-converts-to-element-type")
	case 2:
		_, err := Execute(e, nil, "ch = make(chan int64, 1); ch <- \"abc\"")
		zz.Assert(err != nil, "C16.unconvertible-send-is-error")
	case 3:
		// (receive *expressions*: `y = <-ch` is the receive statement)
		r, err := Execute(e, nil, mk+"ch <- A; close(ch); [<-ch, <-ch]")
		l, ok := r.([]interface{})
		zz.Assert(err == nil && ok && len(l) == 2, "C16.closed/runs")
		if ok && len(l) == 2 {
			x, isInt := l[0].(int64)
			zz.Assert(isInt && x == a, "C16.closed/buffered-item-still-delivered")
			zz.Assert(l[1] == nil, "C16.closed/drained-receive-yields-nil")
		}
	case 4:
		r, err := Execute(e, nil, mk+"close(ch); v = A; v, ok = <-ch; [v, ok]")
		l, ok := r.([]interface{})
		zz.Assert(err == nil && ok && len(l) == 2, "C16.receive-stmt/runs")
		if ok && len(l) == 2 {
			x, isInt := l[0].(int64)
			zz.Assert(isInt && x == a, "C16.receive-stmt/value-variable-untouched")
			zz.Assert(l[1] == false, "C16.receive-stmt/ok-false-when-closed")
		}
	case 5:
		r, err := Execute(e, nil, mk+"ch <- A; v, ok = <-ch; [v, ok]")
		l, ok := r.([]interface{})
		zz.Assert(err == nil && ok && len(l) == 2, "C16.receive-stmt-open/runs")
		if ok && len(l) == 2 {
			x, isInt := l[0].(int64)
			zz.Assert(isInt && x == a && l[1] == true, "C16.receive-stmt-open/value-and-ok")
		}
	case 6:
		r, err := Execute(e, nil, mk+"ch <- A; ch <- B; close(ch); out = []; for x in ch { out += x }; out")
		l, ok := zzIntList(r)
		zz.Assert(err == nil && ok && len(l) == 2, "C16.for-in-chan/ends-at-close-after-buffered-items")
		if ok && len(l) == 2 {
			zz.Assert(zz.And(l[0] == a, l[1] == b), "C16.for-in-chan/order-and-values")
		}
	case 7:
		_, err := Execute(e, nil, mk+"close(ch); ch <- A")
		zz.Assert(err != nil, "C16.send-on-closed-is-error")
	case 8:
		_, err := Execute(e, nil, mk+"close(ch); close(ch)")
		zz.Assert(err != nil, "C16.double-close-is-error")
	}
}

// ZZ_C16_go_args: a go call evaluates its arguments before it starts.
func ZZ_C16_go_args() {
	e := zzChanEnv(0, 0, 0)
	zz.ResetTrace()
	src := "f = func(a, b) { p(10); done <- 1 }\ndone = make(chan int64)\ngo f(p(0), p(1))\np(2)\n<-done"
	if zz.Choose(2) == 1 {
		src = "f = func(a...) { p(10); done <- 1 }\ndone = make(chan int64)\ngo f(p(0), p(1))\np(2)\n<-done"
	}
	_, err := Execute(e, nil, src)
	zz.Drain()
	zz.Assert(err == nil, "C16.go/runs")
	tr := zz.Trace()
	pos := map[int]int{}
	for i, t := range tr {
		pos[t] = i
	}
	_, has0 := pos[0]
	_, has1 := pos[1]
	_, has10 := pos[10]
	zz.Assert(has0 && has1 && has10 && len(tr) == 4, "C16.go/every-probe-once")
	// a go call of a script function with 1..4 parameters and a receiving argument
	e2 := zzChanEnv(0, 0, 0)
	r2, err2 := Execute(e2, nil, "jobs = make(chan int64, 2); jobs <- 10; jobs <- 20; res = make(chan int64, 1)\nworker = func(j) { res <- j }\ngo worker(<-jobs)\n[<-res, len(jobs)]")
	zz.Drain()
	l2, ok2 := zzIntList(r2)
	zz.Assert(err2 == nil && ok2 && len(l2) == 2 && l2[0] == 10 && l2[1] == 1, "C16.go/argument-evaluated-exactly-once")
	if has0 && has1 && has10 {
		zz.Assert(pos[0] < pos[1] && pos[1] < pos[10], "C16.go/arguments-before-callee-starts")
	}
}

// zzPipeline: producer -> [stage ->] consumer under schedule exploration.
func zzPipeline(n, capacity, stages, maxSwitches int) {
	a, b, c := zz.Int64(), zz.Int64(), zz.Int64()
	vals := []int64{a, b, c}[:n]
	e := zzChanEnv(a, b, c)
	items := []string{"[]", "[A]", "[A, B]", "[A, B, C]"}[n]
	caps := []string{"", ", 1", ", 2"}[capacity]
	src := "ch = make(chan int64" + caps + ")\n" +
		"go func() { for i in " + items + " { ch <- i }; close(ch) }()\n"
	last := "ch"
	if stages == 1 {
		src += "ch2 = make(chan interface" + caps + ")\n" +
			"go func() { for x in ch { ch2 <- x }; close(ch2) }()\n"
		last = "ch2"
	}
	src += "out = []\nfor x in " + last + " { out += x }\nout"
	zz.Budget(3000000)
	zz.UnwindIsViolation("terminates.C16.pipeline")
	if zz.Symbolic() {
		zz.SchedChannelsOnly(true)
		zz.SchedExplore(true, maxSwitches)
	}
	r, err := Execute(e, nil, src)
	zz.SchedExplore(false, 0)
	zz.Drain()
	zz.Assert(err == nil, "C16.pipeline/runs")
	l, ok := zzIntList(r)
	zz.Assert(ok && len(l) == n, "C16.pipeline/every-item-delivered-once")
	if ok && len(l) == n {
		same := true
		for i := range vals {
			same = zz.And(same, l[i] == vals[i])
		}
		zz.Assert(same, "C16.pipeline/in-order")
	}
	zz.Assert(zz.GoroutineCrashes() == 0, "C16.pipeline/no-goroutine-crash")
}

func ZZ_C16_pipeline_quick() {
	zzPipeline(zz.Choose(3), zz.Choose(2), zz.Choose(2), 3)
}

func ZZ_C16_pipeline() {
	zzPipeline(zz.Choose(4), zz.Choose(3), zz.Choose(2), 4)
}

// ZZ_C16_go_call_shapes: every shape of go call starts its callee on a new
// goroutine with exactly the supplied arguments: script functions of 0..6
// parameters (the direct-call fast path ends at 4), variadic script and Go
// functions with and without a spread argument, function literals.  The
// callee sends on an unbuffered channel the caller only reads afterwards, so a
// callee run synchronously deadlocks.
func ZZ_C16_go_call_shapes() {
	a, b, c := zz.Int64(), zz.Int64(), zz.Int64()
	e := zzChanEnv(a, b, c)
	e.Define("gosum", func(out chan int64, xs ...int64) {
		s := int64(len(xs)) * 1000000
		for _, x := range xs {
			s += x
		}
		out <- s
	})
	e.Define("gofixed", func(out chan int64, x, y int64) { out <- x - y })
	shapes := []struct{ name, src string }{
		{"script-0", "f = func() { out <- 7 }\ngo f()"},
		{"script-1", "f = func(x) { out <- x }\ngo f(A)"},
		{"script-2", "f = func(x, y) { out <- x - y }\ngo f(A, B)"},
		{"script-3", "f = func(x, y, z) { out <- x - y + z }\ngo f(A, B, C)"},
		{"script-4", "f = func(x, y, z, u) { out <- x - y + z - u }\ngo f(A, B, C, 1)"},
		{"script-5", "f = func(x, y, z, u, v) { out <- x - y + z - u + v }\ngo f(A, B, C, 1, 2)"},
		{"script-6", "f = func(x, y, z, u, v, w) { out <- x - y + z - u + v - w }\ngo f(A, B, C, 1, 2, 3)"},
		{"script-variadic", "f = func(xs...) { out <- len(xs) * 1000000 + xs[0] - xs[1] }\ngo f(A, B)"},
		{"script-variadic-spread", "f = func(xs...) { out <- len(xs) * 1000000 + xs[0] - xs[1] }\ngo f([A, B]...)"},
		{"script-spread-fixed", "f = func(x, y) { out <- x - y }\ngo f([A, B]...)"},
		{"literal", "go func(x, y) { out <- x - y }(A, B)"},
		{"literal-0", "go func() { out <- A - B }()"},
		{"go-variadic", "go gosum(out, A, B)"},
		{"go-variadic-spread", "go gosum(out, [A, B]...)"},
		{"go-variadic-empty", "go gosum(out)"},
		{"go-fixed", "go gofixed(out, A, B)"},
		{"module-member", "module m { f = func(x, y) { out <- x - y } }\ngo m.f(A, B)"},
	}
	s := shapes[zz.Choose(len(shapes))]
	var want int64
	switch s.name {
	case "script-0":
		want = 7
	case "script-1":
		want = a
	case "script-2", "script-spread-fixed", "literal", "literal-0", "go-fixed", "module-member":
		want = a - b
	case "script-3":
		want = a - b + c
	case "script-4":
		want = a - b + c - 1
	case "script-5":
		want = a - b + c - 1 + 2
	case "script-6":
		want = a - b + c - 1 + 2 - 3
	case "script-variadic", "script-variadic-spread":
		want = 2000000 + a - b
	case "go-variadic", "go-variadic-spread":
		want = 2000000 + a + b
	case "go-variadic-empty":
		want = 0
	}
	zz.DeadlockIsViolation("terminates.C16.go/" + s.name)
	if zz.Choose(2) == 0 {
		r, err := Execute(e, nil, "out = make(chan int64)\n"+s.src+"\n<-out")
		zz.Drain()
		ri, ok := r.(int64)
		zz.Assert(err == nil && ok, "C16.go-shape/runs-concurrently-and-delivers/"+s.name)
		if err == nil && ok {
			zz.Assert(ri == want, "C16.go-shape/exactly-the-supplied-arguments/"+s.name)
		}
		return
	}
	// the started call keeps its arguments whatever the caller calls next: other
	// calls of several shapes (with other arguments) run before the goroutine is
	// read; the goroutine's value must still be the one computed from A, B, C
	later := "h5 = func(a, b, c, d, g) { return a }\nhv = func(xs...) { return len(xs) }\nh5(9, 8, 7, 6, 5)\nhv(4, 3)\nhv([2, 1]...)\ngosum(side, 11, 12)\n"
	r, err := Execute(e, nil, "out = make(chan int64)\nside = make(chan int64, 4)\n"+s.src+"\n"+later+"<-out")
	zz.Drain()
	ri, ok := r.(int64)
	zz.Assert(err == nil && ok, "C16.go-shape/runs-concurrently-and-delivers/"+s.name+"/then-other-calls")
	if err == nil && ok {
		zz.Assert(ri == want, "C16.go-shape/exactly-the-supplied-arguments/"+s.name+"/then-other-calls")
	}
}

// ZZ_C16_blocked_receiver: the receive forms when the receiver is already
// blocked on an empty channel at the moment another goroutine sends or closes
// (the sequential cases above only meet channels that were filled or closed
// beforehand).  Forms: receive expression, one- and two-value receive
// statement, for-in; channel unbuffered or buffered and empty; the other
// goroutine closes, or sends n values and closes.
func ZZ_C16_blocked_receiver() {
	a, b, c := zz.Int64(), zz.Int64(), zz.Int64()
	e := zzChanEnv(a, b, c)
	elem := []string{"int64", "interface"}[zz.Choose(2)]
	capv := []string{"", ", 1", ", 4"}[zz.Choose(3)]
	nsend := zz.Choose(3)
	sends := []string{"", "ch <- A; ", "ch <- A; ch <- B; "}[nsend]
	// `gate` makes sure the producer only starts once the consumer is about to block
	// (pause: natively 30 ms, so that the receiver is blocked before the producer acts)
	e.Define("pause", func() { time.Sleep(30 * time.Millisecond) })
	prod := "go func() { <-gate; pause(); " + sends + "pause(); close(ch) }()\n"
	head := "ch = make(chan " + elem + capv + ")\ngate = make(chan int64)\n" + prod + "gate <- 1\n"
	form := zz.Choose(4)
	id := []string{"receive-expression", "receive-statement", "two-value-receive-statement", "for-in"}[form] + "/" + elem + "/cap" + capv + "/" + []string{"close", "send-close", "send-send-close"}[nsend]
	zz.DeadlockIsViolation("terminates.C16.blocked-receiver/" + id)
	zz.Budget(600000)
	vals := []int64{a, b}[:nsend]
	switch form {
	case 0:
		// nsend+1 receive expressions: the values in order, then nil
		src := head + "out = []\nfor i = 0; i < " + []string{"1", "2", "3"}[nsend] + "; i++ { out += [<-ch] }\nout"
		r, err := Execute(e, nil, src)
		zz.Drain()
		l, ok := r.([]interface{})
		zz.Assert(err == nil && ok && len(l) == nsend+1, "C16.blocked-receiver/runs/"+id)
		if ok && len(l) == nsend+1 {
			for i, w := range vals {
				x, isInt := l[i].(int64)
				zz.Assert(isInt && x == w, "C16.blocked-receiver/every-value-once-in-order/"+id)
			}
			zz.Assert(l[nsend] == nil, "C16.blocked-receiver/receive-on-closed-yields-nil/"+id)
		}
	case 1, 2:
		two := form == 2
		stmt := "v = <-ch"
		if two {
			stmt = "v, ok = <-ch"
		}
		src := head + "out = []\nv = C\nok = 7\nfor i = 0; i < " + []string{"1", "2", "3"}[nsend] + "; i++ { " + stmt + "; out += [[v, ok]] }\nout"
		r, err := Execute(e, nil, src)
		zz.Drain()
		l, ok := r.([]interface{})
		zz.Assert(err == nil && ok && len(l) == nsend+1, "C16.blocked-receiver/runs/"+id)
		if ok && len(l) == nsend+1 {
			for i := 0; i <= nsend; i++ {
				p, isPair := l[i].([]interface{})
				zz.Assert(isPair && len(p) == 2, "C16.blocked-receiver/runs/"+id)
				if !isPair || len(p) != 2 {
					return
				}
				x, isInt := p[0].(int64)
				if i < nsend {
					zz.Assert(isInt && x == vals[i], "C16.blocked-receiver/every-value-once-in-order/"+id)
					if two {
						zz.Assert(p[1] == true, "C16.blocked-receiver/ok-true-for-a-delivered-value/"+id)
					}
				} else {
					// closed and drained: the value variable keeps what it had
					last := c
					if nsend > 0 {
						last = vals[nsend-1]
					}
					zz.Assert(isInt && x == last, "C16.blocked-receiver/value-variable-untouched-when-closed/"+id)
					if two {
						zz.Assert(p[1] == false, "C16.blocked-receiver/ok-false-when-closed/"+id)
					}
				}
			}
		}
	case 3:
		src := head + "out = []\nfor x in ch { out += x }\nout"
		r, err := Execute(e, nil, src)
		zz.Drain()
		l, ok := zzIntList(r)
		zz.Assert(err == nil && ok && len(l) == nsend, "C16.blocked-receiver/for-in-ends-at-close/"+id)
		if ok && len(l) == nsend {
			for i, w := range vals {
				zz.Assert(l[i] == w, "C16.blocked-receiver/every-value-once-in-order/"+id)
			}
		}
	}
}

// ZZ_C16_fan_in: two producers into one buffered channel, one consumer, under
// schedule exploration: every value sent is received exactly once (a send that
// checks for room and then sends in two steps loses a value when the other
// producer takes the slot in between).
func ZZ_C16_fan_in() { zzFanIn(1, 3) }

// (thorough: two values per producer, one more context switch)
func ZZ_C16_fan_in_2() { zzFanIn(2, 4) }

func zzFanIn(per, maxSwitches int) {
	a, b, c := zz.Int64(), zz.Int64(), zz.Int64()
	e := zzChanEnv(a, b, c)
	capacity := []string{", 1", ", 2"}[zz.Choose(2)]
	items := []string{"", "ch <- A; ", "ch <- A; ch <- C; "}[per]
	items2 := []string{"", "ch <- B; ", "ch <- B; ch <- C; "}[per]
	// (the consumer counts what it takes out, so no closing goroutine is needed)
	src := "ch = make(chan int64" + capacity + ")\n" +
		"go func() { " + items + "}()\n" +
		"go func() { " + items2 + "}()\n" +
		"out = []\nfor i = 0; i < " + []string{"0", "2", "4"}[per] + "; i++ { out += [<-ch] }\nout"
	if !zz.Symbolic() {
		// native replay of a schedule found by the engine: the runtime's scheduler
		// cannot be steered, so the same property is stressed - 4 producers x 300
		// values into the same kind of channel; a lost value leaves the consumer
		// waiting for ever (the replay then times out, which confirms the finding)
		stress := "ch = make(chan int64" + capacity + ")\n"
		for i := 0; i < 4; i++ {
			stress += "go func() { for i = 0; i < 300; i++ { ch <- i } }()\n"
		}
		stress += "n = 0\nfor i = 0; i < 1200; i++ { <-ch; n++ }\nn"
		for round := 0; round < 20; round++ {
			r, err := Execute(env.NewEnv(), nil, stress)
			zz.Assert(err == nil && r == int64(1200), "C16.fan-in/every-value-received-once")
		}
		return
	}
	zz.Budget(2000000)
	zz.UnwindIsViolation("terminates.C16.fan-in")
	zz.DeadlockIsViolation("terminates.C16.fan-in")
	zz.MaxDecisions(4000)
	if zz.Symbolic() {
		zz.SchedChannelsOnly(true)
		zz.SchedExplore(true, maxSwitches)
	}
	r, err := Execute(e, nil, src)
	zz.SchedExplore(false, 0)
	zz.Drain()
	zz.Assert(err == nil, "C16.fan-in/runs")
	l, ok := zzIntList(r)
	zz.Assert(ok && len(l) == 2*per, "C16.fan-in/every-value-received-once")
	if ok && len(l) == 2*per {
		// as a multiset: A and B each exactly once
		zz.Assume(zz.And(a != b, zz.And(a != c, b != c)))
		na, nb := 0, 0
		for _, x := range l {
			na += zz.Ite(x == a, 1, 0)
			nb += zz.Ite(x == b, 1, 0)
		}
		zz.Assert(na == 1 && nb == 1, "C16.fan-in/every-value-received-once")
	}
}

// ZZ_C16_producer_outlives_run: a goroutine started by `go` runs concurrently
// with its caller - also after the Execute / Run call that started it has
// returned (the REPL, a host that starts producers in one call and consumes in
// the next, a host reading a channel it handed to the script): every item is
// still delivered, in order, and the channel is closed at the end.
func ZZ_C16_producer_outlives_run() {
	a, b, c := zz.Int64(), zz.Int64(), zz.Int64()
	e := zzChanEnv(a, b, c)
	capn := []string{"0", "1", "3"}[zz.Choose(3)]
	zz.DeadlockIsViolation("terminates.C16.producer-outlives-run")
	prod := []string{
		"go func() { ch <- A; ch <- B; ch <- C; close(ch) }()",
		"f = func(x, y, z) { ch <- x; ch <- y; ch <- z; close(ch) }; go f(A, B, C)",
		"go func() { for v in [A, B, C] { ch <- v }; close(ch) }()",
		"mid = make(chan int64); go func() { for v in mid { ch <- v }; close(ch) }(); go func() { mid <- A; mid <- B; mid <- C; close(mid) }()",
	}
	pi := zz.Choose(len(prod))
	id := []string{"literal", "named-function", "loop", "relay"}[pi] + "/cap" + capn
	consumer := zz.Choose(3)
	if consumer == 2 {
		// the host owns the channel and reads it after the call has returned
		ch := make(chan int64, []int{0, 1, 3}[zz.Choose(3)])
		e.Define("ch", ch)
		_, err := Execute(e, nil, prod[pi])
		zz.Assertf(err == nil, "C16.producer-outlives-run/start-run-succeeds/"+id, prod[pi])
		var got []int64
		for v := range ch {
			got = append(got, v)
		}
		zz.Assertf(len(got) == 3 && got[0] == a && got[1] == b && got[2] == c, "C16.producer-outlives-run/host-receives-every-item-in-order/"+id, prod[pi])
		return
	}
	_, err := Execute(e, nil, "ch = make(chan int64, "+capn+")\n"+prod[pi])
	zz.Assertf(err == nil, "C16.producer-outlives-run/start-run-succeeds/"+id, prod[pi])
	src := []string{"r = []; for v in ch { r += v }; r", "[<-ch, <-ch, <-ch, <-ch]"}[consumer]
	r, err := Execute(e, nil, src)
	zz.Assertf(err == nil, "C16.producer-outlives-run/consumer-run-succeeds/"+id, src)
	if err != nil {
		return
	}
	l, ok := r.([]interface{})
	zz.Assertf(ok && len(l) >= 3, "C16.producer-outlives-run/later-run-receives-every-item/"+id, src)
	if !ok || len(l) < 3 {
		return
	}
	x, _ := l[0].(int64)
	y, _ := l[1].(int64)
	z, _ := l[2].(int64)
	zz.Assertf(x == a && y == b && z == c, "C16.producer-outlives-run/later-run-receives-every-item/"+id, src)
	if consumer == 1 {
		zz.Assertf(len(l) == 4 && l[3] == nil, "C16.producer-outlives-run/channel-is-closed-at-the-end/"+id, src)
	}
}
