package vm

// C11: values and calls cross the Go boundary faithfully.

import (
	"errors"
	"reflect"

	"github.com/mattn/anko/ast"
	"github.com/mattn/anko/env"
	zz "github.com/mattn/anko/zzverif"
)

// ---- conversion lemma: convertReflectValueToType over a type pool

var zzTargetNames = []string{"int8", "int16", "int32", "int64", "int", "uint8", "uint16", "uint32", "uint64", "float32", "float64",
	"string", "bool", "interface{}", "[]int64", "[]string", "[]interface{}", "map[string]int64", "*int64", "[]byte", "[3]int64"}

func zzTargetType(i int) reflect.Type {
	switch zzTargetNames[i] {
	case "[3]int64":
		return reflect.TypeOf([3]int64{})
	case "int8":
		return reflect.TypeOf(int8(0))
	case "int16":
		return reflect.TypeOf(int16(0))
	case "int32":
		return reflect.TypeOf(int32(0))
	case "int64":
		return reflect.TypeOf(int64(0))
	case "int":
		return reflect.TypeOf(int(0))
	case "uint8":
		return reflect.TypeOf(uint8(0))
	case "uint16":
		return reflect.TypeOf(uint16(0))
	case "uint32":
		return reflect.TypeOf(uint32(0))
	case "uint64":
		return reflect.TypeOf(uint64(0))
	case "float32":
		return reflect.TypeOf(float32(0))
	case "float64":
		return reflect.TypeOf(float64(0))
	case "string":
		return reflect.TypeOf("")
	case "bool":
		return reflect.TypeOf(true)
	case "interface{}":
		return interfaceType
	case "[]int64":
		return reflect.TypeOf([]int64{})
	case "[]string":
		return reflect.TypeOf([]string{})
	case "[]interface{}":
		return reflect.TypeOf([]interface{}{})
	case "map[string]int64":
		return reflect.TypeOf(map[string]int64{})
	case "*int64":
		return reflect.TypeOf((*int64)(nil))
	case "[]byte":
		return reflect.TypeOf([]byte{})
	}
	return nil
}

// zzNumericTo: Go's own conversion of an int64 / float64 payload to target i
// as (int64 view, float64 view, isFloatTarget).
func zzIntTo(x int64, t string) (int64, float64, bool, bool) {
	switch t {
	case "int8":
		return int64(int8(x)), 0, false, true
	case "int16":
		return int64(int16(x)), 0, false, true
	case "int32":
		return int64(int32(x)), 0, false, true
	case "int64":
		return x, 0, false, true
	case "int":
		return int64(int(x)), 0, false, true
	case "uint8":
		return int64(uint8(x)), 0, false, true
	case "uint16":
		return int64(uint16(x)), 0, false, true
	case "uint32":
		return int64(uint32(x)), 0, false, true
	case "uint64":
		return int64(uint64(x)), 0, false, true
	case "float32":
		return 0, float64(float32(x)), true, true
	case "float64":
		return 0, float64(x), true, true
	}
	return 0, 0, false, false
}

func zzFloatTo(x float64, t string) (int64, float64, bool, bool) {
	switch t {
	case "int8":
		return int64(int8(x)), 0, false, true
	case "int16":
		return int64(int16(x)), 0, false, true
	case "int32":
		return int64(int32(x)), 0, false, true
	case "int64":
		return int64(x), 0, false, true
	case "int":
		return int64(int(x)), 0, false, true
	case "uint8":
		return int64(uint8(x)), 0, false, true
	case "uint16":
		return int64(uint16(x)), 0, false, true
	case "uint32":
		return int64(uint32(x)), 0, false, true
	case "float32":
		return 0, float64(float32(x)), true, true
	case "float64":
		return 0, x, true, true
	}
	return 0, 0, false, false
}

func zzNumView(rv reflect.Value) (int64, float64, bool) {
	switch rv.Kind() {
	case reflect.Int, reflect.Int8, reflect.Int16, reflect.Int32, reflect.Int64:
		return rv.Int(), 0, false
	case reflect.Uint, reflect.Uint8, reflect.Uint16, reflect.Uint32, reflect.Uint64:
		return int64(rv.Uint()), 0, false
	case reflect.Float32, reflect.Float64:
		return 0, rv.Float(), true
	}
	return 0, 0, false
}

// ZZ_C11_convert_scalars: a script number passed to a Go parameter of
// numeric type T arrives as Go's own conversion to T.
func ZZ_C11_convert_scalars() {
	ti := zz.Choose(11) // the numeric targets
	t := zzTargetNames[ti]
	rt := zzTargetType(ti)
	fromFloat := zz.Choose(2) == 1
	var src reflect.Value
	var wi int64
	var wf float64
	var wIsF, ok bool
	if fromFloat {
		if t == "uint64" {
			return // float -> uint64 of out-of-range values is platform specific
		}
		f := zz.Float64()
		src = reflect.ValueOf(f)
		wi, wf, wIsF, ok = zzFloatTo(f, t)
	} else {
		i := zz.Int64()
		src = reflect.ValueOf(i)
		wi, wf, wIsF, ok = zzIntTo(i, t)
	}
	if zz.Choose(2) == 1 {
		// through an interface-typed slot
		s := []interface{}{src.Interface()}
		src = reflect.ValueOf(s).Index(0)
	}
	rv, err := convertReflectValueToType(src, rt)
	id := []string{"int64", "float64"}[zzBtoI(fromFloat)] + "->" + t
	zz.Assert(ok && err == nil, "C11.convert/no-error/"+id)
	if err != nil {
		return
	}
	zz.Assert(rv.Type() == rt, "C11.convert/exact-target-type/"+id)
	gi, gf, gIsF := zzNumView(rv)
	zz.Assert(gIsF == wIsF, "C11.convert/kind/"+id)
	if wIsF {
		zz.Assert(zzSameFloat(gf, wf), "C11.convert/value-as-go-converts/"+id)
	} else {
		zz.Assert(gi == wi, "C11.convert/value-as-go-converts/"+id)
	}
}

func zzBtoI(b bool) int {
	if b {
		return 1
	}
	return 0
}

// ZZ_C11_convert_table: convertibility and results for non-numeric pairs.
func ZZ_C11_convert_table() {
	i64 := zz.Int64()
	type row struct {
		name  string
		src   interface{}
		ti    int
		ok    bool
		check func(rv reflect.Value) bool
	}
	targets := func(name string) int {
		for i, n := range zzTargetNames {
			if n == name {
				return i
			}
		}
		return -1
	}
	rows := []row{
		{"nil->int64 is zero", nil, targets("int64"), true, func(rv reflect.Value) bool { return rv.Int() == 0 }},
		{"nil->string is zero", nil, targets("string"), true, func(rv reflect.Value) bool { return rv.String() == "" }},
		{"nil->[]int64 is zero", nil, targets("[]int64"), true, func(rv reflect.Value) bool { return rv.Len() == 0 }},
		{"nil->*int64 is zero", nil, targets("*int64"), true, func(rv reflect.Value) bool { return rv.IsNil() }},
		{"bool->int64 fails", true, targets("int64"), false, nil},
		{"string->int64 fails", "12", targets("int64"), false, nil},
		{"int64->bool fails", i64, targets("bool"), false, nil},
		{"slice->int64 fails", []interface{}{i64}, targets("int64"), false, nil},
		{"map->[]int64 fails", map[interface{}]interface{}{}, targets("[]int64"), false, nil},
		{"string->[]byte", "ab", targets("[]byte"), true, func(rv reflect.Value) bool { return rv.Len() == 2 && rv.Index(0).Uint() == 'a' }},
		{"1-char string->uint8", "a", targets("uint8"), true, func(rv reflect.Value) bool { return rv.Uint() == 'a' }},
		{"1-char string->int32", "a", targets("int32"), true, func(rv reflect.Value) bool { return rv.Int() == 'a' }},
		{"2-char string->uint8 fails", "ab", targets("uint8"), false, nil},
		{"[]interface{}->[]int64 element-wise", []interface{}{i64, 2.5}, targets("[]int64"), true, func(rv reflect.Value) bool {
			return rv.Len() == 2 && rv.Index(0).Int() == i64 && rv.Index(1).Int() == 2
		}},
		{"[]interface{} with string->[]int64 fails", []interface{}{i64, "x"}, targets("[]int64"), false, nil},
		{"[]interface{}->[]string", []interface{}{"a", "b"}, targets("[]string"), true, func(rv reflect.Value) bool { return rv.Len() == 2 && rv.Index(1).String() == "b" }},
		{"[]int64->[]interface{}", []int64{i64}, targets("[]interface{}"), true, func(rv reflect.Value) bool {
			e := rv.Index(0).Elem()
			return rv.Len() == 1 && e.Kind() == reflect.Int64 && e.Int() == i64
		}},
		{"map->map[string]int64 element-wise", map[interface{}]interface{}{"k": i64}, targets("map[string]int64"), true, func(rv reflect.Value) bool {
			v := rv.MapIndex(reflect.ValueOf("k"))
			return rv.Len() == 1 && v.IsValid() && v.Int() == i64
		}},
		{"map with a nil value->map[string]int64 keeps the entry as zero", map[interface{}]interface{}{"a": i64, "b": nil}, targets("map[string]int64"), true, func(rv reflect.Value) bool {
			b := rv.MapIndex(reflect.ValueOf("b"))
			return rv.Len() == 2 && b.IsValid() && b.Int() == 0
		}},
		{"slice with a nil element->[]int64 keeps the element as zero", []interface{}{i64, nil}, targets("[]int64"), true, func(rv reflect.Value) bool {
			return rv.Len() == 2 && rv.Index(1).Int() == 0
		}},
		{"map with bool key->map[string]int64 fails", map[interface{}]interface{}{true: i64}, targets("map[string]int64"), false, nil},
		{"int64->interface{} unchanged", i64, targets("interface{}"), true, func(rv reflect.Value) bool { return rv.Kind() == reflect.Int64 && rv.Int() == i64 }},
		{"string->string", "s", targets("string"), true, func(rv reflect.Value) bool { return rv.String() == "s" }},
		{"empty list->[]int64 is empty, not nil", []interface{}{}, targets("[]int64"), true, func(rv reflect.Value) bool { return rv.Len() == 0 && !rv.IsNil() }},
		{"empty list->[]string is empty, not nil", []interface{}{}, targets("[]string"), true, func(rv reflect.Value) bool { return rv.Len() == 0 && !rv.IsNil() }},
		{"empty typed slice->[]interface{} is empty, not nil", []int64{}, targets("[]interface{}"), true, func(rv reflect.Value) bool { return rv.Len() == 0 && !rv.IsNil() }},
		{"empty map->map[string]int64 is empty, not nil", map[interface{}]interface{}{}, targets("map[string]int64"), true, func(rv reflect.Value) bool { return rv.Len() == 0 && !rv.IsNil() }},
		{"3-element slice->[3]int64 element-wise", []interface{}{i64, int64(2), 3.5}, targets("[3]int64"), true, func(rv reflect.Value) bool {
			return rv.Len() == 3 && rv.Index(0).Int() == i64 && rv.Index(1).Int() == 2 && rv.Index(2).Int() == 3
		}},
		{"5-element slice->[3]int64 fails", []interface{}{i64, int64(2), int64(3), int64(4), int64(5)}, targets("[3]int64"), false, nil},
		{"5-element []int64->[3]int64 fails", []int64{i64, 2, 3, 4, 5}, targets("[3]int64"), false, nil},
		{"string->[3]int64 fails", "abc", targets("[3]int64"), false, nil},
	}
	r := rows[zz.Choose(len(rows))]
	var src reflect.Value
	if r.src == nil {
		src = nilValue
	} else {
		src = reflect.ValueOf(r.src)
	}
	rt := zzTargetType(r.ti)
	rv, err := convertReflectValueToType(src, rt)
	zz.Assert((err == nil) == r.ok, "C11.convert-table/convertible-iff-go-converts/"+r.name)
	if err == nil && r.ok {
		zz.Assert(rv.Type() == rt || rt == interfaceType, "C11.convert-table/exact-target-type/"+r.name)
		zz.Assert(r.check(rv), "C11.convert-table/value/"+r.name)
	}
}

// ---- call lemma: host functions record what they receive

type zzRecorder struct {
	i8  int8
	i32 int32
	u16 uint16
	f32 float32
	f64 float64
	s   string
	b   bool
	any interface{}
	is  []int64
	vs  []interface{}
	n   int
}

type zzBox struct {
	A int64
	B string
	c int64
}

func (b zzBox) Val() int64            { return b.A }
func (b *zzBox) Set(v int64)          { b.A = v }
func (b *zzBox) Twice() int64         { return 2 * b.A }
func (b zzBox) Pair() (int64, string) { return b.A, b.B }

// receivers that are not structs: methods of Go values reached with member
// syntax are the value's own method set whatever its kind
type zzStack []int64

func (s *zzStack) Push(vs ...int64) int64 { *s = append(*s, vs...); return int64(len(*s)) }
func (s zzStack) Top() int64              { return s[len(s)-1] }

type zzCounter int64

func (c *zzCounter) Add(d int64) int64 { *c += zzCounter(d); return int64(*c) }
func (c zzCounter) Get() int64         { return int64(c) }

type zzDict map[string]int64

func (d zzDict) Put(k string, v int64) { d[k] = v }

type zzOuter struct {
	zzBox
	N int64
}

type zzOuterP struct {
	*zzBox
	N int64
}

// ZZ_C11_methods_of_other_kinds: pointer- and value-receiver methods on a
// pointer to a named slice / integer, on a named map, promoted through an
// embedded struct; plain, spread and through a container.
func ZZ_C11_methods_of_other_kinds() {
	a, w := zz.Int64(), zz.Int64()
	st := &zzStack{a}
	cn := new(zzCounter)
	*cn = zzCounter(a)
	dc := zzDict{}
	out := &zzOuter{zzBox: zzBox{A: a, B: "b"}, N: 1}
	e := env.NewEnv()
	e.Define("st", st)
	e.Define("cn", cn)
	e.Define("dc", dc)
	e.Define("out", out)
	e.Define("W", w)
	e.Define("outp", &zzOuterP{N: 1}) // the embedded pointer is nil
	switch zz.Choose(15) {
	case 10:
		// member syntax reads the value's *exported* fields: an unexported one is an error, never a crash
		_, err := Execute(e, nil, "out.c")
		zz.Assert(err != nil, "C11.member/unexported-field-is-error")
	case 11:
		_, err := Execute(e, nil, "x = out.zzBox; 1")
		zz.Assert(err != nil, "C11.member/unexported-field-is-error")
	case 12:
		_, err := Execute(e, nil, "[out.c]")
		zz.Assert(err != nil, "C11.member/unexported-field-is-error")
	case 13:
		// a field promoted through a nil embedded pointer does not exist in this value
		_, err := Execute(e, nil, "outp.A")
		zz.Assert(err != nil, "C11.member/field-through-nil-embedded-pointer-is-error")
		r, err2 := Execute(e, nil, "outp.N")
		zz.Assert(err2 == nil && r == int64(1), "C11.member/own-field-next-to-nil-embedded-pointer")
	case 14:
		_, err := Execute(e, nil, "outp.A = W")
		zz.Assert(err != nil, "C11.member/field-through-nil-embedded-pointer-is-error")
	case 0:
		r, err := Execute(e, nil, "st.Push(W)")
		zz.Assert(err == nil && r == int64(2) && len(*st) == 2 && (*st)[1] == w, "C11.method/pointer-receiver-on-pointer-to-named-slice")
	case 1:
		r, err := Execute(e, nil, "st.Push([W, 7]...)")
		zz.Assert(err == nil && r == int64(3) && len(*st) == 3 && (*st)[1] == w && (*st)[2] == 7, "C11.method/pointer-receiver-on-pointer-to-named-slice/spread")
	case 2:
		r, err := Execute(e, nil, "st.Top()")
		x, ok := r.(int64)
		zz.Assert(err == nil && ok && x == a, "C11.method/value-receiver-through-pointer-to-named-slice")
	case 3:
		r, err := Execute(e, nil, "cn.Add(W)")
		x, ok := r.(int64)
		zz.Assert(err == nil && ok && x == a+w && int64(*cn) == a+w, "C11.method/pointer-receiver-on-pointer-to-named-integer")
	case 4:
		r, err := Execute(e, nil, "cn.Get()")
		x, ok := r.(int64)
		zz.Assert(err == nil && ok && x == a, "C11.method/value-receiver-through-pointer-to-named-integer")
	case 5:
		_, err := Execute(e, nil, "dc.Put(\"k\", W)")
		zz.Assert(err == nil && dc["k"] == w, "C11.method/value-receiver-on-named-map")
	case 6:
		r, err := Execute(e, nil, "out.Val()")
		x, ok := r.(int64)
		zz.Assert(err == nil && ok && x == a, "C11.method/promoted-value-receiver")
	case 7:
		_, err := Execute(e, nil, "out.Set(W)")
		zz.Assert(err == nil && out.A == w, "C11.method/promoted-pointer-receiver")
	case 8:
		r, err := Execute(e, nil, "[st][0].Push(W)")
		zz.Assert(err == nil && r == int64(2) && len(*st) == 2, "C11.method/pointer-receiver-through-container")
	case 9:
		r, err := Execute(e, nil, "out.A")
		x, ok := r.(int64)
		zz.Assert(err == nil && ok && x == a, "C11.member/promoted-field")
		_, err = Execute(e, nil, "out.N = W")
		zz.Assert(err == nil && out.N == w, "C11.member/write-own-field-next-to-embedded")
	}
}

// ZZ_C11_calls: arguments arrive converted, for fixed / variadic functions and
// plain / spread calls; all results come back.
func ZZ_C11_calls() {
	rec := &zzRecorder{}
	e := env.NewEnv()
	e.Define("fixed", func(a int8, b int32, c uint16, d float32, s string, t bool) {
		rec.i8, rec.i32, rec.u16, rec.f32, rec.s, rec.b = a, b, c, d, s, t
		rec.n++
	})
	e.Define("anyf", func(x interface{}) interface{} { rec.any = x; rec.n++; return x })
	e.Define("variadic", func(first int64, rest ...int64) int64 {
		rec.is = append([]int64{first}, rest...)
		rec.n++
		return int64(len(rest))
	})
	e.Define("variadicAny", func(xs ...interface{}) int { rec.vs = xs; rec.n++; return len(xs) })
	e.Define("sliceparam", func(xs []int64) int64 { rec.is = xs; rec.n++; return int64(len(xs)) })
	e.Define("none", func() {})
	e.Define("two", func(a int64) (int64, string) { return a + 1, "s" })
	e.Define("three", func() (int64, float64, bool) { return 1, 2.5, true })
	e.Define("witherr", func(fail bool) (int64, error) {
		if fail {
			return 0, errors.New("host error")
		}
		return 7, nil
	})
	// several results, some of them nil values of a type
	e.Define("nilresults", func() ([]int64, map[string]int64, *zzBox, error) { return nil, nil, nil, nil })
	e.Define("sliceerr", func(n int64) ([]int64, error) {
		if n == 0 {
			return nil, nil
		}
		return []int64{n}, nil
	})
	v, w := zz.Int64(), zz.Int64()
	f := zz.Float64()
	e.Define("V", v)
	e.Define("W", w)
	e.Define("F", f)
	switch zz.Choose(15) {
	case 13:
		r, err := Execute(e, nil, "nilresults()")
		l, ok := r.([]interface{})
		zz.Assert(err == nil && ok && len(l) == 4, "C11.results/four-results-as-list")
		if ok && len(l) == 4 {
			zz.Assert(l[0] != nil && reflect.TypeOf(l[0]) == reflect.TypeOf([]int64(nil)), "C11.results/nil-slice-result-keeps-its-type")
			zz.Assert(l[1] != nil && reflect.TypeOf(l[1]) == reflect.TypeOf(map[string]int64(nil)), "C11.results/nil-map-result-keeps-its-type")
			zz.Assert(l[2] == interface{}((*zzBox)(nil)) && l[2] != nil, "C11.results/nil-pointer-result-keeps-its-type")
			zz.Assert(l[3] == nil, "C11.results/nil-error-result-is-nil")
		}
	case 14:
		r, err := Execute(e, nil, "xs, err = sliceerr(0); [len(xs), err]")
		l, ok := r.([]interface{})
		zz.Assert(err == nil && ok && len(l) == 2 && l[0] == int64(0) && l[1] == nil, "C11.results/nil-slice-result-usable-as-slice")
		r, err = Execute(e, nil, "xs, err = sliceerr(V); len(xs)")
		zz.Assert(err == nil && (r == int64(1) || r == int64(0)), "C11.results/slice-result-usable-as-slice")
		r, err = Execute(e, nil, "m, e2 = nilresults()[1], nil; m[\"k\"]")
		zz.Assert(err == nil && r == nil, "C11.results/nil-map-result-reads-as-missing")
	case 0:
		_, err := Execute(e, nil, "fixed(V, W, V, F, \"s\", true)")
		zz.Assert(err == nil && rec.n == 1, "C11.call/fixed/runs")
		zz.Assert(zz.And(zz.And(rec.i8 == int8(v), rec.i32 == int32(w)), rec.u16 == uint16(v)), "C11.call/fixed/integers-converted-as-go")
		zz.Assert(zzSameFloat(float64(rec.f32), float64(float32(f))), "C11.call/fixed/float-converted-as-go")
		zz.Assert(rec.s == "s" && rec.b, "C11.call/fixed/string-bool")
	case 1:
		_, err := Execute(e, nil, "fixed(F, F, F, V, \"s\", false)")
		zz.Assert(err == nil && rec.n == 1, "C11.call/fixed-from-float/runs")
		zz.Assert(zz.And(rec.i8 == int8(f), rec.i32 == int32(f)), "C11.call/fixed-from-float/converted-as-go")
		zz.Assert(zzSameFloat(float64(rec.f32), float64(float32(v))), "C11.call/fixed-from-float/int-to-float32")
	case 2:
		// (an integer for a string parameter converts as Go's string(rune) does;
		// a map has no conversion to string)
		_, err := Execute(e, nil, "fixed(V, W, V, F, {}, true)")
		zz.Assert(err != nil && rec.n == 0, "C11.call/no-conversion-is-error-and-callee-not-entered")
	case 3:
		r, err := Execute(e, nil, "variadic(V, W, 3)")
		ri, _ := r.(int64)
		zz.Assert(err == nil && ri == 2 && len(rec.is) == 3, "C11.call/variadic/runs")
		if len(rec.is) == 3 {
			zz.Assert(zz.And(rec.is[0] == v, rec.is[1] == w) && rec.is[2] == 3, "C11.call/variadic/exactly-the-supplied-arguments")
		}
	case 4:
		r, err := Execute(e, nil, "variadic(V)")
		ri, _ := r.(int64)
		zz.Assert(err == nil && ri == 0 && len(rec.is) == 1 && rec.is[0] == v, "C11.call/variadic/empty-tail")
	case 5:
		r, err := Execute(e, nil, "variadic(V, [W, 4]...)")
		ri, _ := r.(int64)
		zz.Assert(err == nil && ri == 2 && len(rec.is) == 3, "C11.call/variadic-spread/runs")
		if len(rec.is) == 3 {
			zz.Assert(zz.And(rec.is[0] == v, rec.is[1] == w) && rec.is[2] == 4, "C11.call/variadic-spread/tail-elements")
		}
	case 6:
		r, err := Execute(e, nil, "variadicAny(V, \"s\", nil, [1])")
		ri, _ := r.(int)
		zz.Assert(err == nil && ri == 4 && len(rec.vs) == 4, "C11.call/variadic-any/runs")
		if len(rec.vs) == 4 {
			x, isInt := rec.vs[0].(int64)
			zz.Assert(isInt && x == v && rec.vs[1] == "s" && rec.vs[2] == nil, "C11.call/variadic-any/values-and-types")
		}
	case 7:
		r, err := Execute(e, nil, "sliceparam([V, F, 3])")
		ri, _ := r.(int64)
		zz.Assert(err == nil && ri == 3 && len(rec.is) == 3, "C11.call/slice-param/runs")
		if len(rec.is) == 3 {
			zz.Assert(zz.And(rec.is[0] == v, rec.is[1] == int64(f)), "C11.call/slice-param/element-wise-conversion")
		}
	case 8:
		r, err := Execute(e, nil, "none()")
		zz.Assert(err == nil && r == nil, "C11.results/none-is-nil")
	case 9:
		r, err := Execute(e, nil, "two(V)")
		l, ok := r.([]interface{})
		zz.Assert(err == nil && ok && len(l) == 2, "C11.results/several-as-list")
		if ok && len(l) == 2 {
			x, isInt := l[0].(int64)
			zz.Assert(isInt && x == v+1 && l[1] == "s", "C11.results/several-in-order")
		}
	case 10:
		r, err := Execute(e, nil, "three()")
		l, ok := r.([]interface{})
		zz.Assert(err == nil && ok && len(l) == 3 && l[0] == int64(1) && l[1] == 2.5 && l[2] == true, "C11.results/three")
	case 11:
		r, err := Execute(e, nil, "anyf(V)")
		x, isInt := r.(int64)
		y, recInt := rec.any.(int64)
		zz.Assert(err == nil && isInt && x == v && recInt && y == v, "C11.identity/through-go-function")
	case 12:
		r, err := Execute(e, nil, "witherr(false)")
		l, ok := r.([]interface{})
		zz.Assert(err == nil && ok && len(l) == 2 && l[0] == int64(7) && l[1] == nil, "C11.results/value-and-nil-error")
	}
}

// ZZ_C11_identity_members: Go values keep identity and dynamic type; member
// syntax reads exported fields and, through a pointer, writes them; value and
// pointer receiver methods are found and called with the receiver.
func ZZ_C11_identity_members() {
	a := zz.Int64()
	box := &zzBox{A: a, B: "b"}
	e := env.NewEnv()
	e.Define("box", box)
	e.Define("val", zzBox{A: a, B: "v"})
	ts := []int64{a, 2}
	e.Define("ts", ts)
	hostErr := errors.New("host")
	e.Define("herr", hostErr)
	e.Define("id", func(x interface{}) interface{} { return x })
	w := zz.Int64()
	e.Define("W", w)
	// typed nil values are values of their type, not the untyped nil
	e.Define("nilbox", (*zzBox)(nil))
	e.Define("nilchan", (chan int64)(nil))
	e.Define("nilfunc", (func(int64) int64)(nil))
	e.Define("nilslice", []int64(nil))
	e.Define("nilmap", map[string]int64(nil))
	switch zz.Choose(19) {
	case 13:
		r, err := Execute(e, nil, "nilbox")
		zz.Assert(err == nil && r == interface{}((*zzBox)(nil)) && r != nil, "C11.identity/typed-nil-pointer-keeps-its-type")
		x, gerr := e.Get("nilbox")
		zz.Assert(gerr == nil && x == interface{}((*zzBox)(nil)) && x != nil, "C11.identity/typed-nil-pointer-define-get")
		zz.Assert(e.Set("nilbox", (*zzBox)(nil)) == nil, "C11.identity/typed-nil-pointer-set")
		x, gerr = e.Get("nilbox")
		zz.Assert(gerr == nil && x == interface{}((*zzBox)(nil)) && x != nil, "C11.identity/typed-nil-pointer-set-get")
	case 14:
		r, err := Execute(e, nil, "nilchan")
		zz.Assert(err == nil && r == interface{}((chan int64)(nil)) && r != nil, "C11.identity/typed-nil-channel-keeps-its-type")
		r, err = Execute(e, nil, "len(nilchan)")
		zz.Assert(err == nil && r == int64(0), "C11.identity/len-of-nil-channel")
	case 15:
		r, err := Execute(e, nil, "nilfunc")
		zz.Assert(err == nil && r != nil && reflect.TypeOf(r) == reflect.TypeOf((func(int64) int64)(nil)), "C11.identity/typed-nil-func-keeps-its-type")
	case 16:
		r, err := Execute(e, nil, "nilslice")
		zz.Assert(err == nil && r != nil && reflect.TypeOf(r) == reflect.TypeOf([]int64(nil)), "C11.identity/typed-nil-slice-keeps-its-type")
		r, err = Execute(e, nil, "id(nilslice)")
		zz.Assert(err == nil && r != nil && reflect.TypeOf(r) == reflect.TypeOf([]int64(nil)), "C11.identity/typed-nil-slice-through-go-identity")
		r, err = Execute(e, nil, "len(nilslice)")
		zz.Assert(err == nil && r == int64(0), "C11.identity/len-of-nil-slice")
	case 17:
		r, err := Execute(e, nil, "nilmap")
		zz.Assert(err == nil && r != nil && reflect.TypeOf(r) == reflect.TypeOf(map[string]int64(nil)), "C11.identity/typed-nil-map-keeps-its-type")
		r, err = Execute(e, nil, "[nilmap][0]")
		zz.Assert(err == nil && r != nil && reflect.TypeOf(r) == reflect.TypeOf(map[string]int64(nil)), "C11.identity/typed-nil-map-through-container")
	case 18:
		r, err := Execute(e, nil, "[nilbox, nilchan][0]")
		zz.Assert(err == nil && r == interface{}((*zzBox)(nil)) && r != nil, "C11.identity/typed-nil-pointer-through-container")
		r, err = Execute(e, nil, "id(nilbox)")
		zz.Assert(err == nil && r == interface{}((*zzBox)(nil)) && r != nil, "C11.identity/typed-nil-pointer-through-go-identity")
	case 0:
		r, err := Execute(e, nil, "box")
		zz.Assert(err == nil && r == interface{}(box), "C11.identity/define-get-same-pointer")
	case 1:
		r, err := Execute(e, nil, "[box][0]")
		zz.Assert(err == nil && r == interface{}(box), "C11.identity/through-container")
	case 2:
		r, err := Execute(e, nil, "id(box)")
		zz.Assert(err == nil && r == interface{}(box), "C11.identity/through-go-identity")
	case 3:
		r, err := Execute(e, nil, "ts")
		got, ok := r.([]int64)
		zz.Assert(err == nil && ok && len(got) == 2 && &got[0] == &ts[0], "C11.identity/typed-slice-same-storage-and-type")
	case 4:
		r, err := Execute(e, nil, "herr")
		zz.Assert(err == nil && r == interface{}(hostErr), "C11.identity/error-value")
	case 5:
		r, err := Execute(e, nil, "box.A")
		x, ok := r.(int64)
		zz.Assert(err == nil && ok && x == a, "C11.member/read-exported-field-through-pointer")
	case 6:
		r, err := Execute(e, nil, "val.B")
		zz.Assert(err == nil && r == "v", "C11.member/read-exported-field-of-value")
	case 7:
		_, err := Execute(e, nil, "box.A = W")
		zz.Assert(err == nil && box.A == w, "C11.member/write-through-pointer")
	case 8:
		_, err := Execute(e, nil, "box.A = \"notanumber\"")
		zz.Assert(err != nil && box.A == a, "C11.member/ill-typed-write-is-error-and-leaves-field")
	case 9:
		r, err := Execute(e, nil, "box.Val()")
		x, ok := r.(int64)
		zz.Assert(err == nil && ok && x == a, "C11.method/value-receiver-through-pointer")
	case 10:
		_, err := Execute(e, nil, "box.Set(W)")
		zz.Assert(err == nil && box.A == w, "C11.method/pointer-receiver-called-with-receiver")
	case 11:
		r, err := Execute(e, nil, "val.Twice()")
		x, ok := r.(int64)
		zz.Assert(err == nil && ok && x == 2*a, "C11.method/pointer-receiver-on-value-copy")
	case 12:
		r, err := Execute(e, nil, "box.Pair()")
		l, ok := r.([]interface{})
		zz.Assert(err == nil && ok && len(l) == 2 && l[1] == "b", "C11.method/several-results")
		_, err = Execute(e, nil, "box.nosuch")
		zz.Assert(err != nil, "C11.member/unknown-member-is-error")
	}
}

// ZZ_C11_callbacks: a script function handed to Go as a callback of a func
// type is invoked with the arguments Go passes, its result is converted to
// the declared return types, an error inside it surfaces as an error of the
// enclosing call.
func ZZ_C11_callbacks() {
	x, y := zz.Int64(), zz.Int64()
	e := env.NewEnv()
	var got int64
	var gotF float64
	var gotS string
	e.Define("apply", func(f func(int64) int64) int64 { got = f(x); return got })
	e.Define("apply2", func(f func(a, b int64) float64) { gotF = f(x, y) })
	e.Define("applyS", func(f func(string) string) { gotS = f("in") })
	e.Define("applyPair", func(f func(int64) (int64, string)) string { a, b := f(x); got = a; return b })
	e.Define("applyVoid", func(f func()) { f() })
	var seen int64
	e.Define("see", func(v int64) { seen = v })
	e.Define("applyV", func(f func(...int64) int64) int64 { got = f(x, y, 7); return got })
	e.Define("applySV", func(f func(string, ...int64) int64) int64 { got = f("s", x, y); return got })
	switch zz.Choose(20) {
	case 19:
		// an error inside a callback surfaces as an error of the enclosing call for
		// every result list of the func type - also one that ends in `error`, where
		// a host iterator written in Go would otherwise swallow it (filepath.Walk
		// style: keeps going, counts failures) - and nothing runs after it: no
		// further callback invocation, no statement after the call
		var calls, after int64
		e.Define("after", func() { after++ })
		hosts := []struct{ name, call string }{
			{"func()", "eachVoid"}, {"func(int64) int64", "eachInt"}, {"func(int64) error", "eachErr"}, {"func(int64) (int64, error)", "eachIntErr"},
			{"func(int64) interface{}", "eachAny"}, {"func(int64) bool", "eachBool"}, {"func(...int64) error", "eachVarErr"}, {"func(int64) (string, int64)", "eachPair"},
		}
		e.Define("eachVoid", func(f func()) int64 {
			for i := 0; i < 3; i++ {
				calls++
				f()
			}
			return calls
		})
		e.Define("eachInt", func(f func(int64) int64) int64 {
			for i := 0; i < 3; i++ {
				calls++
				f(x)
			}
			return calls
		})
		e.Define("eachErr", func(f func(int64) error) int64 {
			failed := int64(0)
			for i := 0; i < 3; i++ {
				calls++
				if f(x) != nil {
					failed++
				}
			}
			return failed
		})
		e.Define("eachIntErr", func(f func(int64) (int64, error)) int64 {
			for i := 0; i < 3; i++ {
				calls++
				if _, err := f(x); err != nil {
					continue
				}
			}
			return calls
		})
		e.Define("eachAny", func(f func(int64) interface{}) int64 {
			for i := 0; i < 3; i++ {
				calls++
				f(x)
			}
			return calls
		})
		e.Define("eachBool", func(f func(int64) bool) int64 {
			for i := 0; i < 3; i++ {
				calls++
				f(x)
			}
			return calls
		})
		e.Define("eachVarErr", func(f func(...int64) error) int64 {
			for i := 0; i < 3; i++ {
				calls++
				_ = f(x, y)
			}
			return calls
		})
		e.Define("eachPair", func(f func(int64) (string, int64)) int64 {
			for i := 0; i < 3; i++ {
				calls++
				f(x)
			}
			return calls
		})
		fails := []struct{ name, body string }{
			{"throw", "throw \"inside\""}, {"undefined-name", "undefined_name"}, {"failing-operator", "1 % 0"}, {"failing-nested-call", "func() { throw \"deep\" }()"},
			{"throw-after-a-caught-one", "try { throw \"a\" } catch e { }; throw \"b\""}, {"rethrow", "try { throw \"a\" } catch e { throw e }"},
		}
		h := hosts[zz.Choose(len(hosts))]
		fl := fails[zz.Choose(len(fails))]
		params := "a"
		if h.name == "func()" {
			params = ""
		}
		if h.name == "func(...int64) error" {
			params = "a..."
		}
		caught := zz.Choose(2) == 1
		src := h.call + "(func(" + params + ") { " + fl.body + " }); after()"
		if caught {
			src = "r = 0; try { " + src + " } catch e { r = 1 }; r"
		}
		id := h.name + "/" + fl.name + []string{"/to-the-host", "/to-a-try"}[zz.Ite(caught, 1, 0)]
		r, err := Execute(e, nil, src)
		if caught {
			ri, _ := r.(int64)
			zz.Assertf(err == nil && ri == 1, "C11.callback/error-inside-reaches-the-nearest-try/"+id, src)
		} else {
			zz.Assertf(err != nil, "C11.callback/error-inside-surfaces-as-error-of-the-call/"+id, src)
		}
		zz.Assertf(calls == 1, "C11.callback/no-invocation-after-the-failing-one/"+id, src)
		zz.Assertf(after == 0, "C11.callback/no-statement-after-the-failing-call/"+id, src)
	case 14:
		r, err := Execute(e, nil, "applyV(func(a...) { return len(a) * 1000 + a[0] - a[1] })")
		ri, ok := r.(int64)
		zz.Assert(err == nil && ok && ri == 3000+x-y, "C11.callback/variadic-go-func-type/variadic-script-function")
	case 15:
		r, err := Execute(e, nil, "applyV(func(a, b...) { return len(b) * 1000 + a - b[0] })")
		ri, ok := r.(int64)
		zz.Assert(err == nil && ok && ri == 2000+x-y, "C11.callback/variadic-go-func-type/leading-parameter")
	case 16:
		r, err := Execute(e, nil, "applySV(func(s, a...) { return len(a) * 1000 + a[0] - a[1] })")
		ri, ok := r.(int64)
		zz.Assert(err == nil && ok && ri == 2000+x-y, "C11.callback/variadic-go-func-type/after-fixed-go-parameter")
	case 17:
		// a non-variadic script function gets Go's variadic arguments as one list
		r, err := Execute(e, nil, "applyV(func(a) { return a[0] - a[1] })")
		ri, ok := r.(int64)
		zz.Assert(err == nil && ok && ri == x-y, "C11.callback/variadic-go-func-type/non-variadic-script-function-gets-the-list")
	case 18:
		r, err := Execute(e, nil, "applySV(func(s, a) { return a[0] - a[1] })")
		ri, ok := r.(int64)
		zz.Assert(err == nil && ok && ri == x-y, "C11.callback/variadic-go-func-type/non-variadic-script-function-gets-the-list")
	case 10:
		// a variadic script function receives the arguments Go passes as its list
		_, err := Execute(e, nil, "apply2(func(a...) { return a[0] - a[1] })")
		zz.Assert(err == nil && zzSameFloat(gotF, float64(x-y)), "C11.callback/variadic-script-function-receives-the-arguments")
	case 11:
		_, err := Execute(e, nil, "apply2(func(a, b...) { return a - b[0] })")
		zz.Assert(err == nil && zzSameFloat(gotF, float64(x-y)), "C11.callback/variadic-script-function-receives-the-arguments")
	case 12:
		r, err := Execute(e, nil, "apply(func(a...) { return a[0] + 1 })")
		ri, ok := r.(int64)
		zz.Assert(err == nil && ok && ri == x+1, "C11.callback/variadic-script-function-receives-the-arguments")
	case 13:
		// a callback of the wrong arity is an error of the call, not a crash
		_, err := Execute(e, nil, "apply2(func(a) { return a })")
		zz.Assert(err != nil, "C11.callback/wrong-arity-is-error")
	case 7:
		_, err := Execute(e, nil, "applyVoid(func() { throw \"inside\" })")
		zz.Assert(err != nil, "C11.callback/error-inside-a-callback-without-results-surfaces")
	case 8:
		_, err := Execute(e, nil, "applyVoid(func() { undefined_name })")
		zz.Assert(err != nil, "C11.callback/error-inside-a-callback-without-results-surfaces")
	case 9:
		_, err := Execute(e, nil, "applyS(func(s) { throw \"inside\" })")
		zz.Assert(err != nil, "C11.callback/error-inside-surfaces-as-error-of-the-call")
	case 0:
		r, err := Execute(e, nil, "apply(func(a) { return a + 1 })")
		ri, ok := r.(int64)
		zz.Assert(err == nil && ok && ri == x+1 && got == x+1, "C11.callback/argument-in-result-out")
	case 1:
		_, err := Execute(e, nil, "apply2(func(a, b) { return a - b })")
		zz.Assert(err == nil && zzSameFloat(gotF, float64(x-y)), "C11.callback/result-converted-to-declared-type")
	case 2:
		_, err := Execute(e, nil, "applyS(func(s) { return s + \"!\" })")
		zz.Assert(err == nil && gotS == "in!", "C11.callback/string")
	case 3:
		r, err := Execute(e, nil, "applyPair(func(a) { return a, \"two\" })")
		zz.Assert(err == nil && r == "two" && got == x, "C11.callback/several-results")
	case 4:
		_, err := Execute(e, nil, "apply(func(a) { throw \"inside\" })")
		zz.Assert(err != nil, "C11.callback/error-inside-surfaces-as-error-of-the-call")
	case 5:
		_, err := Execute(e, nil, "apply(func(a) { return \"notanumber\" })")
		zz.Assert(err != nil, "C11.callback/unconvertible-result-is-error")
	case 6:
		_, err := Execute(e, nil, "applyVoid(func() { see(7) })")
		zz.Assert(err == nil && seen == 7, "C11.callback/no-arguments-no-results")
	}
	_ = ast.Position{}
}

// ---- host values x target types: wherever Go itself converts, the value that arrives is Go's

type zzIntSlice []int

func (s zzIntSlice) Len() int { return len(s) }

type zzLener interface{ Len() int }
type zzName string
type zzNum64 int64
type zzConvErr struct{}

func (zzConvErr) Error() string { return "e" }

// ZZ_C11_host_values_convert_as_go: for every pair (host value, target type) of
// the two pools for which Go's own conversion exists (reflect's ConvertibleTo,
// and the slice is long enough where the target is an array or array pointer),
// convertReflectValueToType succeeds and yields Go's result; the source comes
// plain or out of an interface-typed slot.
func ZZ_C11_host_values_convert_as_go() {
	i64, f64 := zz.Int64(), zz.Float64()
	srcs := []struct {
		name string
		v    interface{}
	}{
		{"[]byte", []byte{'a', 'b'}}, {"[]rune", []rune{'a', 'b'}}, {"named-slice-with-methods", zzIntSlice{3, 1}},
		{"[]int(4)", []int{1, 2, 3, 4}}, {"[]int(2)", []int{1, 2}}, {"named-string", zzName("n")}, {"named-int64", zzNum64(7)},
		{"string", "str"}, {"int64", i64}, {"float64", f64}, {"[2]int64", [2]int64{1, 2}}, {"*struct", &zzRec{A: 1}},
		{"error-struct", zzConvErr{}}, {"bool", true},
	}
	tgts := []struct {
		name string
		t    reflect.Type
	}{
		{"string", reflect.TypeOf("")}, {"[]byte", reflect.TypeOf([]byte(nil))}, {"[]rune", reflect.TypeOf([]rune(nil))},
		{"interface-with-Len", reflect.TypeOf((*zzLener)(nil)).Elem()}, {"error", reflect.TypeOf((*error)(nil)).Elem()},
		{"interface{}", interfaceType}, {"*[4]int", reflect.TypeOf((*[4]int)(nil))}, {"[4]int", reflect.TypeOf([4]int{})},
		{"*[2]int", reflect.TypeOf((*[2]int)(nil))}, {"[]int", reflect.TypeOf([]int(nil))}, {"named-string", reflect.TypeOf(zzName(""))},
		{"named-int64", reflect.TypeOf(zzNum64(0))}, {"int64", reflect.TypeOf(int64(0))}, {"float64", reflect.TypeOf(float64(0))},
		{"named-slice", reflect.TypeOf(zzIntSlice(nil))}, {"*struct", reflect.TypeOf((*zzRec)(nil))}, {"[2]int64", reflect.TypeOf([2]int64{})},
	}
	s := srcs[zz.Choose(len(srcs))]
	t := tgts[zz.Choose(len(tgts))]
	src := reflect.ValueOf(s.v)
	if !src.Type().ConvertibleTo(t.t) {
		return
	}
	if src.Kind() == reflect.Slice {
		// Go's slice -> array / array pointer conversion panics on a short slice
		at := t.t
		if at.Kind() == reflect.Ptr && at.Elem().Kind() == reflect.Array {
			at = at.Elem()
		}
		if at.Kind() == reflect.Array && at != t.t || t.t.Kind() == reflect.Array {
			if src.Len() < at.Len() {
				return
			}
		}
	}
	if src.Kind() == reflect.Slice && t.t.Kind() == reflect.Array {
		return // (element-wise in anko: the convert table has these rows)
	}
	if s.name == "float64" && (t.name == "int64" || t.name == "named-int64") {
		return // (out-of-range floats: platform specific; the numeric lemma covers the rest)
	}
	want := src.Convert(t.t)
	in := src
	id := s.name + "->" + t.name
	if zz.Choose(2) == 1 {
		in = reflect.ValueOf([]interface{}{s.v}).Index(0)
		id += "/from-interface-slot"
	}
	rv, err := convertReflectValueToType(in, t.t)
	zz.Assert(err == nil, "C11.host-values/go-convertible-converts/"+id)
	if err != nil {
		return
	}
	zz.Assert(rv.IsValid() && (rv.Type() == t.t || t.t == interfaceType), "C11.host-values/exact-target-type/"+id)
	if !rv.IsValid() {
		return
	}
	same := false
	switch {
	case s.name == "float64" || s.name == "int64":
		if rv.Kind() == reflect.Interface {
			rv = rv.Elem()
		}
		if want.Kind() == reflect.Interface {
			want = want.Elem()
		}
		switch rv.Kind() {
		case reflect.Int64:
			same = rv.Int() == want.Int()
		case reflect.Float64:
			same = zzSameFloat(rv.Float(), want.Float())
		case reflect.String:
			same = rv.String() == want.String()
		}
	default:
		same = reflect.DeepEqual(rv.Interface(), want.Interface())
	}
	zz.Assert(same, "C11.host-values/value-is-go's-conversion/"+id)
}

// two distinct struct types that print the same (function-local types of one name)
func zzSameNameA(id int64, name string) interface{} {
	type rec struct {
		ID   int64
		Name string
	}
	return &rec{ID: id, Name: name}
}

func zzSameNameB(id int64, name string) interface{} {
	type rec struct {
		Name  string
		Extra int64
		ID    int64
	}
	return &rec{ID: id, Name: name, Extra: -1}
}

// ZZ_C11_members_of_same_named_types: member syntax reads and writes the Go
// value's own fields - also when two struct types of different layout print
// the same (types local to two functions, packages with one base name) and
// members of both are used in one process, in either order.
func ZZ_C11_members_of_same_named_types() {
	i1, i2 := zz.Int64(), zz.Int64()
	e := env.NewEnv()
	a, b := zzSameNameA(i1, "first"), zzSameNameB(i2, "second")
	if zz.Choose(2) == 1 {
		e.Define("a", b)
		e.Define("b", a)
		i1, i2 = i2, i1
	} else {
		e.Define("a", a)
		e.Define("b", b)
	}
	src := "r = [a.ID, b.ID, a.Name, b.Name]; a.ID = 7; b.ID = 8; r += [a.ID, b.ID, a.Name, b.Name]; r"
	res, err := Execute(e, &Options{Debug: false}, src)
	zz.Assertf(err == nil, "C11.members/same-named-types/runs", src)
	if err != nil {
		return
	}
	l, ok := res.([]interface{})
	zz.Assertf(ok && len(l) == 8, "C11.members/same-named-types/result-shape", src)
	if !ok || len(l) != 8 {
		return
	}
	g := func(k int) int64 { x, _ := l[k].(int64); return x }
	s := func(k int) string { x, _ := l[k].(string); return x }
	zz.Assertf(g(0) == i1 && g(1) == i2, "C11.members/same-named-types/reads-each-value's-own-field", src)
	zz.Assertf(g(4) == 7 && g(5) == 8, "C11.members/same-named-types/writes-each-value's-own-field", src)
	zz.Assertf(s(2) == s(6) && s(3) == s(7) && s(2) != s(3), "C11.members/same-named-types/other-fields-untouched", src)
}
