package vm

// The value universe U: "values a script can itself construct ... or Go
// functions over such values" (DESIGN §3.1).  Identical under the engine and
// natively.  Payloads are symbolic where a class has one.

import (
	"errors"
	"reflect"

	"github.com/mattn/anko/ast"
	"github.com/mattn/anko/env"
	zz "github.com/mattn/anko/zzverif"
)

const (
	uNil = iota
	uBool
	uInt64
	uFloat64
	uStringEmpty
	uStringABC
	uStringNumeral
	uSliceEmpty
	uSlice2
	uSliceInt64
	uSlicePtrNil // []*int64 with a nil element
	uSliceNested
	uMapEmpty
	uMap1
	uMapStringInt
	uPtrIface   // what &x yields
	uPtrInt64   // what new(int64) yields
	uPtrNilElem // a nil *int64
	uChanOpen
	uChanClosed
	uFunc0
	uFunc1
	uFuncVar
	uFunc5
	uGoIdentity
	uGoVariadic
	uGoPanics
	uGoErr
	uModule
	uError
	uStructPtr
	uInt32
	uUint8
	uFloat32
	uMapInt64Str   // make(map[int64]string) with an entry: a key type member syntax cannot spell
	uMapNilTyped   // element of a fresh []map[string]interface{}: a nil map
	uSliceNilTyped // element of a fresh [][]int64: a nil slice
	uStructVal     // what make(T) yields for a struct type: an addressable struct value
	uNamedInt64    // a value of a defined integer type with a method (time.Duration is one)
	uNamedString   // a value of a defined string type
	uNumClasses
)

var uNames = []string{"nil", "bool", "int64", "float64", "string-empty", "string-abc", "string-numeral", "slice-empty", "slice2",
	"[]int64", "[]*int64-nil-elem", "[][]interface{}", "map-empty", "map1", "map[string]int64", "*interface{}", "*int64", "nil-*int64",
	"chan-open", "chan-closed", "func0", "func1", "func-variadic", "func5", "go-identity", "go-variadic", "go-panics", "go-err",
	"module", "error", "*struct", "int32", "uint8", "float32", "map[int64]string", "nil-map", "nil-[]int64", "struct-value", "named-int64", "named-string"}

// a small subset used for the positions that are not being varied
var uBenign = []int{uInt64, uSlice2, uStringABC}

func zzScriptFunc(nparams int, variadic bool) reflect.Value {
	params := []string{"p0", "p1", "p2", "p3", "p4", "p5"}[:nparams]
	var body ast.Stmt
	if nparams > 0 {
		body = &ast.ReturnStmt{Exprs: []ast.Expr{zzIdent("p0")}}
	} else {
		body = &ast.ReturnStmt{Exprs: []ast.Expr{zzLit(int64(1))}}
	}
	rv, _ := zzEval(env.NewEnv(), &ast.FuncExpr{Params: params, Stmt: body, VarArg: variadic})
	return rv
}

// payload tape: zzValueOf draws its symbolic payloads through these, so a
// value can be built twice (in two fresh environments) with equal payloads.
var (
	zzTapeOn   bool
	zzTapePos  int
	zzTapeI64  []int64
	zzTapeF64  []float64
	zzTapeBool []bool
	zzTapeI32  []int32
	zzTapeU8   []uint8
)

func zzTapeStart() {
	zzTapeOn, zzTapePos = false, 0
	zzTapeI64, zzTapeF64, zzTapeBool, zzTapeI32, zzTapeU8 = nil, nil, nil, nil, nil
}
func zzTapeReplay() { zzTapeOn, zzTapePos = true, 0 }

func zzI64() int64 {
	if zzTapeOn {
		v := zzTapeI64[zzTapePos%len(zzTapeI64)]
		zzTapePos++
		return v
	}
	v := zz.Int64()
	zzTapeI64 = append(zzTapeI64, v)
	return v
}
func zzF64() float64 {
	if zzTapeOn {
		return zzTapeF64[0]
	}
	v := zz.Float64()
	zzTapeF64 = append(zzTapeF64, v)
	return v
}
func zzB() bool {
	if zzTapeOn {
		return zzTapeBool[0]
	}
	v := zz.Bool()
	zzTapeBool = append(zzTapeBool, v)
	return v
}
func zzI32() int32 {
	if zzTapeOn {
		return zzTapeI32[0]
	}
	v := zz.Int32()
	zzTapeI32 = append(zzTapeI32, v)
	return v
}
func zzU8() uint8 {
	if zzTapeOn {
		return zzTapeU8[0]
	}
	v := zz.Uint8()
	zzTapeU8 = append(zzTapeU8, v)
	return v
}

type zzPair struct {
	A int64
	B []int64
}

func zzGoIdentity(x interface{}) interface{} { return x }
func zzGoVariadic(xs ...interface{}) int     { return len(xs) }
func zzGoPanics(x interface{}) interface{}   { panic("zzGoPanics") }
func zzGoErr(s string) (interface{}, error) {
	if s == "" {
		return nil, errors.New("zzGoErr")
	}
	return s, nil
}

// zzValueOf returns the reflect.Value of class c as an evaluation would
// deliver it.
func zzValueOf(c int) reflect.Value {
	switch c {
	case uNil:
		return nilValue
	case uBool:
		return reflect.ValueOf(zzB())
	case uInt64:
		return reflect.ValueOf(zzI64())
	case uFloat64:
		return reflect.ValueOf(zzF64())
	case uStringEmpty:
		return reflect.ValueOf("")
	case uStringABC:
		return reflect.ValueOf("abc")
	case uStringNumeral:
		return reflect.ValueOf("12")
	case uSliceEmpty:
		return reflect.ValueOf([]interface{}{})
	case uSlice2:
		return reflect.ValueOf([]interface{}{zzI64(), "s"})
	case uSliceInt64:
		return reflect.ValueOf([]int64{zzI64(), 2})
	case uSlicePtrNil:
		return reflect.ValueOf(make([]*int64, 1))
	case uSliceNested:
		return reflect.ValueOf([][]interface{}{{int64(1)}, {}})
	case uMapEmpty:
		return reflect.ValueOf(map[interface{}]interface{}{})
	case uMap1:
		return reflect.ValueOf(map[interface{}]interface{}{"k": zzI64()})
	case uMapStringInt:
		return reflect.ValueOf(map[string]int64{"k": 1})
	case uPtrIface:
		var x interface{} = zzI64()
		return reflect.ValueOf(&x)
	case uPtrInt64:
		return reflect.ValueOf(new(int64))
	case uPtrNilElem:
		return reflect.ValueOf((*int64)(nil))
	case uChanOpen:
		ch := make(chan interface{}, 2)
		ch <- int64(5)
		return reflect.ValueOf(ch)
	case uChanClosed:
		ch := make(chan interface{}, 1)
		close(ch)
		return reflect.ValueOf(ch)
	case uFunc0:
		return zzScriptFunc(0, false)
	case uFunc1:
		return zzScriptFunc(1, false)
	case uFuncVar:
		return zzScriptFunc(1, true)
	case uFunc5:
		return zzScriptFunc(5, false)
	case uGoIdentity:
		return reflect.ValueOf(zzGoIdentity)
	case uGoVariadic:
		return reflect.ValueOf(zzGoVariadic)
	case uGoPanics:
		return reflect.ValueOf(zzGoPanics)
	case uGoErr:
		return reflect.ValueOf(zzGoErr)
	case uModule:
		m := env.NewEnv()
		m.Define("x", int64(1))
		return reflect.ValueOf(m)
	case uError:
		return reflect.ValueOf(errors.New("boom"))
	case uStructPtr:
		return reflect.ValueOf(&zzPair{A: 1, B: []int64{1}})
	case uInt32:
		return reflect.ValueOf(zzI32())
	case uUint8:
		return reflect.ValueOf(zzU8())
	case uFloat32:
		return reflect.ValueOf(float32(1.5))
	case uMapInt64Str:
		return reflect.ValueOf(map[int64]string{1: "a"})
	case uMapNilTyped:
		return reflect.ValueOf(make([]map[string]interface{}, 1)).Index(0)
	case uSliceNilTyped:
		return reflect.ValueOf(make([][]int64, 1)).Index(0)
	case uStructVal:
		return reflect.New(reflect.TypeOf(zzPair{})).Elem()
	case uNamedInt64:
		return reflect.ValueOf(zzDur(zzI64()))
	case uNamedString:
		return reflect.ValueOf(zzLabel("lbl"))
	}
	return nilValue
}

// provenance wrappers
const (
	pPlain     = iota
	pIfaceElem // element of a []interface{}: Kind Interface, addressable, settable
	pNum
)

var pNames = []string{"plain", "iface-elem"}

// zzOperand delivers the class-c value through provenance p.
func zzOperand(c, p int) reflect.Value {
	v := zzValueOf(c)
	if p == pIfaceElem {
		s := make([]interface{}, 1)
		if v.IsValid() && v.CanInterface() {
			s[0] = v.Interface()
		}
		return reflect.ValueOf(s).Index(0)
	}
	return v
}

// zzWF: the well-formedness every step assumes of its operands and must
// re-establish for its result.
func zzWF(rv reflect.Value) bool {
	return rv.IsValid() && rv.CanInterface()
}

// zzDur, zzLabel: defined scalar types, as the bundled packages hand them to scripts (time.Duration, time.Month ...)
type zzDur int64

func (d zzDur) Twice() int64 { return int64(d) * 2 }

type zzLabel string
