package vm

// C08 (continued): the two parts of the statement that the abstract programs
// of c08_control.go do not reach, because their conditions are Go booleans and
// their loops run over fixed slices:
//
//   - truthiness: the branch / loop decision in every condition position is the
//     truth class of the condition value (nil, booleans, zero / non-zero
//     numbers, empty / non-empty strings, slices, maps), whatever the payload
//     and wherever the value came from;
//   - for-in: a slice is visited in index order, each element bound to the
//     loop variable; a map presents every entry exactly once (in any order)
//     with its own value; break / continue / return / error in the body at
//     visit j act on that loop.

import (
	"fmt"
	"math"
	"reflect"

	"github.com/mattn/anko/ast"
	"github.com/mattn/anko/env"
	zz "github.com/mattn/anko/zzverif"
)

const (
	tNil = iota
	tBool
	tInt64
	tFloat64
	tInt32
	tInt
	tInt8
	tUint8
	tUint64
	tFloat32
	tStrEmpty
	tStrA
	tStrWords
	tSliceEmpty
	tSlice1
	tSliceNilElem
	tTypedSliceEmpty
	tTypedSlice2
	tMapEmpty
	tMap1
	tTypedMapEmpty
	tTypedMap1
	tNum
)

var tNames = []string{"nil", "bool", "int64", "float64", "int32", "int", "int8", "uint8", "uint64", "float32", "empty-string", "string-a", "string-words",
	"empty-slice", "slice-1", "slice-with-nil-element", "empty-typed-slice", "typed-slice-2", "empty-map", "map-1", "empty-typed-map", "typed-map-1"}

// zzTruthValue returns a value of class c and the truth the statement gives it.
func zzTruthValue(c int) (interface{}, bool) {
	switch c {
	case tNil:
		return nil, false
	case tBool:
		b := zz.Bool()
		return b, b
	case tInt64:
		x := zz.Int64()
		return x, x != 0
	case tFloat64:
		x := zz.Float64()
		return x, x != 0
	case tInt32:
		x := zz.Int32()
		return x, x != 0
	case tInt:
		x := zz.Int()
		return x, x != 0
	case tInt8:
		x := zz.Int8()
		return x, x != 0
	case tUint8:
		x := zz.Uint8()
		return x, x != 0
	case tUint64:
		x := zz.Uint64()
		return x, x != 0
	case tFloat32:
		x := zz.Float32()
		return x, x != 0
	case tStrEmpty:
		return "", false
	case tStrA:
		return "a", true
	case tStrWords:
		return "no such thing", true
	case tSliceEmpty:
		return []interface{}{}, false
	case tSlice1:
		return []interface{}{zz.Int64()}, true
	case tSliceNilElem:
		return []interface{}{nil}, true
	case tTypedSliceEmpty:
		return []int64{}, false
	case tTypedSlice2:
		return []int64{0, 0}, true
	case tMapEmpty:
		return map[interface{}]interface{}{}, false
	case tMap1:
		return map[interface{}]interface{}{"k": false}, true
	case tTypedMapEmpty:
		return map[string]int64{}, false
	case tTypedMap1:
		return map[string]int64{"": 0}, true
	}
	return nil, false
}

// zzTruthOperand delivers the value through provenance p: a literal of its own
// type, a literal whose static type is interface{} (what an element of a
// []interface{} or the result of a Go function returning interface{} is), or a
// variable of the environment.
func zzTruthOperand(e *env.Env, v interface{}, p int) ast.Expr {
	switch p {
	case 1:
		s := []interface{}{v}
		return zzLitRV(reflect.ValueOf(s).Index(0))
	case 2:
		e.Define("zzcondv", v)
		return zzIdent("zzcondv")
	}
	if v == nil {
		return zzLitRV(nilValue)
	}
	return zzLit(v)
}

var zzTruthPositions = []string{"if", "else-if", "for-cond", "cfor-cond", "if-after-else-if"}

// ZZ_C08_truthiness: one condition position x one value class x provenance;
// the payload is symbolic.  The program logs 1 when the guarded branch / body
// runs and 2 when the alternative does.
func ZZ_C08_truthiness() {
	pos := zz.Choose(len(zzTruthPositions))
	c := zz.Choose(tNum)
	p := zz.Choose(3)
	e := env.NewEnv()
	e.Define("p", func(tag int64) int64 { zz.Probe(int(tag)); return tag })
	v, truth := zzTruthValue(c)
	cond := zzTruthOperand(e, v, p)
	yes := &ast.StmtsStmt{Stmts: []ast.Stmt{&ast.ExprStmt{Expr: zzProbeCall("p", 1)}}}
	no := &ast.StmtsStmt{Stmts: []ast.Stmt{&ast.ExprStmt{Expr: zzProbeCall("p", 2)}}}
	brk := &ast.StmtsStmt{Stmts: []ast.Stmt{&ast.ExprStmt{Expr: zzProbeCall("p", 1)}, &ast.BreakStmt{}}}
	var prog ast.Stmt
	loop := false
	switch pos {
	case 0:
		prog = &ast.IfStmt{If: cond, Then: yes, Else: no}
	case 1:
		prog = &ast.IfStmt{If: zzLit(false), Then: &ast.StmtsStmt{Stmts: []ast.Stmt{&ast.ExprStmt{Expr: zzProbeCall("p", 3)}}},
			ElseIf: []ast.Stmt{&ast.IfStmt{If: cond, Then: yes}}, Else: no}
	case 2:
		prog, loop = &ast.LoopStmt{Expr: cond, Stmt: brk}, true
	case 3:
		prog, loop = &ast.CForStmt{Expr2: cond, Stmt: brk}, true
	case 4:
		// a truthy `if` keeps a later else-if from being looked at
		prog = &ast.IfStmt{If: cond, Then: yes, ElseIf: []ast.Stmt{&ast.IfStmt{If: zzLit(true), Then: no}}}
	}
	id := zzTruthPositions[pos] + "/" + tNames[c] + "/" + []string{"plain", "iface-elem", "variable"}[p]
	zz.ResetTrace()
	zz.Budget(200000)
	zz.UnwindIsViolation("terminates.C08.truthiness/" + id)
	_, err := Run(e, &Options{Debug: false}, prog)
	zz.Assert(err == nil, "C08.truthiness/no-error/"+id)
	if err != nil {
		return
	}
	tr := zz.Trace()
	took := len(tr) >= 1 && tr[0] == 1
	zz.Assert(took == truth, "C08.truthiness/branch-taken-iff-truthy/"+id)
	if loop {
		// exactly one body run (it breaks) or none; nothing else is logged
		zz.Assert(len(tr) == zz.Ite(truth, 1, 0), "C08.truthiness/loop-body-runs-iff-truthy/"+id)
	} else if pos == 4 {
		// not truthy: the else-if (always true) runs instead
		zz.Assert(len(tr) == 1 && (took || tr[0] == 2), "C08.truthiness/exactly-one-branch/"+id)
	} else {
		zz.Assert(len(tr) == 1 && (took || tr[0] == 2), "C08.truthiness/exactly-one-branch/"+id)
	}
}

// ------------------------------------------------------------------ for-in

type zzVisit struct {
	k, v interface{}
}

// zzForInBody builds `rec(...); <outcome at visit j>`.  The visit counter lives
// in the Go closure behind `at(j)`, which answers whether this is visit j.
func zzForInBody(recArgs []ast.Expr, out int) ast.Stmt {
	var act ast.Stmt
	switch out {
	case oBreak:
		act = &ast.BreakStmt{}
	case oContinue:
		act = &ast.ContinueStmt{}
	case oReturn:
		act = &ast.ReturnStmt{Exprs: []ast.Expr{zzLit(int64(77))}}
	case oError:
		act = &ast.ExprStmt{Expr: zzBad()}
	}
	stmts := []ast.Stmt{&ast.ExprStmt{Expr: &ast.CallExpr{Name: "rec", SubExprs: recArgs}}}
	if act != nil {
		stmts = append(stmts, &ast.IfStmt{If: &ast.CallExpr{Name: "at"}, Then: &ast.StmtsStmt{Stmts: []ast.Stmt{act}}})
	}
	// a statement after the exit point: it must not run on the visit that leaves
	stmts = append(stmts, &ast.ExprStmt{Expr: &ast.CallExpr{Name: "after"}})
	return &ast.StmtsStmt{Stmts: stmts}
}

var zzForInOuts = []int{oNormal, oBreak, oContinue, oReturn, oError}
var zzOutNames = []string{"normal", "break", "continue", "return", "error", "throw"}

// ZZ_C08_forin_slice: n symbolic elements, three slice types, the body leaves
// at visit j by every outcome.  Visits are recorded with the value bound to
// the loop variable.
func ZZ_C08_forin_slice() {
	n := zz.Choose(4)
	kind := zz.Choose(4)
	out := zzForInOuts[zz.Choose(len(zzForInOuts))]
	j := 0
	if out != oNormal {
		if n == 0 {
			return
		}
		j = zz.Choose(n)
	}
	elems := make([]int64, n)
	for i := range elems {
		elems[i] = zz.Int64()
	}
	var coll interface{}
	switch kind {
	case 0:
		s := make([]interface{}, n)
		for i := range s {
			s[i] = elems[i]
		}
		coll = s
	case 1:
		coll = elems
	case 2:
		// a slice of slices: the loop variable is the inner slice itself
		s := make([]interface{}, n)
		for i := range s {
			s[i] = []interface{}{elems[i]}
		}
		coll = s
	case 3:
		s := make([]float64, n)
		for i := range s {
			s[i] = float64(i) + 0.5
		}
		coll = s
	}
	var got []interface{}
	visits, afters := 0, 0
	e := env.NewEnv()
	e.Define("rec", func(x interface{}) { got = append(got, x); visits++ })
	e.Define("at", func() bool { return visits-1 == j && out != oNormal })
	e.Define("after", func() { afters++ })
	e.Define("zzcoll", coll)
	loop := &ast.ForStmt{Vars: []string{"zzx"}, Value: zzIdent("zzcoll"), Stmt: zzForInBody([]ast.Expr{zzIdent("zzx")}, out)}
	fn := &ast.FuncExpr{Stmt: &ast.StmtsStmt{Stmts: []ast.Stmt{loop, &ast.ReturnStmt{Exprs: []ast.Expr{zzLit(int64(88))}}}}}
	prog := &ast.ExprStmt{Expr: &ast.AnonCallExpr{Expr: fn}}
	id := []string{"[]interface{}", "[]int64", "slice-of-slices", "[]float64"}[kind] + "/" + zzOutNames[out]
	zz.Budget(300000)
	zz.UnwindIsViolation("terminates.C08.for-in-slice/" + id)
	v, err := Run(e, &Options{Debug: false}, prog)
	want := n
	switch out {
	case oBreak, oReturn, oError:
		want = j + 1
	}
	zz.Assert((err != nil) == (out == oError), "C08.for-in-slice/error-status/"+id)
	zz.Assert(len(got) == want, "C08.for-in-slice/visit-count/"+id)
	wantAfter := want
	if out != oNormal {
		wantAfter = want - 1
		if out == oContinue {
			wantAfter = n - 1
		}
	}
	zz.Assert(afters == wantAfter, "C08.for-in-slice/rest-of-body-skipped-on-exit/"+id)
	for i := 0; i < len(got) && i < n; i++ {
		switch kind {
		case 0, 1:
			x, ok := got[i].(int64)
			zz.Assert(ok && x == elems[i], "C08.for-in-slice/index-order-and-element/"+id)
		case 2:
			x, ok := got[i].([]interface{})
			zz.Assert(ok && len(x) == 1, "C08.for-in-slice/index-order-and-element/"+id)
			if ok && len(x) == 1 {
				y, ok2 := x[0].(int64)
				zz.Assert(ok2 && y == elems[i], "C08.for-in-slice/index-order-and-element/"+id)
			}
		case 3:
			x, ok := got[i].(float64)
			zz.Assert(ok && x == float64(i)+0.5, "C08.for-in-slice/index-order-and-element/"+id)
		}
	}
	if err == nil {
		r, ok := v.(int64)
		if out == oReturn {
			zz.Assert(ok && r == 77, "C08.for-in-slice/return-leaves-the-function/"+id)
		} else {
			zz.Assert(ok && r == 88, "C08.for-in-slice/loop-falls-through/"+id)
		}
	}
}

// ZZ_C08_forin_map: every entry exactly once, with its own value, in whatever
// order the runtime presents the keys (the engine explores every order of up
// to 3 keys).
func ZZ_C08_forin_map() {
	zz.PermuteMaps(true)
	n := zz.Choose(4)
	kind := zz.Choose(3)
	twoVars := zz.Choose(2) == 1
	out := zzForInOuts[zz.Choose(len(zzForInOuts))]
	j := 0
	if out != oNormal {
		if n == 0 {
			return
		}
		j = zz.Choose(n)
	}
	keys := []interface{}{int64(7), "a", 2.5}
	skeys := []string{"x", "", "yy"}
	vals := make([]int64, n)
	for i := range vals {
		vals[i] = zz.Int64()
	}
	var coll interface{}
	switch kind {
	case 0:
		m := map[interface{}]interface{}{}
		for i := 0; i < n; i++ {
			m[keys[i]] = vals[i]
		}
		coll = m
	case 1:
		m := map[string]int64{}
		for i := 0; i < n; i++ {
			m[skeys[i]] = vals[i]
		}
		coll = m
	case 2:
		m := map[string]interface{}{}
		for i := 0; i < n; i++ {
			m[skeys[i]] = vals[i]
		}
		coll = m
	}
	var got []zzVisit
	visits, afters := 0, 0
	e := env.NewEnv()
	e.Define("rec", func(k, v interface{}) { got = append(got, zzVisit{k, v}); visits++ })
	e.Define("at", func() bool { return visits-1 == j && out != oNormal })
	e.Define("after", func() { afters++ })
	e.Define("zzcoll", coll)
	vars := []string{"zzk"}
	args := []ast.Expr{zzIdent("zzk"), zzLit(int64(0))}
	if twoVars {
		vars = []string{"zzk", "zzv"}
		args = []ast.Expr{zzIdent("zzk"), zzIdent("zzv")}
	}
	loop := &ast.ForStmt{Vars: vars, Value: zzIdent("zzcoll"), Stmt: zzForInBody(args, out)}
	fn := &ast.FuncExpr{Stmt: &ast.StmtsStmt{Stmts: []ast.Stmt{loop, &ast.ReturnStmt{Exprs: []ast.Expr{zzLit(int64(88))}}}}}
	prog := &ast.ExprStmt{Expr: &ast.AnonCallExpr{Expr: fn}}
	id := []string{"map[interface{}]interface{}", "map[string]int64", "map[string]interface{}"}[kind] + "/" + []string{"k", "k,v"}[zz.Ite(twoVars, 1, 0)] + "/" + zzOutNames[out]
	zz.Budget(300000)
	zz.UnwindIsViolation("terminates.C08.for-in-map/" + id)
	v, err := Run(e, &Options{Debug: false}, prog)
	want := n
	switch out {
	case oBreak, oReturn, oError:
		want = j + 1
	}
	zz.Assert((err != nil) == (out == oError), "C08.for-in-map/error-status/"+id)
	zz.Assert(len(got) == want, "C08.for-in-map/visit-count/"+id)
	// every visit presents a key of the map, no key twice, with that key's value
	seen := make([]bool, n)
	for _, g := range got {
		idx := -1
		for i := 0; i < n; i++ {
			if kind == 0 && g.k == keys[i] {
				idx = i
			}
			if kind != 0 {
				if s, ok := g.k.(string); ok && s == skeys[i] {
					idx = i
				}
			}
		}
		zz.Assert(idx >= 0, "C08.for-in-map/visits-a-key-of-the-map/"+id)
		if idx < 0 {
			continue
		}
		zz.Assert(!seen[idx], "C08.for-in-map/every-entry-once/"+id)
		seen[idx] = true
		if twoVars {
			x, ok := g.v.(int64)
			zz.Assert(ok && x == vals[idx], "C08.for-in-map/value-belongs-to-key/"+id)
		}
	}
	if err == nil {
		r, ok := v.(int64)
		if out == oReturn {
			zz.Assert(ok && r == 77, "C08.for-in-map/return-leaves-the-function/"+id)
		} else {
			zz.Assert(ok && r == 88, "C08.for-in-map/loop-falls-through/"+id)
		}
	}
}

// ZZ_C08_forin_corner_entries: "every map entry once" also for the entries no
// lookup can find again (NaN keys: each is its own key) and when the body
// removes entries that were not visited yet (those are not visited, the others
// exactly once); a loop variable holds the element's value as it was when the
// iteration began, whatever the body then stores into the container.
func ZZ_C08_forin_corner_entries() {
	zz.PermuteMaps(true)
	v0, v1, w := zz.Int64(), zz.Int64(), zz.Int64()
	e := env.NewEnv()
	var got []zzVisit
	e.Define("rec", func(k, v interface{}) { got = append(got, zzVisit{k, v}) })
	e.Define("wnew", w)
	nan := math.NaN()
	switch c := zz.Choose(5); c {
	case 0, 1:
		m := map[interface{}]interface{}{nan: v0, "a": v1}
		if c == 1 {
			m = map[interface{}]interface{}{nan: v0, math.NaN(): v1}
		}
		e.Define("m", m)
		_, err := Execute(e, &Options{Debug: false}, "for k, v in m { rec(k, v) }")
		zz.Assert(err == nil && len(got) == 2, "C08.for-in-map/every-entry-once/nan-keys")
		if len(got) == 2 {
			a, okA := got[0].v.(int64)
			b, okB := got[1].v.(int64)
			zz.Assert(okA && okB && zz.Or(zz.And(a == v0, b == v1), zz.And(a == v1, b == v0)), "C08.for-in-map/value-belongs-to-key/nan-keys")
		}
	case 2:
		// the first visit removes every other entry: exactly one visit
		m := map[interface{}]interface{}{"a": v0, "b": v1, "c": w}
		e.Define("m", m)
		form := []string{"for k in m { rec(k, 0); delete(m, \"a\"); delete(m, \"b\"); delete(m, \"c\") }", "for k, v in m { rec(k, v); delete(m, \"a\"); delete(m, \"b\"); delete(m, \"c\") }"}[zz.Choose(2)]
		_, err := Execute(e, &Options{Debug: false}, form)
		zz.Assert(err == nil && len(got) == 1, "C08.for-in-map/removed-entries-are-not-visited")
	case 3:
		a := []int64{v0, v1}
		e.Define("a", a)
		_, err := Execute(e, &Options{Debug: false}, "for x in a { a[0] = wnew; a[1] = wnew; rec(0, x) }")
		zz.Assert(err == nil && len(got) == 2, "C08.for-in-slice/loop-variable-holds-the-value/visits")
		if len(got) == 2 {
			x0, ok0 := got[0].v.(int64)
			x1, ok1 := got[1].v.(int64)
			// (the second element is read when its iteration begins: it was overwritten by then, as in Go)
			zz.Assert(ok0 && ok1 && x0 == v0 && x1 == w, "C08.for-in-slice/loop-variable-holds-the-value")
		}
	case 4:
		s := []interface{}{[]interface{}{v0}, []interface{}{v1}}
		e.Define("a", s)
		_, err := Execute(e, &Options{Debug: false}, "for x in a { a[0] = [wnew]; rec(0, x[0]) }")
		zz.Assert(err == nil && len(got) == 2, "C08.for-in-slice/loop-variable-holds-the-value/visits")
		if len(got) == 2 {
			x0, ok0 := got[0].v.(int64)
			x1, ok1 := got[1].v.(int64)
			zz.Assert(ok0 && ok1 && x0 == v0 && x1 == v1, "C08.for-in-slice/loop-variable-holds-the-value")
		}
	}
}

// ZZ_C08_forin_long: loops whose trip counts reach past every integer constant
// written in the interpreter's own source (zzCodeConsts is regenerated from
// /repo on every run: cache bounds, chunk sizes, poll intervals).  Lengths
// c-1, c, c+1 and 2c+1 for each constant c; the loop is left by break, by
// return from the enclosing function, skips by continue, or runs to its end;
// the exit position is one of the second, middle and next-to-last
// elements.  The number of body executions and the last element seen are
// compared with the plain Go loop.
func ZZ_C08_forin_long() {
	var lens []int
	for _, c := range zzCodeConsts {
		for _, n := range []int{c - 1, c, c + 1, 2*c + 1} {
			if n > 3 && n <= 9000 {
				dup := false
				for _, m := range lens {
					dup = dup || m == n
				}
				if !dup {
					lens = append(lens, n)
				}
			}
		}
	}
	if len(lens) == 0 {
		return
	}
	n := lens[zz.Choose(len(lens))]
	at := []int{1, n / 2, n - 2}[zz.Choose(3)]
	exit := zz.Choose(4)
	kind := zz.Choose(4)
	if kind >= 2 && n > 600 {
		return // (maps and channels: the shorter lengths)
	}
	e := env.NewEnv()
	switch kind {
	case 0:
		c := make([]interface{}, n)
		for i := range c {
			c[i] = int64(i)
		}
		e.Define("c", c)
	case 1:
		c := make([]int64, n)
		for i := range c {
			c[i] = int64(i)
		}
		e.Define("c", c)
	case 2:
		c := make(chan int64, n)
		for i := 0; i < n; i++ {
			c <- int64(i)
		}
		close(c)
		e.Define("c", c)
	case 3:
		// a counting loop (the C-style and the condition loop have no container)
		e.Define("c", nil)
	}
	e.Define("at", int64(at))
	e.Define("n", int64(n))
	head := "for x in c {"
	tail := "}"
	if kind == 3 {
		head = "for x = 0; x < n; x++ {"
	}
	var src string
	var wantRuns, wantLast int64
	switch exit {
	case 0:
		src = "runs = 0; last = -1; " + head + " if x == at { break }; runs++; last = x " + tail + "; [runs, last]"
		wantRuns, wantLast = int64(at), int64(at-1)
	case 1:
		src = "runs = 0; last = -1; f = func() { " + head + " if x == at { return 0 }; runs++; last = x " + tail + "; return 1 }; r = f(); [runs, last, r]"
		wantRuns, wantLast = int64(at), int64(at-1)
	case 2:
		src = "runs = 0; last = -1; " + head + " if x == at { continue }; runs++; last = x " + tail + "; [runs, last]"
		wantRuns, wantLast = int64(n-1), int64(n-1)
	case 3:
		src = "runs = 0; last = -1; " + head + " runs++; last = x " + tail + "; [runs, last]"
		wantRuns, wantLast = int64(n), int64(n-1)
	}
	id := []string{"[]interface{}", "[]int64", "chan", "c-style"}[kind] + "/" + []string{"break", "return", "continue", "to-the-end"}[exit]
	zz.Budget(400000000)
	v, err := Execute(e, &Options{Debug: false}, src)
	zz.Assertf(err == nil, "C08.for-in-long/no-error/"+id, src)
	if err != nil {
		return
	}
	l, ok := v.([]interface{})
	zz.Assertf(ok && len(l) >= 2, "C08.for-in-long/result-shape/"+id, src)
	if !ok || len(l) < 2 {
		return
	}
	runs, _ := l[0].(int64)
	last, _ := l[1].(int64)
	zz.Assertf(runs == wantRuns, "C08.for-in-long/body-runs-exactly-while-the-loop-lasts/"+id, fmt.Sprintf("n=%d at=%d runs=%d want %d", n, at, runs, wantRuns))
	zz.Assertf(last == wantLast, "C08.for-in-long/elements-in-order-up-to-the-exit/"+id, fmt.Sprintf("n=%d at=%d last=%d want %d", n, at, last, wantLast))
	if exit == 1 && len(l) == 3 {
		r, _ := l[2].(int64)
		zz.Assertf(r == 0, "C08.for-in-long/return-ends-the-function/"+id, src)
	}
}

// ZZ_C08_switch_first_equal: a switch executes exactly the first case equal to
// its subject under the language's own `==` (the relation C06 fixes; it
// coerces: 1 == 1.0, 1 == "1", true == 1) - whatever the kinds of the case
// literals around it - else the default.  Subject and two or three case
// literals range over a pool of values that are equal across kinds; the
// oracle is the real `==` operator on the same operands, in case order.
func ZZ_C08_switch_first_equal() {
	pool := []string{"1", "1.0", "\"1\"", "true", "2", "\"2\"", "0", "nil", "\"\"", "false", "2.0"}
	three := zz.Choose(2) == 1
	n := len(pool)
	if three {
		n = 7
	}
	s := pool[zz.Choose(n)]
	cs := []string{pool[zz.Choose(n)], pool[zz.Choose(n)]}
	if three {
		cs = append(cs, pool[zz.Choose(n)])
	}
	multi := !three && zz.Choose(2) == 1 // `case A, B:` lists two expressions in one clause
	src := "r = 0; switch " + s + " { "
	if multi {
		src += "case " + cs[0] + ", " + cs[1] + ": r = 1; "
	} else {
		for i, c := range cs {
			src += fmt.Sprintf("case %s: r = %d; ", c, i+1)
		}
	}
	src += "default: r = 9 }; r"
	want := int64(9)
	for i, c := range cs {
		v, err := Execute(env.NewEnv(), nil, s+" == "+c)
		if err != nil {
			return
		}
		if b, _ := v.(bool); b {
			want = int64(i + 1)
			if multi {
				want = 1
			}
			break
		}
	}
	v, err := Execute(env.NewEnv(), nil, src)
	zz.Assertf(err == nil, "C08.switch/first-equal-case/runs", src)
	if err != nil {
		return
	}
	got, _ := v.(int64)
	zz.Assertf(got == want, "C08.switch/exactly-the-first-case-equal-to-the-subject", fmt.Sprintf("%s: took %d, want %d", src, got, want))
}
