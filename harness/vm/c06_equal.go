package vm

// C06: equality is one coherent relation.

import (
	"reflect"

	"github.com/mattn/anko/ast"
	"github.com/mattn/anko/env"
	zz "github.com/mattn/anko/zzverif"
)

// decimal numerals with their exact reading, and non-numerals
// (an integer numeral outside int64 - the last two - has no int64 reading: it is read as the float64 nearest to it)
var zzDecimalStrings = []string{"0", "-1", "1", "1.0", "1e0", "1000000", "1E6", "9007199254740993", "0.5", "-2.5", "+1", "010", "9223372036854775807", "-9223372036854775808", "9223372036854775808", "-9223372036854775809"}
var zzDecimalIsInt = []bool{true, true, true, false, false, true, false, true, false, false, true, true, true, true, false, false}
var zzDecimalInt = []int64{0, -1, 1, 1, 1, 1000000, 1000000, 9007199254740993, 0, -2, 1, 10, 9223372036854775807, -9223372036854775808, 0, 0}
var zzDecimalFloat = []float64{0, -1, 1, 1, 1, 1000000, 1000000, 9007199254740993, 0.5, -2.5, 1, 10, 9223372036854775807, -9223372036854775808, 9223372036854775808, -9223372036854775809}

// strings that are not decimal numerals, among them every other spelling strconv.ParseFloat and
// ParseInt(s, 0, 64) accept: hexadecimal floats and integers, digit-separating underscores, the
// words for infinity and not-a-number
var zzNonNumerals = []string{"", "abc", "0x10", "0b1", " 1", "true", "1 ", "--1", "0x1p4", "1_0", "Inf", "+Inf", "-inf", "infinity", "NaN", "0o7", "1e", "e1", ".", "1.5.2"}

const (
	zzClsNil = iota
	zzClsBool
	zzClsInt64
	zzClsFloat64
	zzClsInt32
	zzClsFloat32
	zzClsUint8
	zzClsUint64
	zzClsUintptr
	zzClsDecimal
	zzClsNonNumeral
	zzClsSymStr
	zzClsSlice
	zzClsMap
	zzNumClasses
)

var zzClsNames = []string{"nil", "bool", "int64", "float64", "int32", "float32", "uint8", "uint64", "uintptr", "decimal-string", "non-numeral-string", "sym-string", "slice", "map"}

type zzVal struct {
	cls int
	v   interface{}
	idx int // pool index for string classes
}

func zzC06Value(cls int) zzVal {
	switch cls {
	case zzClsNil:
		return zzVal{cls: cls}
	case zzClsBool:
		return zzVal{cls: cls, v: zz.Bool()}
	case zzClsInt64:
		return zzVal{cls: cls, v: zz.Int64()}
	case zzClsFloat64:
		return zzVal{cls: cls, v: zz.Float64()}
	case zzClsInt32:
		return zzVal{cls: cls, v: zz.Int32()}
	case zzClsFloat32:
		// concrete members: float32/float64 equality goes through number
		// formatting, which is not encoded for symbolic values
		return zzVal{cls: cls, v: []float32{1.5, 0.1, 0, -3}[zz.Choose(4)]}
	case zzClsUint8:
		return zzVal{cls: cls, v: zz.Uint8()}
	case zzClsUint64:
		// the whole range, also beyond int64 (make([]uint64, 1); a[0] = -1 builds such a value in a script)
		return zzVal{cls: cls, v: zz.Uint64()}
	case zzClsUintptr:
		return zzVal{cls: cls, v: uintptr(zz.Uint64())}
	case zzClsDecimal:
		i := zz.Choose(len(zzDecimalStrings))
		return zzVal{cls: cls, v: zzDecimalStrings[i], idx: i}
	case zzClsNonNumeral:
		i := zz.Choose(len(zzNonNumerals))
		return zzVal{cls: cls, v: zzNonNumerals[i], idx: i}
	case zzClsSymStr:
		return zzVal{cls: cls, v: zz.SymString(zz.Choose(3))}
	case zzClsSlice:
		n := zz.Choose(3)
		s := make([]interface{}, n)
		for i := range s {
			s[i] = zz.Int64()
		}
		return zzVal{cls: cls, v: s}
	case zzClsMap:
		m := map[interface{}]interface{}{}
		if zz.Choose(2) == 1 {
			m["k"] = zz.Int64()
		}
		return zzVal{cls: cls, v: m}
	}
	return zzVal{}
}

func zzCmp(op string, x, y zzVal) (bool, bool) {
	rv, err := zzEval(env.NewEnv(), zzBinOp(op, zzLit(x.v), zzLit(y.v)))
	if err != nil || !rv.IsValid() || rv.Kind() != reflect.Bool {
		return false, false
	}
	return rv.Bool(), true
}

func zzIn(x, y zzVal) (bool, bool) {
	rv, err := zzEval(env.NewEnv(), &ast.IncludeExpr{ItemExpr: zzLit(x.v), ListExpr: zzLit([]interface{}{y.v})})
	if err != nil || !rv.IsValid() || rv.Kind() != reflect.Bool {
		return false, false
	}
	return rv.Bool(), true
}

// zzInTyped: membership in a typed Go slice holding y (after another
// element that differs from x only if x differs from y's zero value).
func zzInTyped(x, y zzVal) (res bool, ok bool, applicable bool) {
	var list interface{}
	switch v := y.v.(type) {
	case int64:
		list = []int64{v, v}
	case float64:
		list = []float64{v}
	case int32:
		list = []int32{v}
	case float32:
		list = []float32{v}
	case uint8:
		list = []uint8{v}
	case uint64:
		list = []uint64{v}
	case uintptr:
		list = []uintptr{v}
	case bool:
		list = []bool{v}
	case string:
		list = []string{v}
	default:
		return false, false, false
	}
	rv, err := zzEval(env.NewEnv(), &ast.IncludeExpr{ItemExpr: zzLit(x.v), ListExpr: zzLit(list)})
	if err != nil || !rv.IsValid() || rv.Kind() != reflect.Bool {
		return false, false, true
	}
	return rv.Bool(), true, true
}

func zzSwitch(x, y zzVal) (bool, bool) {
	st := &ast.SwitchStmt{Expr: zzLit(x.v),
		Cases:   []ast.Stmt{&ast.SwitchCaseStmt{Exprs: []ast.Expr{zzLit(y.v)}, Stmt: &ast.ExprStmt{Expr: zzLit(true)}}},
		Default: &ast.ExprStmt{Expr: zzLit(false)}}
	rv, err := zzExec(env.NewEnv(), st)
	if err != nil || !rv.IsValid() || rv.Kind() != reflect.Bool {
		return false, false
	}
	return rv.Bool(), true
}

// ZZ_C06_laws: symmetry, != is the negation, `in` and switch use the same
// relation - for every ordered pair of classes.
func ZZ_C06_laws() {
	cx, cy := zz.Choose(zzNumClasses), zz.Choose(zzNumClasses)
	x, y := zzC06Value(cx), zzC06Value(cy)
	cls := zzClsNames[cx] + "," + zzClsNames[cy]
	isScalar := func(c int) bool { return c >= zzClsBool && c <= zzClsUintptr }
	isBigUint := func(c int) bool { return c == zzClsUint64 || c == zzClsUintptr }
	if (isBigUint(cx) && (cy == zzClsDecimal || cy == zzClsNonNumeral || cy == zzClsFloat32)) || (isBigUint(cy) && (cx == zzClsDecimal || cx == zzClsNonNumeral || cx == zzClsFloat32)) {
		return // (numerals against unsigned values beyond int64: the string/number harness fixes the int64 / float64 readings only)
	}
	if (cx == zzClsSymStr && isScalar(cy)) || (cy == zzClsSymStr && isScalar(cx)) {
		return // parsing of symbolic strings is not encoded; concrete pools cover string/number pairs
	}
	if (cx == zzClsFloat32 && cy == zzClsFloat64) || (cx == zzClsFloat64 && cy == zzClsFloat32) {
		return // float32/float64 equality formats its operands: covered by ZZ_C06_pool_numbers
	}
	exy, ok1 := zzCmp("==", x, y)
	eyx, ok2 := zzCmp("==", y, x)
	nxy, ok3 := zzCmp("!=", x, y)
	zz.Assert(ok1 && ok2 && ok3, "C06.total/"+cls)
	if !(ok1 && ok2 && ok3) {
		return
	}
	zz.Assert(exy == eyx, "C06.symmetric/"+cls)
	zz.Assert(nxy == zz.Not(exy), "C06.neq-is-negation/"+cls)
	in, ok4 := zzIn(x, y)
	zz.Assert(ok4 && in == exy, "C06.in-agrees/"+cls)
	if inT, okT, applicable := zzInTyped(x, y); applicable {
		zz.Assert(okT && inT == exy, "C06.in-typed-slice-agrees/"+cls)
	}
	sw, ok5 := zzSwitch(x, y)
	zz.Assert(ok5 && sw == exy, "C06.switch-agrees/"+cls)
	// nil equals only nil
	if cx == zzClsNil || cy == zzClsNil {
		zz.Assert(exy == (cx == cy), "C06.nil-equals-only-nil/"+cls)
	}
}

// ZZ_C06_same_type: two values of the same primitive type are equal exactly
// when Go's == says so (NaN != NaN).
func ZZ_C06_same_type() {
	switch zz.Choose(8) {
	case 4:
		a, b := zz.Uint64(), zz.Uint64()
		e, ok := zzCmp("==", zzVal{v: a}, zzVal{v: b})
		zz.Assert(ok && e == (a == b), "C06.same-type/uint64")
		n, ok2 := zzCmp("!=", zzVal{v: a}, zzVal{v: b})
		zz.Assert(ok2 && n == (a != b), "C06.same-type/uint64")
	case 5:
		a, b := uintptr(zz.Uint64()), uintptr(zz.Uint64())
		e, ok := zzCmp("==", zzVal{v: a}, zzVal{v: b})
		zz.Assert(ok && e == (a == b), "C06.same-type/uintptr")
	case 6:
		a, b := zz.Uint8(), zz.Uint8()
		e, ok := zzCmp("==", zzVal{v: a}, zzVal{v: b})
		zz.Assert(ok && e == (a == b), "C06.same-type/uint8")
	case 7:
		// integers of different signedness are equal exactly when they denote the same number
		u, i := zz.Uint64(), zz.Int64()
		x, y := zzVal{v: u}, zzVal{v: i}
		if zz.Choose(2) == 1 {
			x, y = y, x
		}
		e, ok := zzCmp("==", x, y)
		zz.Assert(ok && e == zz.And(i >= 0, uint64(i) == u), "C06.integers/unsigned-signed-equal-iff-same-number")
		le, ok2 := zzCmp("<=", x, y)
		ge, ok3 := zzCmp(">=", x, y)
		zz.Assert(ok2 && ok3 && e == zz.And(le, ge), "C06.integers/unsigned-signed-eq-iff-le-and-ge")
	case 0:
		a, b := zz.Int64(), zz.Int64()
		e, ok := zzCmp("==", zzVal{v: a}, zzVal{v: b})
		zz.Assert(ok && e == (a == b), "C06.same-type/int64")
	case 1:
		a, b := zz.Float64(), zz.Float64()
		e, ok := zzCmp("==", zzVal{v: a}, zzVal{v: b})
		zz.Assert(ok && e == (a == b), "C06.same-type/float64")
	case 2:
		a, b := zz.Bool(), zz.Bool()
		e, ok := zzCmp("==", zzVal{v: a}, zzVal{v: b})
		zz.Assert(ok && e == (a == b), "C06.same-type/bool")
	case 3:
		a, b := zz.SymString(zz.Choose(3)), zz.SymString(zz.Choose(3))
		e, ok := zzCmp("==", zzVal{v: a}, zzVal{v: b})
		zz.Assert(ok && e == (a == b), "C06.same-type/string")
	}
}

// ZZ_C06_int_float: an integer and a float are equal exactly when both <=
// and >= hold between them (as the real comparison operator computes them).
func ZZ_C06_int_float() {
	i, f := zz.Int64(), zz.Float64()
	x, y := zzVal{v: i}, zzVal{v: f}
	if zz.Choose(2) == 1 {
		x, y = y, x
	}
	e, ok1 := zzCmp("==", x, y)
	le, ok2 := zzCmp("<=", x, y)
	ge, ok3 := zzCmp(">=", x, y)
	zz.Assert(ok1 && ok2 && ok3, "C06.int-float/total")
	zz.Assert(e == zz.And(le, ge), "C06.int-float/eq-iff-le-and-ge")
}

// ZZ_C06_string_number: a string and a number are equal exactly when the
// string is a decimal numeral denoting that number.
func ZZ_C06_string_number() {
	numIsInt := zz.Choose(2) == 0
	var n zzVal
	var ni int64
	var nf float64
	if numIsInt {
		ni = zz.Int64()
		n = zzVal{v: ni}
	} else {
		nf = zz.Float64()
		n = zzVal{v: nf}
	}
	strFirst := zz.Choose(2) == 1
	if zz.Choose(2) == 0 {
		k := zz.Choose(len(zzDecimalStrings))
		s := zzVal{v: zzDecimalStrings[k]}
		x, y := n, s
		if strFirst {
			x, y = s, n
		}
		e, ok := zzCmp("==", x, y)
		zz.Assert(ok, "C06.string-number/total")
		var want bool
		switch {
		case numIsInt && zzDecimalIsInt[k]:
			want = ni == zzDecimalInt[k]
		case numIsInt:
			// numeral with a fraction/exponent: denotes the integer iff the
			// integer converts to exactly that real value
			// (a value outside int64 - only the float64 2^63 can occur - denotes no integer)
			inRange := zzDecimalFloat[k] >= -9223372036854775808.0 && zzDecimalFloat[k] < 9223372036854775808.0
			want = inRange && zz.And(float64(ni) == zzDecimalFloat[k], int64(zzDecimalFloat[k]) == ni)
		default:
			want = nf == zzDecimalFloat[k]
		}
		zz.Assert(e == want, "C06.string-number/decimal-numeral")
	} else {
		k := zz.Choose(len(zzNonNumerals))
		s := zzVal{v: zzNonNumerals[k]}
		x, y := n, s
		if strFirst {
			x, y = s, n
		}
		e, ok := zzCmp("==", x, y)
		zz.Assert(ok && !e, "C06.string-number/non-numeral-never-equal")
	}
}

// ZZ_C06_containers: same-shape containers with equal elements are equal,
// different lengths are not.
func ZZ_C06_containers() {
	n := zz.Choose(3)
	a := make([]interface{}, n)
	b := make([]interface{}, n)
	allEq := true
	for i := 0; i < n; i++ {
		x, y := zz.Int64(), zz.Int64()
		a[i], b[i] = x, y
		allEq = zz.And(allEq, x == y)
	}
	e, ok := zzCmp("==", zzVal{v: a}, zzVal{v: b})
	zz.Assert(ok && e == allEq, "C06.containers/slice-structural")
	c := append(append([]interface{}{}, a...), int64(0))
	e2, ok2 := zzCmp("==", zzVal{v: a}, zzVal{v: c})
	zz.Assert(ok2 && !e2, "C06.containers/different-length")
	// nested once
	e3, ok3 := zzCmp("==", zzVal{v: []interface{}{a}}, zzVal{v: []interface{}{b}})
	zz.Assert(ok3 && e3 == allEq, "C06.containers/nested")
	v1, v2 := zz.Int64(), zz.Int64()
	m1 := map[interface{}]interface{}{"k": v1}
	m2 := map[interface{}]interface{}{"k": v2}
	e4, ok4 := zzCmp("==", zzVal{v: m1}, zzVal{v: m2})
	zz.Assert(ok4 && e4 == (v1 == v2), "C06.containers/map-structural")
}

// ZZ_C06_pool_numbers: concrete magnitudes (formatting-based comparisons are
// visible only on concrete values): powers of ten and the 2^53 cliff as
// int64, float64, float32, in both orders, with the laws of ZZ_C06_laws and
// the int/float rule.
func ZZ_C06_pool_numbers() {
	k := zz.Choose(23)
	p := int64(1)
	for i := 0; i < k && i < 18; i++ {
		p *= 10
	}
	neg := zz.Choose(2) == 1
	if neg {
		p = -p
	}
	var xs []interface{}
	xs = append(xs, p, float64(p), float32(p), p+1, float64(p)+0.5)
	if k >= 18 {
		f := 1e18
		for i := 18; i < k; i++ {
			f *= 10
		}
		xs = []interface{}{int64(9007199254740993), float64(9007199254740992), f, float32(f), int64(9007199254740992)}
	}
	a := xs[zz.Choose(len(xs))]
	b := xs[zz.Choose(len(xs))]
	x, y := zzVal{v: a}, zzVal{v: b}
	exy, ok1 := zzCmp("==", x, y)
	eyx, ok2 := zzCmp("==", y, x)
	nxy, ok3 := zzCmp("!=", x, y)
	zz.Assert(ok1 && ok2 && ok3, "C06.pool/total")
	zz.Assert(exy == eyx, "C06.pool/symmetric")
	zz.Assert(nxy == !exy, "C06.pool/neq-is-negation")
	_, aInt := a.(int64)
	_, bInt := b.(int64)
	_, aF64 := a.(float64)
	_, bF64 := b.(float64)
	if (aInt && bF64) || (aF64 && bInt) {
		le, _ := zzCmp("<=", x, y)
		ge, _ := zzCmp(">=", x, y)
		zz.Assert(exy == (le && ge), "C06.pool/int-float-eq-iff-le-and-ge")
	}
	if aInt && bInt {
		zz.Assert(exy == (a.(int64) == b.(int64)), "C06.pool/int-int")
	}
	if aF64 && bF64 {
		zz.Assert(exy == (a.(float64) == b.(float64)), "C06.pool/float-float")
	}
}

// ZZ_C06_containers_more: structural comparison over more shapes - typed
// slices, maps with two keys or different key sets, structs, containers
// nested in containers, pointers to equal values - with the laws (symmetry,
// != is the negation, membership and switch agree) on each pair.
func ZZ_C06_containers_more() {
	x1, x2, y1, y2 := zz.Int64(), zz.Int64(), zz.Int64(), zz.Int64()
	both := zz.And(x1 == y1, x2 == y2)
	var a, b interface{}
	var want bool
	name := ""
	switch zz.Choose(20) {
	case 12:
		// views of one backing array: equal only when they show the same elements
		full := []interface{}{x1, x2, y1}
		name, a, b, want = "prefix-of-the-same-array", full[0:2], full, false
	case 13:
		full := []interface{}{x1, x2, y1}
		name, a, b, want = "empty-prefix-of-the-same-array", full[0:0], full, false
	case 14:
		full := []int64{x1, x2, y1}
		name, a, b, want = "typed-prefixes-of-the-same-array", full[0:1], full[0:2], false
	case 15:
		full := []interface{}{x1, x2, y1, y2}
		name, a, b, want = "windows-of-the-same-array", full[0:2], full[2:4], both
	case 16:
		full := []interface{}{x1, x2}
		name, a, b, want = "the-same-slice-twice", full, full, true
	case 17:
		m := map[interface{}]interface{}{"k": x1}
		name, a, b, want = "the-same-map-twice", m, m, true
	case 18:
		full := []interface{}{x1, x2, y1}
		name, a, b, want = "same-array-views-nested", []interface{}{full[0:2]}, []interface{}{full}, false
	case 19:
		full := []interface{}{x1, x2, y1}
		name, a, b, want = "same-length-windows-shifted", full[0:2], full[1:3], zz.And(x1 == x2, x2 == y1)
	case 0:
		name, a, b, want = "typed-slice", []int64{x1, x2}, []int64{y1, y2}, both
	case 1:
		name, a, b, want = "typed-slice-different-length", []int64{x1, x2}, []int64{y1}, false
	case 2:
		name, a, b, want = "map-two-keys", map[interface{}]interface{}{"k": x1, "j": x2}, map[interface{}]interface{}{"j": y2, "k": y1}, both
	case 3:
		name, a, b, want = "map-different-key-sets", map[interface{}]interface{}{"k": x1, "j": x2}, map[interface{}]interface{}{"k": x1, "z": x2}, false
	case 4:
		name, a, b, want = "map-subset", map[interface{}]interface{}{"k": x1}, map[interface{}]interface{}{"k": x1, "j": x2}, false
	case 5:
		name, a, b, want = "typed-map", map[string]int64{"k": x1}, map[string]int64{"k": y1}, x1 == y1
	case 6:
		name, a, b, want = "struct", zzPair{A: x1, B: []int64{x2}}, zzPair{A: y1, B: []int64{y2}}, both
	case 7:
		name, a, b, want = "map-in-slice", []interface{}{map[interface{}]interface{}{"k": x1}, x2}, []interface{}{map[interface{}]interface{}{"k": y1}, y2}, both
	case 8:
		name, a, b, want = "slice-in-map", map[interface{}]interface{}{"k": []interface{}{x1, x2}}, map[interface{}]interface{}{"k": []interface{}{y1, y2}}, both
	case 9:
		name, a, b, want = "slice-in-slice-in-slice", []interface{}{[]interface{}{[]interface{}{x1}, x2}}, []interface{}{[]interface{}{[]interface{}{y1}, y2}}, both
	case 10:
		p, q := x1, y1
		name, a, b, want = "pointers-to-values", &p, &q, x1 == y1
	case 11:
		name, a, b, want = "empty-containers", []interface{}{}, []interface{}{}, true
	}
	x, y := zzVal{v: a}, zzVal{v: b}
	exy, ok1 := zzCmp("==", x, y)
	eyx, ok2 := zzCmp("==", y, x)
	nxy, ok3 := zzCmp("!=", x, y)
	zz.Assert(ok1 && ok2 && ok3, "C06.containers/"+name+"/total")
	if !(ok1 && ok2 && ok3) {
		return
	}
	zz.Assert(exy == want, "C06.containers/"+name+"/structural")
	zz.Assert(exy == eyx, "C06.containers/"+name+"/symmetric")
	zz.Assert(nxy == zz.Not(exy), "C06.containers/"+name+"/neq-is-negation")
	in, ok4 := zzIn(x, y)
	zz.Assert(ok4 && in == exy, "C06.containers/"+name+"/in-agrees")
	sw, ok5 := zzSwitch(x, y)
	zz.Assert(ok5 && sw == exy, "C06.containers/"+name+"/switch-agrees")
}
