package vm

// C01: a script can never crash the host.  Bounded inductive invariant: for
// every AST node kind (table derived from go/types at check time), with each
// child an arbitrary outcome (any value of the universe through any
// provenance, an error, or a control signal), running the node with
// Debug=false returns - no panic escapes, on the calling goroutine or on one
// started by `go` - and what it returns is an error or a well-formed value.

import (
	"strings"
	"context"
	"fmt"
	"reflect"

	"github.com/mattn/anko/ast"
	"github.com/mattn/anko/env"
	"github.com/mattn/anko/parser"
	zz "github.com/mattn/anko/zzverif"
)

// zzStmtOutcome: a child statement with outcome o.
//
//	0 normal(value) 1 break 2 continue 3 return(value) 4 error (undefined name) 5 throw
func zzStmtOutcome(o int) ast.Stmt {
	switch o {
	case 0:
		return &ast.ExprStmt{Expr: zzLit(int64(7))}
	case 1:
		return &ast.BreakStmt{}
	case 2:
		return &ast.ContinueStmt{}
	case 3:
		return &ast.ReturnStmt{Exprs: []ast.Expr{zzLit(int64(8))}}
	case 4:
		return &ast.ExprStmt{Expr: zzBad()}
	case 5:
		return &ast.ThrowStmt{Expr: zzLit("thrown")}
	}
	return nil
}

const zzNumStmtOutcomes = 6

var zzTypePool = []*ast.TypeStruct{
	nil,
	{Name: "int64"},
	{Name: "interface"},
	{Name: "string"},
	{Name: "nosuchtype"},
	{Kind: ast.TypeSlice, SubType: &ast.TypeStruct{Name: "int64"}, Dimensions: 1},
	{Kind: ast.TypeSlice, SubType: &ast.TypeStruct{Name: "interface"}, Dimensions: 2},
	{Kind: ast.TypeMap, Key: &ast.TypeStruct{Name: "string"}, SubType: &ast.TypeStruct{Name: "int64"}},
	{Kind: ast.TypeMap, Key: &ast.TypeStruct{Kind: ast.TypeSlice, SubType: &ast.TypeStruct{Name: "int64"}, Dimensions: 1}, SubType: &ast.TypeStruct{Name: "int64"}},
	{Kind: ast.TypePtr, SubType: &ast.TypeStruct{Name: "int64"}},
	{Kind: ast.TypeChan, SubType: &ast.TypeStruct{Name: "int64"}},
	{Kind: ast.TypeStructType, StructNames: []string{"A", "B"}, StructTypes: []*ast.TypeStruct{{Name: "int64"}, {Name: "string"}}},
	{Env: []string{"m"}, Name: "int64"},
	{Env: []string{"x"}, Name: "int64"},
}

var zzIdentPool = []string{"x", "f", "m", "s", "zz_undefined"}

// zzConfigure sets the non-node fields of a node to values the grammar can
// produce (names are identifiers, operator strings are the grammar's
// spellings, list shapes are the ones the productions build).
func zzConfigure(n interface{}) {
	switch x := n.(type) {
	case *ast.IdentExpr:
		x.Lit = zzIdentPool[zz.Choose(len(zzIdentPool))]
	case *ast.LiteralExpr:
		x.Literal = zzOperand(zz.Choose(uNumClasses), pPlain)
	case *ast.UnaryExpr:
		x.Operator = []string{"-", "^", "!"}[zz.Choose(3)]
	case *ast.BinaryOperator:
		x.Operator = []string{"&&", "||"}[zz.Choose(2)]
	case *ast.ComparisonOperator:
		x.Operator = []string{"==", "!=", "<", "<=", ">", ">="}[zz.Choose(6)]
	case *ast.AddOperator:
		x.Operator = []string{"+", "-", "|"}[zz.Choose(3)]
	case *ast.MultiplyOperator:
		x.Operator = []string{"*", "/", "%", ">>", "<<", "&"}[zz.Choose(6)]
	case *ast.MemberExpr:
		x.Name = []string{"x", "A", "Len", "nosuch"}[zz.Choose(4)]
	case *ast.CallExpr:
		x.Name = []string{"f", "x", "zz_undefined", "g"}[zz.Choose(4)]
		x.VarArg = zz.Choose(2) == 1
		x.Go = zz.Choose(2) == 1
	case *ast.AnonCallExpr:
		x.VarArg = zz.Choose(2) == 1
		x.Go = zz.Choose(2) == 1
	case *ast.FuncExpr:
		x.Name = []string{"", "fn"}[zz.Choose(2)]
		np := zz.Choose(3)
		x.Params = []string{"a", "b"}[:np]
		x.VarArg = np > 0 && zz.Choose(2) == 1
	case *ast.ForStmt:
		x.Vars = [][]string{{"k"}, {"k", "v"}}[zz.Choose(2)]
	case *ast.TryStmt:
		x.Var = []string{"", "e"}[zz.Choose(2)]
	case *ast.ModuleStmt:
		x.Name = "mod"
	case *ast.VarStmt:
		x.Names = [][]string{{"v1"}, {"v1", "v2"}}[zz.Choose(2)]
	case *ast.MakeTypeExpr:
		x.Name = "newtype"
	case *ast.ArrayExpr:
		// the grammar builds typed list literals with a slice type only
		x.TypeData = []*ast.TypeStruct{nil, zzTypePool[5], zzTypePool[6],
			{Kind: ast.TypeSlice, SubType: &ast.TypeStruct{Name: "nosuchtype"}, Dimensions: 1},
			{Kind: ast.TypeSlice, SubType: &ast.TypeStruct{Name: "string"}, Dimensions: 1}}[zz.Choose(5)]
	case *ast.MapExpr:
		// ... and typed map literals with a map type only
		x.TypeData = []*ast.TypeStruct{nil, zzTypePool[7], zzTypePool[8],
			{Kind: ast.TypeMap, Key: &ast.TypeStruct{Name: "nosuchtype"}, SubType: &ast.TypeStruct{Name: "int64"}},
			{Kind: ast.TypeMap, Key: &ast.TypeStruct{Name: "interface"}, SubType: &ast.TypeStruct{Name: "string"}}}[zz.Choose(5)]
	case *ast.MakeExpr:
		x.TypeData = zzTypePool[1+zz.Choose(len(zzTypePool)-1)]
	}
}

// zzStepEnv: an environment of the stated class.
func zzStepEnv() *env.Env {
	e := env.NewEnv()
	e.Define("x", int64(3))
	e.DefineValue("f", zzScriptFunc(1, false))
	e.Define("g", zzGoPanics)
	e.Define("s", []interface{}{int64(1), "two"})
	m, _ := e.NewModule("m")
	m.Define("x", int64(1))
	m.DefineType("int64", int64(0))
	return e
}

// zzRunNode runs the node through the public entry point RunContext
// (Debug=false) and reports (value, err, panicked).
var zzPanicMsg string
var zzScopeAfter *env.Env
var zzResultRV reflect.Value

func zzRunNode(e *env.Env, node interface{}, cat string) (v interface{}, err error, panicked bool) {
	zzPanicMsg = ""
	var stmt ast.Stmt
	switch cat {
	case "stmt":
		if c, ok := node.(*ast.SwitchCaseStmt); ok {
			stmt = &ast.SwitchStmt{Expr: zzLit(int64(7)), Cases: []ast.Stmt{c}}
		} else {
			stmt = node.(ast.Stmt)
		}
	case "expr":
		stmt = &ast.ExprStmt{Expr: node.(ast.Expr)}
	default:
		stmt = &ast.ExprStmt{Expr: &ast.OpExpr{Op: node.(ast.Operator)}}
	}
	defer func() {
		if r := recover(); r != nil {
			if _, ok := r.(zz.AssumeFailed); ok {
				panic(r)
			}
			panicked = true
			zzPanicMsg = fmt.Sprint(r)
		}
	}()
	// the body of RunContext, kept in step with it, so that the current scope
	// can be observed afterwards (C04-S1)
	ri := runInfoStruct{ctx: context.Background(), env: e, options: &Options{Debug: false}, stmt: stmt, rv: nilValue}
	ri.runSingleStmt()
	zzScopeAfter = ri.env
	zzResultRV = ri.rv
	if len(ri.defers) > 0 {
		ri.runDefers()
	}
	if ri.err == ErrReturn {
		ri.err = nil
	}
	return ri.rv.Interface(), ri.err, false
}

// zzStepMakers: the expression child at position `vary` ranges over the whole
// universe x provenance (or fails); one other position ranges over a benign
// subset, the rest are an int64 literal.  One statement child ranges over all
// outcomes.  List lengths and presence of optional children are chosen once
// per node.
func zzStepMakers(vary int, pos *int, classes int) *zzMakers {
	n := zz.Choose(3)
	absent := zz.Choose(2) == 1
	stmtVary := 0
	spos := 0
	child := func() ast.Expr {
		i := *pos
		*pos = i + 1
		if i == vary {
			list := zzClassList(classes)
			c := zz.Choose(len(list) + 1)
			if c == len(list) {
				return zzBad()
			}
			return zzLitRV(zzOperand(list[c], zz.Choose(pNum)))
		}
		if i == (vary+1)%3 {
			return zzLitRV(zzOperand(uBenign[zz.Choose(len(uBenign))], pPlain))
		}
		return zzLit(int64(2))
	}
	stmtChild := func() ast.Stmt {
		i := spos
		spos++
		if i == stmtVary {
			return zzStmtOutcome(zz.Choose(zzNumStmtOutcomes))
		}
		return zzStmtOutcome(0)
	}
	return &zzMakers{
		Expr: func(field string, i int) ast.Expr {
			switch field {
			case "LetsStmt.LHSS", "LetsExpr.LHSS", "LetMapItemStmt.LHSS", "ChanStmt.LHS", "ChanStmt.OkExpr":
				// assignment targets: every l-value kind and a non-l-value (the
				// first target of a list varies, the others are identifiers)
				if i > 0 || field == "ChanStmt.OkExpr" {
					return zzIdent("v2")
				}
				switch zz.Choose(9) {
				case 0:
					return zzIdent("x")
				case 1:
					return &ast.MemberExpr{Expr: zzIdent("m"), Name: "x"}
				case 2:
					return &ast.ItemExpr{Item: zzIdent("s"), Index: child()}
				case 3:
					return &ast.SliceExpr{Item: zzIdent("s"), Begin: child()}
				case 4:
					return &ast.DerefExpr{Expr: child()}
				case 5:
					// the container of a member / index / slice target is itself an
					// arbitrary value (what `a.b.x = v`, `f()[i] = v` evaluate first)
					return &ast.MemberExpr{Expr: child(), Name: []string{"x", "A", "nosuch"}[zz.Choose(3)]}
				case 6:
					return &ast.ItemExpr{Item: child(), Index: child()}
				case 7:
					return &ast.SliceExpr{Item: child(), Begin: child()}
				}
				return child()
			case "DeferStmt.Expr", "GoroutineStmt.Expr":
				// the grammar only accepts calls here: a named call (script
				// function, Go function that panics, non-function) or an
				// anonymous call of an arbitrary value
				switch zz.Choose(4) {
				case 0:
					return &ast.CallExpr{Name: "f", SubExprs: []ast.Expr{child()}, Go: field == "GoroutineStmt.Expr"}
				case 1:
					return &ast.CallExpr{Name: "g", SubExprs: []ast.Expr{child()}, Go: field == "GoroutineStmt.Expr"}
				case 2:
					return &ast.CallExpr{Name: "x", SubExprs: []ast.Expr{child()}, Go: field == "GoroutineStmt.Expr"}
				}
				return &ast.AnonCallExpr{Expr: child(), SubExprs: []ast.Expr{zzLit(int64(1))}, Go: field == "GoroutineStmt.Expr"}
			case "ImportExpr.Name":
				if zz.Choose(2) == 0 {
					return zzLit("strings")
				}
			case "AnonCallExpr.Expr":
				// the callee position: besides the classes of the tier, every
				// function class of the universe (a call of a non-function ends
				// before the call machinery is reached)
				if classes < uNumClasses {
					fns := []int{uFunc0, uFunc1, uFuncVar, uFunc5, uGoIdentity, uGoVariadic, uGoPanics, uGoErr}
					if c := zz.Choose(len(fns) + 1); c < len(fns) {
						*pos = *pos + 1
						return zzLitRV(zzOperand(fns[c], zz.Choose(pNum)))
					}
				}
			}
			return child()
		},
		Stmt: func(field string, i int) ast.Stmt {
			switch field {
			case "IfStmt.ElseIf":
				return &ast.IfStmt{If: child(), Then: stmtChild()}
			case "SwitchStmt.Cases":
				return &ast.SwitchCaseStmt{Exprs: []ast.Expr{child()}, Stmt: stmtChild()}
			}
			return stmtChild()
		},
		Op: func(field string, i int) ast.Operator {
			return &ast.AddOperator{LHS: child(), Operator: "+", RHS: child()}
		},
		N:    func(field string) int { return n },
		Skip: func(field string) bool { return absent },
	}
}

// zzStepKind is the step lemma for one node kind.
func zzStepKind(k int, classes int) {
	kind := zzKinds[k]
	nchildren := 0
	for range zzKindFields[k] {
		nchildren++
	}
	vary := 0
	if nchildren > 1 {
		vary = zz.Choose(3) // index among the expression children created, in creation order
	}
	pos := 0
	var kids []interface{}
	node := zzBuild(k, zzStepMakers(vary, &pos, classes), &kids)
	zzConfigure(node)
	e := zzStepEnv()
	zz.Budget(300000) // non-terminating loops are cut (counted, outside the claim)
	// C14-F1: the tree and every object that existed after package
	// initialisation are read-only during the run (engine: write barrier;
	// natively: structural dump before/after)
	before := ""
	if zz.Symbolic() {
		zz.Freeze(node)
		zz.FreezeGlobals()
	} else {
		before = zzDump(node) + zz.GlobalsDump()
	}
	v, err, panicked := zzRunNode(e, node, zzKindCat[k])
	scopeAfter, resultRV := zzScopeAfter, zzResultRV
	_ = resultRV // (the native oracles below run the node again)
	zz.Drain()
	if zz.Symbolic() {
		zz.Assertf(zz.Events("frozen-write") == 0, "C14.F1.tree-and-globals-read-only/"+kind, zz.EventText("frozen-write"))
		// C14-F2: what the step hands back (its value, the bindings it made)
		// must not alias process-wide state: a later store through such an
		// alias would be visible to every other run
		al := zz.FrozenAliases(v)
		if err == nil {
			// (with an error the returned Value is not used by any caller)
			al += zz.FrozenAliases(zzResultRV)
		}
		for _, name := range []string{"x", "v1", "v2", "k", "v", "e"} {
			if rv, gerr := e.GetValue(name); gerr == nil {
				al += zz.FrozenAliases(rv)
			}
		}
		zz.Assert(al == 0, "C14.F2.no-alias-to-shared-state/"+kind)
		// C14-F4: no hidden input: the only nondeterministic primitive a
		// goroutine-free run may reach is map iteration
		if kind != "GoroutineStmt" && kind != "CallExpr" && kind != "AnonCallExpr" {
			zz.Assert(zz.NondetCount("select-multiple-ready") == 0 && zz.NondetCount("address") == 0, "C14.F4.no-hidden-input/"+kind)
		}
		zz.Unfreeze()
	} else {
		// native oracle for F2: store through every alias the step handed
		// back, then look at the shared nil
		if zzResultRV.IsValid() && zzResultRV.CanSet() && zzResultRV.Kind() == reflect.Int64 {
			// a settable result must not be a cell of the small-integer cache
			old := zzResultRV.Int()
			zzResultRV.SetInt(123456789)
			okc := true
			for k := int64(int64CacheMin); k <= 16; k++ {
				if int64Value(k).Int() != k {
					okc = false
				}
			}
			zzResultRV.SetInt(old)
			zz.Assert(okc, "C14.F2.no-alias-to-shared-state/"+kind)
		}
		if p, ok := v.(*interface{}); ok && p != nil {
			old := *p
			*p = int64(12345)
			zz.Assert(nilValue.IsNil() && env.NilValue.IsNil(), "C14.F2.no-alias-to-shared-state/"+kind)
			*p = old
		}
		// native oracle for F4: the same tree in an equal fresh environment
		// gives the same error status and the same kind of value
		if kind != "GoroutineStmt" && kind != "CallExpr" && kind != "AnonCallExpr" && kind != "ChanStmt" && kind != "ChanExpr" && kind != "ForStmt" {
			v2, err2, p2 := zzRunNode(zzStepEnv(), node, zzKindCat[k])
			same := !p2 && (err == nil) == (err2 == nil)
			if same && err == nil {
				same = reflect.TypeOf(v) == reflect.TypeOf(v2)
			}
			zz.Assert(same, "C14.F4.no-hidden-input/"+kind)
		}
		for _, name := range []string{"x", "v1", "v2", "k", "v", "e"} {
			if rv, gerr := e.GetValue(name); gerr == nil && rv.CanSet() && rv.Kind() == reflect.Interface {
				old := reflect.ValueOf(rv.Interface())
				rv.Set(reflect.ValueOf(int64(12345)))
				zz.Assert(nilValue.IsNil() && env.NilValue.IsNil(), "C14.F2.no-alias-to-shared-state/"+kind)
				if old.IsValid() {
					rv.Set(old)
				} else {
					rv.Set(reflect.Zero(rv.Type()))
				}
			}
		}
		zz.Assert(zzDump(node)+zz.GlobalsDump() == before, "C14.F1.tree-and-globals-read-only/"+kind)
	}
	zz.Assertf(!panicked, "C01.step.no-panic/"+kind, zzPanicMsg)
	zz.Assert(zz.GoroutineCrashes() == 0, "C01.step.no-goroutine-crash/"+kind)
	if panicked {
		return
	}
	// C04-S1: after any statement finishes - normally, by break/continue/
	// return, or by an error - execution continues in exactly the scope that
	// was current before it
	zz.Assert(scopeAfter == e, "C04.S1.scope-restored/"+kind)
	if err == nil {
		// closure: the value handed back is well formed (RunContext already
		// called Interface() on it, so reaching here means it was)
		_ = v
	}
	// closure on the environment: every binding is still a well-formed value
	for _, name := range []string{"x", "f", "s", "v1", "v2", "k", "v", "e", "fn"} {
		rv, gerr := e.GetValue(name)
		if gerr == nil {
			zz.Assert(zzWF(rv), "C01.step.bindings-well-formed/"+kind)
		}
	}
}

// quick: the first 19 classes of the universe (through chan-open); thorough:
// all.  The per-kind entry points ZZ_C01_k_<Kind>[_quick] are generated.
const zzQuickClasses = uChanClosed

// zzClassList: the classes the varied child ranges over.  The quick tier adds
// the typed containers with unusual key / nil / addressable shapes to its prefix.
func zzClassList(classes int) []int {
	var l []int
	for c := 0; c < classes; c++ {
		l = append(l, c)
	}
	if classes < uNumClasses {
		l = append(l, uMapInt64Str, uMapNilTyped, uSliceNilTyped, uStructVal)
	}
	return l
}

var _ = reflect.ValueOf

// zzDump is a structural dump of a tree (native replay oracle for C14-F1;
// never executed by the engine).
func zzDump(x interface{}) string {
	var sb []byte
	seen := map[uintptr]bool{}
	var walk func(v reflect.Value, depth int)
	walk = func(v reflect.Value, depth int) {
		if depth > 40 || !v.IsValid() {
			sb = append(sb, "<>"...)
			return
		}
		if v.Type() == reflect.TypeOf(reflect.Value{}) {
			rv := v.Interface().(reflect.Value)
			if !rv.IsValid() {
				sb = append(sb, "rv<invalid>"...)
				return
			}
			sb = append(sb, ("rv(" + rv.Type().String() + ":")...)
			// (a container behind an interface-typed literal is a run-time value like
			// any other: its identity belongs to the tree, its content does not)
			for rv.Kind() == reflect.Interface && !rv.IsNil() {
				rv = rv.Elem()
			}
			switch rv.Kind() {
			case reflect.Func, reflect.Chan, reflect.Ptr, reflect.Map, reflect.UnsafePointer:
				sb = append(sb, fmt.Sprintf("%x", rv.Pointer())...)
			case reflect.Slice:
				sb = append(sb, fmt.Sprintf("%x/%d", rv.Pointer(), rv.Len())...)
			default:
				if rv.CanInterface() {
					sb = append(sb, fmt.Sprintf("%#v", rv.Interface())...)
				}
			}
			sb = append(sb, ')')
			return
		}
		switch v.Kind() {
		case reflect.Ptr, reflect.Interface:
			if v.IsNil() {
				sb = append(sb, "nil"...)
				return
			}
			if v.Kind() == reflect.Ptr {
				if seen[v.Pointer()] {
					sb = append(sb, "<cycle>"...)
					return
				}
				seen[v.Pointer()] = true
				sb = append(sb, ("&" + v.Type().Elem().String())...)
			}
			walk(v.Elem(), depth+1)
		case reflect.Struct:
			sb = append(sb, '{')
			for i := 0; i < v.NumField(); i++ {
				sb = append(sb, (v.Type().Field(i).Name + ":")...)
				walk(v.Field(i), depth+1)
				sb = append(sb, ' ')
			}
			sb = append(sb, '}')
		case reflect.Slice, reflect.Array:
			sb = append(sb, fmt.Sprintf("[%d:", v.Len())...)
			for i := 0; i < v.Len(); i++ {
				walk(v.Index(i), depth+1)
				sb = append(sb, ' ')
			}
			sb = append(sb, ']')
		default:
			sb = append(sb, fmt.Sprintf("%v", v)...)
		}
	}
	walk(reflect.ValueOf(x), 0)
	return string(sb)
}

var zzBoundaryKind, zzBoundaryLen int

// ZZ_C01_interference: the one thing the per-kind step cannot see, because it
// stubs children by outcomes that do not touch the parent's operands: a child
// that changes the very container its parent is working on (entries deleted
// from / added to a map while a for-in visits it, the iterated variable
// re-bound or emptied, a container shrunk by the right-hand side of an
// assignment into it, a channel closed by the loop that drains it).  Programs
// are source text through the real parser; map key orders are all explored.
func ZZ_C01_interference() {
	zz.PermuteMaps(true)
	n := 1 + zz.Choose(3)
	entries := []string{`"a": 1`, `"b": 2`, `"c": 3`}[:n]
	lit := "{"
	for i, en := range entries {
		if i > 0 {
			lit += ", "
		}
		lit += en
	}
	lit += "}"
	vi := zz.Choose(2)
	vars := []string{"k", "k, v"}[vi]
	use := []string{"x = k", "x = v; y = [k, v]"}[vi]
	muts := []string{
		`delete(m, "a")`, `delete(m, "b")`, `delete(m, "a"); delete(m, "b"); delete(m, "c")`, `delete(m, k)`,
		`m["z"] = 9`, `m = nil`, `m = {}`, `m[k] = nil`, `m = 1`, `for q in m { delete(m, q) }`,
	}
	var src, id string
	switch f := zz.Choose(11); f {
	case 10:
		// container lengths around every integer constant written in the
		// interpreter's own source (cache bounds, chunk sizes): len, the last
		// element, slicing at the end, a full for-in, membership
		var lens []int
		for _, c := range zzCodeConsts {
			for _, n := range []int{c - 1, c, c + 1, c + 2} {
				if n >= 1 && n <= 9000 {
					lens = append(lens, n)
				}
			}
		}
		if len(lens) == 0 {
			return
		}
		ln := lens[zz.Choose(len(lens))]
		kinds := []string{"[]interface{}", "[]int64", "string", "map", "chan"}
		ki := zz.Choose(len(kinds))
		if n != 1 || vi != 0 {
			return // (this family does not use the map literal chosen above: one instance is enough)
		}
		uses := []string{"len(c)", "c[len(c) - 1]", "c[len(c) - 1:]", "c[len(c)]", "len(c) + 1", "[len(c)][0]", "x = len(c); x++; x"}
		ui := zz.Choose(len(uses))
		if ki >= 3 && (ui == 1 || ui == 2 || ui == 3) {
			return
		}
		src = uses[ui]
		id = fmt.Sprintf("length-boundaries/%s/%s/n=%d", kinds[ki], uses[ui], ln)
		zzBoundaryKind, zzBoundaryLen = ki, ln
	case 9:
		// zero values of the types a script can name with make(type T, v): for a
		// module v that is a nil *env.Env, for a caught error a nil *vm.Error,
		// for a function a nil func, for a channel a nil channel, for a pointer a
		// nil pointer - each used in every way a value can be used, at statement
		// level (no enclosing call whose recover would hide a panic)
		pre := []string{"module m { }; make(type T, m); x = make([]T, 1)[0]; ", "zzq = 0; try { throw \"a\" } catch e { make(type T, e); zzq = make([]T, 1) }; x = zzq[0]; ",
			"make(type T, func() { }); x = make([]T, 1)[0]; ", "make(type T, make(chan int64, 1)); x = make([]T, 1)[0]; ", "make(type T, new(int64)); x = make([]T, 1)[0]; ",
			"module m { }; make(type T, m); zzm = make(map[string]T); zzm.a = nil; x = zzm.a; "}
		uses := []string{"x.y", "x.y = 1", "y = x; y", "var y = x; y", "x.y++", "throw x", "make(x.T)", "x()", "x(1, 2)", "go x()", "defer x()", "close(x)", "for q in x { }", "\"\" + x", "x + \"\"", "x == x",
			"x == nil", "*x", "(*x).y", "*x = 1", "x[0]", "x[0] = 1", "x[0:1]", "len(x)", "-x", "!x", "x ? 1 : 2", "x ?? 1", "[x]", "{\"k\": x}", "{x: 1}", "1 in x", "x in [x]", "switch x { case nil: 1 }",
			"delete(x, \"a\")", "delete(x)", "f = func(v...) { return v }; f(x...)", "id = func(v) { return v }; id(x)", "make([]int64, x)", "x.Error()", "x.Error", "e2 = x; e2.y.z = 1", "for p in [x] { p.y }", "for p in [x] { make(p.T) }",
			"x = x", "x += 1", "x.y += 1", "module n { z = x }; n.z.y", "func g() { return x }; g().y", "if x { 1 }", "for x { break }", "return x"}
		pi, ui := zz.Choose(len(pre)), zz.Choose(len(uses))
		if pi == 3 && (ui == 12 || ui == 4) {
			return // (ranging over a nil channel blocks for ever: that is Go's semantics, not a crash)
		}
		src = pre[pi] + uses[ui]
		id = "zero-of-script-named-type/" + []string{"module", "caught-error", "func", "chan", "pointer", "module-in-map"}[pi] + "/" + uses[ui]
	case 7:
		// the loop variable of a for-in over containers whose elements are nil
		// pointers / nil containers / nil, used in every way a value can be used
		conts := []string{"a = make([]*int64, 2)", "a = make(chan *int64, 2); a <- nil; close(a)", "a = [nil, 1]", "a = make([][]int64, 1)",
			"a = make([]map[string]int64, 1)", "a = {\"k\": nil}", "a = make([]*int64, 1); a = [a[0], a]"}
		uses := []string{"r += x", "r = [x]", "if x == nil { r = 1 }", "r = \"a\" + x", "r = x + \"a\"", "r = id(x)", "go func(y) { z = [y] }(x)", "r = x.a", "r = x[0]",
			"r = -x", "r = x ?? 1", "r = {\"k\": x}", "r = {x: 1}", "r = x + 1", "r = [x] + [x]", "r = len(x)", "r = x in [nil]", "switch x { case nil: r = 1 }", "r = *x", "throw x", "r = x ? 1 : 2"}
		ci, ui := zz.Choose(len(conts)), zz.Choose(len(uses))
		src = conts[ci] + "; id = func(v) { return v }; r = []; try { for x in a { " + uses[ui] + " } } catch e { r = 0 }; r"
		id = "for-in-nil-elements/" + conts[ci] + "/" + uses[ui]
	case 8:
		// operators and statements applied to nil pointers / nil typed containers / huge counts
		ops := []string{"a = make([]*int64, 1); \"a\" + a[0]", "a = make([]*int64, 1); a[0] + \"a\"", "a = make([]*int64, 1); a[0] + 1", "a = make([]*int64, 1); -a[0]", "a = make([]*int64, 1); a[0] == a[0]",
			"a = []int64{1}; a + [nil]", "a = []int64{1}; a += [nil]", "a = []string{\"x\"}; a + [nil]", "a = [][]int64{[1]}; a + [[nil]]", "a = [][]int64{[1]}; a + [nil]", "a = []int64{1}; a + nil", "a = make([]int64, 0); a + [nil, 1]",
			"\"ab\" * 4611686018427387904", "\"ab\" * 9223372036854775807", "\"\" * 9223372036854775807", "\"a\" * -1",
			"a = make([]map[string]int64, 1); a[0].k = 1; a", "a = make([]map[string]int64, 1); a[0][\"k\"]", "a = make([][]int64, 1); a[0][0]", "a = make([][]int64, 1); a[0] + 1", "a = make([]*int64, 1); *a[0]", "a = make([]*int64, 1); *a[0] = 1",
			"b = make([]*float64, 1); b[0] = make([]*int64, 1)[0]; b", "c = make(chan *float64, 1); c <- make([]*int64, 1)[0]", "m = make(map[string]*float64); m[\"a\"] = make([]*int64, 1)[0]",
			"m = make(map[*float64]string); m[make([]*int64, 1)[0]] = \"a\"", "x = reterr(); x.Error()", "reterr().Error()", "x = reterr(); x.Error", "go reterr().Error()", "defer reterr().Error()",
			"x = reterr(); x.nosuch = 1", "var a, b = 1; [a, b]", "var a, b, c = 1, 2; c.x",
			// strings whose byte length and character count differ
			"a = \"日本\"; a[2]", "a = \"日本\"; a[5]", "a = \"héllo\"; r = []; for i = 0; i < len(a); i++ { r += a[i] }; r", "a = \"日本\"; a[1:2]", "a = \"日本\"; a[2:]", "a = \"日本\"; a[4] = \"x\"; a",
			"a = \"日本\"; a[6] = \"x\"; a", "a = \"é\"; a[1]", "a = \"\\xff\\xfe\"; a[1]", "a = \"日本\"; for c in a { }", "a = \"日本\"; a[-1]", "a = \"日本\"; a[1] = \"\"; a",
			"a = make([]chan int64, 1); close(a[0])", "a = make([]*int64, 1); a[0].x", "a = make([]*int64, 1); delete(a[0], 1)", "a = make([]*int64, 1); for x in a[0] { }", "a = make([]*int64, 1); len(a[0])", "a = make([]*int64, 1); a[0][0]",
			"a = make([]*int64, 1); a[0][0] = 1", "a = make([]*int64, 1); a[0]()", "a = make([]*int64, 1); f = func(x...) { return x }; f(a[0]...)", "a = make([]*int64, 1); 1 in a[0]", "a = make([]*int64, 1); make([]int64, a[0])",
			// a NaN key into a nil typed map (the assignment makes the map; the entry is never found again)
			"n = 1e308 * 10; n = n - n; a = make([]map[float64]int64, 1); a[0][n]++", "n = 1e308 * 10; n = n - n; a = make([]map[interface]interface, 1); a[0][n] += 1",
			"n = 1e308 * 10; n = n - n; a = make([]map[float64]int64, 1); b = [a[0][n]++]", "n = 1e308 * 10; n = n - n; a = make([]map[float64]int64, 1); a[0][n] = 1", "n = 1e308 * 10; n = n - n; m = make(map[float64]int64); m[n]++; m[n] += 1; m",
			// types a bundled package table can offer (time.Ticker has a field `C <-chan Time`)
			"make(RecvOnly)", "make(SendOnly)", "t = make(Tick); t.C", "make([]RecvOnly, 1)[0]", "make(chan RecvOnly, 1)", "c = make(RecvOnly); close(c)", "c = make(SendOnly); c <- 1", "t = new(Tick); t.C"}
		oi := zz.Choose(len(ops))
		src = ops[oi]
		id = "nil-operands/" + ops[oi]
	case 0:
		mi := zz.Choose(len(muts))
		src = "m = " + lit + "; x = 0; for " + vars + " in m { " + muts[mi] + "; " + use + " }; x"
		id = "for-in-map/" + muts[mi]
	case 1:
		mi := zz.Choose(len(muts))
		src = "m = make(map[string]int64); m.a = 1; m.b = 2; x = 0; for " + vars + " in m { " + muts[mi] + "; " + use + " }; x"
		id = "for-in-typed-map/" + muts[mi]
	case 2:
		sm := []string{`s = []`, `s = nil`, `s[0] = nil`, `s += 1`, `s = s[:0]`, `s = 1`, `s[len(s)] = 5`}
		mi := zz.Choose(len(sm))
		src = "s = [1, 2, 3]; x = 0; for v in s { " + sm[mi] + "; x = v }; x"
		id = "for-in-slice/" + sm[mi]
	case 3:
		// the right-hand side changes the container the left-hand side indexes
		rm := []string{`s = []`, `s = nil`, `s = 1`, `s = s[:1]`, `m = nil`, `delete(m, "a")`}
		mi := zz.Choose(len(rm))
		tg := []string{`s[2]`, `s[1:2]`, `m["a"]`, `m.a`, `s[3]`}
		ti := zz.Choose(len(tg))
		src = "s = [1, 2, 3]; m = " + lit + "; func f() { " + rm[mi] + "; return 7 }; " + tg[ti] + " = f(); [s, m]"
		id = "assign-target-changed-by-value/" + tg[ti] + "/" + rm[mi]
	case 4:
		cm := []string{`close(c)`, `c = nil`, `c <- 1`, `close(c); close(c)`}
		mi := zz.Choose(len(cm))
		src = "c = make(chan int64, 4); c <- 1; c <- 2; x = 0; for v in c { " + cm[mi] + "; x += v; if x > 20 { break } }; x"
		id = "for-in-chan/" + cm[mi]
	case 5:
		// an operand changes the other operand's container between the two evaluations
		om := []string{`s[f()]`, `s[f():]`, `s[:f()]`, `m[g()]`, `s[0] + f()`, `[s[2], f(), s[2]]`, `s[f()] = s[2]`}
		mi := zz.Choose(len(om))
		src = "s = [1, 2, 3]; m = " + lit + "; func f() { s = [9]; return 2 }; func g() { m = nil; return \"a\" }; " + om[mi]
		id = "operand-changes-container/" + om[mi]
	case 6:
		// switch / if / loop conditions re-bound by their own bodies
		pm := []string{`for i = 0; i < len(s); i++ { s = s[:len(s)-1] }`, `for len(s) > 0 { s = s[1:] }`, `switch s { case s: s = nil; case nil: s = 1 }`,
			`for i in s { for j in s { s = s[:0] } }`, `x = 0; for i in range(3) { defer func() { s = nil }() }; s[0]`}
		mi := zz.Choose(len(pm))
		src = "s = [1, 2, 3]; " + pm[mi] + "; s"
		id = "condition-operand-rebound/" + pm[mi]
	}
	if src == "" {
		return
	}
	e := env.NewEnv()
	e.Define("range", func(n int64) []int64 { return make([]int64, n) })
	e.Define("reterr", func() error { return nil }) // a Go function over script values whose result is a nil error
	if zzBoundaryLen > 0 {
		n := zzBoundaryLen
		switch zzBoundaryKind {
		case 0:
			e.Define("c", make([]interface{}, n))
		case 1:
			e.Define("c", make([]int64, n))
		case 2:
			e.Define("c", strings.Repeat("a", n))
		case 3:
			m := make(map[interface{}]interface{}, n)
			for i := 0; i < n; i++ {
				m[int64(i)] = nil
			}
			e.Define("c", m)
		case 4:
			ch := make(chan int64, n)
			for i := 0; i < n; i++ {
				ch <- 1
			}
			e.Define("c", ch)
		}
		zzBoundaryLen = 0
	}
	var zzro <-chan int64
	var zzso chan<- int64
	e.DefineType("RecvOnly", zzro)
	e.DefineType("SendOnly", zzso)
	e.DefineType("Tick", struct{ C <-chan int64 }{})
	e.Define("len", func(v interface{}) int64 {
		rv := reflect.ValueOf(v)
		switch rv.Kind() {
		case reflect.Slice, reflect.Map, reflect.String:
			return int64(rv.Len())
		}
		return 0
	})
	zz.Budget(400000)
	panicked := false
	msg := ""
	func() {
		defer func() {
			if r := recover(); r != nil {
				if _, ok := r.(zz.AssumeFailed); ok {
					panic(r)
				}
				panicked, msg = true, fmt.Sprint(r)
			}
		}()
		_, err := Execute(e, &Options{Debug: false}, src)
		if perr, isParse := err.(*parser.Error); isParse {
			zz.Assertf(false, "C01.interference/generated-program-parses", src+": "+perr.Error())
		}
	}()
	zz.Assertf(!panicked, "C01.interference.no-panic/"+id, src+": "+msg)
}
