package vm

// C20: a value behaves the same wherever it came from.  Relational step
// lemma: every operation template is run twice in fresh, equal environments -
// once with the operand as a literal and once with the same value delivered
// through a provenance chain built from real AST over real containers - and
// must give the same error-or-success, result value and dynamic type.

import (
	"reflect"

	"github.com/mattn/anko/ast"
	"github.com/mattn/anko/env"
	zz "github.com/mattn/anko/zzverif"
)

// provenance hops
const (
	hVar = iota
	hSliceElem
	hMapEntry
	hScriptCall
	hGoCall
	hParen
	hTernary
	hNilCoalesce
	hStructField
	hTypedSliceElem   // element of a Go slice of the value's own type: addressable
	hTypedStructField // field of the value's own type, reached through a struct pointer: addressable
	hPointerDeref     // *p for a pointer to the value's own type: addressable
	hGoCallNamedIface // returned by a Go function declared to return a defined interface type (as `error` is one)
	hNamedIfaceElem   // element of a Go slice whose element type is a defined interface type
	hNumHops
)

// zzAnyBox: a defined interface type every value implements; what holds for it
// holds for error, fmt.Stringer ... for the values that implement those.
type zzAnyBox interface{}

var hNames = []string{"variable", "slice-element", "map-entry", "script-call", "go-call-interface", "paren", "ternary", "nil-coalesce", "struct-field", "typed-slice-element", "typed-struct-field", "pointer-deref", "go-call-defined-interface", "defined-interface-slice-element"}

type zzHolder struct {
	F interface{}
}

// zzThrough wraps expression `inner` (which yields v) in one provenance hop.
// The needed bindings are added to e.
func zzThrough(e *env.Env, hop int, v reflect.Value, inner ast.Expr, depth int) ast.Expr {
	name := []string{"zza", "zzb", "zzc"}[depth]
	var iv interface{}
	if v.IsValid() && v.CanInterface() {
		iv = v.Interface()
	}
	switch hop {
	case hVar:
		// x = inner; read x
		zzExec(e, &ast.LetsStmt{LHSS: []ast.Expr{zzIdent(name)}, RHSS: []ast.Expr{inner}})
		return zzIdent(name)
	case hSliceElem:
		return &ast.ItemExpr{Item: &ast.ArrayExpr{Exprs: []ast.Expr{inner}}, Index: zzLit(int64(0))}
	case hMapEntry:
		return &ast.ItemExpr{Item: &ast.MapExpr{Keys: []ast.Expr{zzLit("k")}, Values: []ast.Expr{inner}}, Index: zzLit("k")}
	case hScriptCall:
		fn := &ast.FuncExpr{Stmt: &ast.ReturnStmt{Exprs: []ast.Expr{inner}}}
		return &ast.AnonCallExpr{Expr: fn}
	case hGoCall:
		e.Define("zzid", zzGoIdentity)
		return &ast.CallExpr{Name: "zzid", SubExprs: []ast.Expr{inner}}
	case hParen:
		return &ast.ParenExpr{SubExpr: inner}
	case hTernary:
		return &ast.TernaryOpExpr{Expr: zzLit(true), LHS: inner, RHS: zzLit(int64(0))}
	case hNilCoalesce:
		return &ast.NilCoalescingOpExpr{LHS: zzBad(), RHS: inner}
	case hStructField:
		h := &zzHolder{F: iv}
		e.Define(name+"h", h)
		return &ast.MemberExpr{Expr: zzIdent(name + "h"), Name: "F"}
	case hGoCallNamedIface:
		e.Define("zzbox", func(x interface{}) zzAnyBox { return x })
		return &ast.CallExpr{Name: "zzbox", SubExprs: []ast.Expr{inner}}
	case hNamedIfaceElem:
		e.Define(name+"bs", []zzAnyBox{iv})
		return &ast.ItemExpr{Item: zzIdent(name + "bs"), Index: zzLit(int64(0))}
	case hTypedSliceElem, hTypedStructField, hPointerDeref:
		// containers of the value's own static type hand out addressable values
		// (the hop evaluates inner for its effects on the tape only: the container holds v)
		if !v.IsValid() || !v.CanInterface() || v.Kind() == reflect.Interface {
			return inner
		}
		switch hop {
		case hTypedSliceElem:
			s := reflect.MakeSlice(reflect.SliceOf(v.Type()), 1, 1)
			s.Index(0).Set(v)
			e.DefineValue(name+"ts", s)
			return &ast.ItemExpr{Item: zzIdent(name + "ts"), Index: zzLit(int64(0))}
		case hTypedStructField:
			st := reflect.New(reflect.StructOf([]reflect.StructField{{Name: "F", Type: v.Type()}}))
			st.Elem().Field(0).Set(v)
			e.DefineValue(name+"tf", st)
			return &ast.MemberExpr{Expr: zzIdent(name + "tf"), Name: "F"}
		default:
			p := reflect.New(v.Type())
			p.Elem().Set(v)
			e.DefineValue(name+"tp", p)
			return &ast.DerefExpr{Expr: zzIdent(name + "tp")}
		}
	}
	return inner
}

// operation templates: build the operation around operand expression x.
var zzTemplates = []string{
	"neg", "bitnot", "not",
	"add-l", "add-r", "sub-l", "mul-l", "mul-r", "div-r", "mod-l", "shl-r", "and-l",
	"lt-l", "lt-r", "eq-l", "eq-r", "andand-l", "oror-r", "nil-coalesce-l", "nil-coalesce-r",
	"index-item", "index-index", "slice-item", "slice-begin", "len", "in-item", "in-list",
	"call-callee", "call-arg", "call-spread", "member", "deref", "addr-deref",
	"for-in", "switch-subject", "switch-case", "if-cond", "loop-cond", "ternary-cond",
	"make-len", "chan-send-value", "chan-recv", "close", "delete-item", "delete-key", "throw",
	"assign-source", "multi-assign-source", "var-multi-source", "item-assign-target", "defer-callee", "array-elem", "map-value", "map-key", "return",
	"delete-global-flag", "switch-subject-nil-case", "switch-nil-subject-case", "eq-nil-l", "eq-nil-r", "make-type", "chan-send-channel", "go-callee", "delete-name",
	"go-call-own-type-arg", "typed-list-literal-elem", "typed-map-literal-value",
}

// zzCurVal: the value of the class under test (templates that need its type)
var zzCurVal reflect.Value

func zzTemplate(e *env.Env, t string, x ast.Expr) ast.Stmt {
	one := zzLit(int64(1))
	ex := func(x ast.Expr) ast.Stmt { return &ast.ExprStmt{Expr: x} }
	body := &ast.StmtsStmt{Stmts: []ast.Stmt{ex(zzLit(int64(5)))}}
	switch t {
	case "neg":
		return ex(&ast.UnaryExpr{Operator: "-", Expr: x})
	case "bitnot":
		return ex(&ast.UnaryExpr{Operator: "^", Expr: x})
	case "not":
		return ex(&ast.UnaryExpr{Operator: "!", Expr: x})
	case "add-l":
		return ex(zzBinOp("+", x, one))
	case "add-r":
		return ex(zzBinOp("+", one, x))
	case "sub-l":
		return ex(zzBinOp("-", x, one))
	case "mul-l":
		return ex(zzBinOp("*", x, zzLit(int64(2))))
	case "mul-r":
		return ex(zzBinOp("*", zzLit(int64(2)), x))
	case "div-r":
		return ex(zzBinOp("/", one, x))
	case "mod-l":
		return ex(zzBinOp("%", x, zzLit(int64(3))))
	case "shl-r":
		return ex(zzBinOp("<<", one, x))
	case "and-l":
		return ex(zzBinOp("&", x, zzLit(int64(6))))
	case "lt-l":
		return ex(zzBinOp("<", x, one))
	case "lt-r":
		return ex(zzBinOp("<", one, x))
	case "eq-l":
		return ex(zzBinOp("==", x, one))
	case "eq-r":
		return ex(zzBinOp("==", one, x))
	case "andand-l":
		return ex(zzBinOp("&&", x, zzLit(true)))
	case "oror-r":
		return ex(zzBinOp("||", zzLit(false), x))
	case "nil-coalesce-l":
		return ex(&ast.NilCoalescingOpExpr{LHS: x, RHS: zzLit("right")})
	case "nil-coalesce-r":
		return ex(&ast.NilCoalescingOpExpr{LHS: zzLit(nil), RHS: x})
	case "index-item":
		return ex(&ast.ItemExpr{Item: x, Index: zzLit(int64(0))})
	case "index-index":
		return ex(&ast.ItemExpr{Item: zzLit([]interface{}{int64(10), int64(11)}), Index: x})
	case "slice-item":
		return ex(&ast.SliceExpr{Item: x, Begin: zzLit(int64(0)), End: one})
	case "slice-begin":
		return ex(&ast.SliceExpr{Item: zzLit([]interface{}{int64(10), int64(11)}), Begin: x})
	case "len":
		return ex(&ast.LenExpr{Expr: x})
	case "in-item":
		return ex(&ast.IncludeExpr{ItemExpr: x, ListExpr: zzLit([]interface{}{int64(1), "abc"})})
	case "in-list":
		return ex(&ast.IncludeExpr{ItemExpr: one, ListExpr: x})
	case "call-callee":
		return ex(&ast.AnonCallExpr{Expr: x, SubExprs: []ast.Expr{one}})
	case "call-arg":
		e.DefineValue("zzf1", zzScriptFunc(1, false))
		return ex(&ast.CallExpr{Name: "zzf1", SubExprs: []ast.Expr{x}})
	case "go-call-own-type-arg":
		// a Go function whose parameter has the value's own concrete type
		if !zzCurVal.IsValid() || !zzCurVal.CanInterface() || zzCurVal.Kind() == reflect.Interface {
			return ex(x)
		}
		ft := reflect.FuncOf([]reflect.Type{zzCurVal.Type()}, []reflect.Type{interfaceType}, false)
		e.DefineValue("zzwants", reflect.MakeFunc(ft, func(in []reflect.Value) []reflect.Value {
			out := reflect.New(interfaceType).Elem()
			out.Set(in[0])
			return []reflect.Value{out}
		}))
		return ex(&ast.CallExpr{Name: "zzwants", SubExprs: []ast.Expr{x}})
	case "typed-list-literal-elem", "typed-map-literal-value":
		if !zzCurVal.IsValid() || !zzCurVal.CanInterface() || zzCurVal.Kind() == reflect.Interface {
			return ex(x)
		}
		e.DefineReflectType("zzT", zzCurVal.Type())
		if t == "typed-list-literal-elem" {
			// (the element is read back: functions, channels and pointers are compared by type)
			return ex(&ast.ItemExpr{Item: &ast.ArrayExpr{TypeData: &ast.TypeStruct{Kind: ast.TypeSlice, SubType: &ast.TypeStruct{Name: "zzT"}, Dimensions: 1}, Exprs: []ast.Expr{x}}, Index: zzLit(int64(0))})
		}
		return ex(&ast.ItemExpr{Item: &ast.MapExpr{TypeData: &ast.TypeStruct{Kind: ast.TypeMap, Key: &ast.TypeStruct{Name: "string"}, SubType: &ast.TypeStruct{Name: "zzT"}}, Keys: []ast.Expr{zzLit("k")}, Values: []ast.Expr{x}}, Index: zzLit("k")})
	case "call-spread":
		e.DefineValue("zzf2", zzScriptFunc(2, false))
		return ex(&ast.CallExpr{Name: "zzf2", SubExprs: []ast.Expr{x}, VarArg: true})
	case "member":
		return ex(&ast.MemberExpr{Expr: x, Name: "A"})
	case "deref":
		return ex(&ast.DerefExpr{Expr: x})
	case "addr-deref":
		return ex(&ast.DerefExpr{Expr: &ast.AddrExpr{Expr: x}})
	case "for-in":
		return &ast.ForStmt{Vars: []string{"zzi"}, Value: x, Stmt: body}
	case "switch-subject":
		return &ast.SwitchStmt{Expr: x, Cases: []ast.Stmt{&ast.SwitchCaseStmt{Exprs: []ast.Expr{one}, Stmt: ex(zzLit("hit"))}}, Default: ex(zzLit("miss"))}
	case "switch-case":
		return &ast.SwitchStmt{Expr: one, Cases: []ast.Stmt{&ast.SwitchCaseStmt{Exprs: []ast.Expr{x}, Stmt: ex(zzLit("hit"))}}, Default: ex(zzLit("miss"))}
	case "if-cond":
		return &ast.IfStmt{If: x, Then: ex(zzLit("then")), Else: ex(zzLit("else"))}
	case "loop-cond":
		return &ast.LoopStmt{Expr: x, Stmt: &ast.StmtsStmt{Stmts: []ast.Stmt{&ast.BreakStmt{}}}}
	case "ternary-cond":
		return ex(&ast.TernaryOpExpr{Expr: x, LHS: zzLit("t"), RHS: zzLit("f")})
	case "make-len":
		return ex(&ast.MakeExpr{TypeData: &ast.TypeStruct{Kind: ast.TypeSlice, SubType: &ast.TypeStruct{Name: "int64"}, Dimensions: 1}, LenExpr: x})
	case "chan-send-value":
		ch := make(chan interface{}, 1)
		return ex(&ast.ChanExpr{LHS: zzLit(ch), RHS: x})
	case "chan-recv":
		return ex(&ast.ChanExpr{RHS: x})
	case "close":
		return &ast.CloseStmt{Expr: x}
	case "delete-item":
		return &ast.DeleteStmt{Item: x, Key: zzLit("k")}
	case "delete-key":
		return &ast.DeleteStmt{Item: zzLit(map[interface{}]interface{}{"k": int64(1)}), Key: x}
	case "throw":
		return &ast.ThrowStmt{Expr: x}
	case "assign-source":
		return &ast.LetsStmt{LHSS: []ast.Expr{zzIdent("zzt")}, RHSS: []ast.Expr{x}}
	case "multi-assign-source":
		return &ast.StmtsStmt{Stmts: []ast.Stmt{&ast.LetsStmt{LHSS: []ast.Expr{zzIdent("zzm1"), zzIdent("zzm2")}, RHSS: []ast.Expr{x}},
			ex(&ast.ArrayExpr{Exprs: []ast.Expr{&ast.NilCoalescingOpExpr{LHS: zzIdent("zzm1"), RHS: zzLit("unset")}, &ast.NilCoalescingOpExpr{LHS: zzIdent("zzm2"), RHS: zzLit("unset")}}})}}
	case "var-multi-source":
		return &ast.StmtsStmt{Stmts: []ast.Stmt{&ast.VarStmt{Names: []string{"zzm1", "zzm2"}, Exprs: []ast.Expr{x}},
			ex(&ast.ArrayExpr{Exprs: []ast.Expr{&ast.NilCoalescingOpExpr{LHS: zzIdent("zzm1"), RHS: zzLit("unset")}, &ast.NilCoalescingOpExpr{LHS: zzIdent("zzm2"), RHS: zzLit("unset")}}})}}
	case "item-assign-target":
		return &ast.LetsStmt{LHSS: []ast.Expr{&ast.ItemExpr{Item: x, Index: zzLit(int64(0))}}, RHSS: []ast.Expr{one}}
	case "defer-callee":
		return &ast.StmtsStmt{Stmts: []ast.Stmt{&ast.DeferStmt{Expr: &ast.AnonCallExpr{Expr: x, SubExprs: []ast.Expr{one}}}, ex(zzLit(int64(9)))}}
	case "array-elem":
		return ex(&ast.ArrayExpr{Exprs: []ast.Expr{x}})
	case "map-value":
		return ex(&ast.MapExpr{Keys: []ast.Expr{zzLit("k")}, Values: []ast.Expr{x}})
	case "map-key":
		return ex(&ast.MapExpr{Keys: []ast.Expr{x}, Values: []ast.Expr{one}})
	case "return":
		return &ast.ReturnStmt{Exprs: []ast.Expr{x}}
	case "delete-global-flag":
		// delete(name, flag) inside a function: a true flag removes the global binding
		e.Define("zzg", int64(1))
		fn := &ast.FuncExpr{Stmt: &ast.DeleteStmt{Item: zzLit("zzg"), Key: x}}
		return &ast.StmtsStmt{Stmts: []ast.Stmt{ex(&ast.AnonCallExpr{Expr: fn}), ex(&ast.NilCoalescingOpExpr{LHS: zzIdent("zzg"), RHS: zzLit("deleted")})}}
	case "delete-name":
		e.Define("abc", int64(1))
		return &ast.StmtsStmt{Stmts: []ast.Stmt{&ast.DeleteStmt{Item: x}, ex(&ast.NilCoalescingOpExpr{LHS: zzIdent("abc"), RHS: zzLit("deleted")})}}
	case "switch-subject-nil-case":
		return &ast.SwitchStmt{Expr: x, Cases: []ast.Stmt{&ast.SwitchCaseStmt{Exprs: []ast.Expr{zzLitRV(nilValue)}, Stmt: ex(zzLit("hit"))}}, Default: ex(zzLit("miss"))}
	case "switch-nil-subject-case":
		return &ast.SwitchStmt{Expr: zzLitRV(nilValue), Cases: []ast.Stmt{&ast.SwitchCaseStmt{Exprs: []ast.Expr{x}, Stmt: ex(zzLit("hit"))}}, Default: ex(zzLit("miss"))}
	case "eq-nil-l":
		return ex(zzBinOp("==", x, zzLitRV(nilValue)))
	case "eq-nil-r":
		return ex(zzBinOp("!=", zzLitRV(nilValue), x))
	case "make-type":
		// make(type T, x) names x's dynamic type; a value made of it shows which
		return &ast.StmtsStmt{Stmts: []ast.Stmt{ex(&ast.MakeTypeExpr{Name: "ZZT", Type: x}),
			ex(&ast.MakeExpr{TypeData: &ast.TypeStruct{Kind: ast.TypeSlice, SubType: &ast.TypeStruct{Name: "ZZT"}, Dimensions: 1}, LenExpr: one})}}
	case "chan-send-channel":
		return ex(&ast.ChanExpr{LHS: x, RHS: one})
	case "go-callee":
		return &ast.GoroutineStmt{Expr: &ast.AnonCallExpr{Expr: x, SubExprs: []ast.Expr{one}, Go: true}}
	}
	return nil
}

type zzOutcome struct {
	ok       bool
	panicked bool
	v        interface{}
}

func zzRunTemplate(e *env.Env, st ast.Stmt) (out zzOutcome) {
	defer func() {
		if r := recover(); r != nil {
			if _, ok := r.(zz.AssumeFailed); ok {
				panic(r)
			}
			out = zzOutcome{panicked: true}
		}
	}()
	v, err := Run(e, &Options{Debug: false}, st)
	return zzOutcome{ok: err == nil, v: v}
}

// zzSameResult: same value and same dynamic type (functions, channels and
// pointers are distinct objects per run: their dynamic type is compared;
// all NaNs are one value).
func zzSameResult(a, b interface{}) bool {
	if a == nil || b == nil {
		return a == nil && b == nil
	}
	ta, tb := reflect.TypeOf(a), reflect.TypeOf(b)
	if ta != tb {
		return false
	}
	switch x := a.(type) {
	case float64:
		return zzSameFloat(x, b.(float64))
	case []interface{}:
		y := b.([]interface{})
		if len(x) != len(y) {
			return false
		}
		ok := true
		for i := range x {
			ok = zz.And(ok, zzSameResult(x[i], y[i]))
		}
		return ok
	case map[interface{}]interface{}:
		y := b.(map[interface{}]interface{})
		if len(x) != len(y) {
			return false
		}
		ok := true
		for k, v := range x {
			kt := reflect.TypeOf(k)
			if kt != nil && (kt.Kind() == reflect.Ptr || kt.Kind() == reflect.Chan || kt.Kind() == reflect.Float64) {
				continue // keys that are distinct objects per run / NaN: only the count is compared
			}
			w, has := y[k]
			if !has {
				return false
			}
			ok = zz.And(ok, zzSameResult(v, w))
		}
		return ok
	}
	switch ta.Kind() {
	case reflect.Func, reflect.Chan, reflect.Ptr:
		return true
	}
	return reflect.DeepEqual(a, b)
}

func zzC20(chainLen int) {
	t := zzTemplates[zz.Choose(len(zzTemplates))]
	c := zz.Choose(uNumClasses)
	hops := make([]int, chainLen)
	for i := range hops {
		hops[i] = zz.Choose(hNumHops)
	}
	id := t + "/" + uNames[c] + "/" + hNames[hops[0]]
	if t == "item-assign-target" && (c == uStringEmpty || c == uStringABC || c == uStringNumeral || c == uNamedString || c == uSliceEmpty || c == uSliceNilTyped || c == uMapNilTyped) {
		// the store must re-bind its target (string rebuild, append at len):
		// whether that is possible depends on the target expression being an
		// l-value, not on the value's provenance
		return
	}

	if t == "make-type" && c == uNil && (hops[0] == hGoCallNamedIface || hops[0] == hNamedIfaceElem) {
		// the only thing a nil knows is the static type of the slot it sits in:
		// make(type T, nilErr()) names that interface type, make(type T, nil) interface{}
		return
	}

	// run 1: literal operand
	zzTapeStart()
	e1 := env.NewEnv()
	v1 := zzValueOf(c)
	zzCurVal = v1
	var x1 ast.Expr = zzLitRV(v1)
	if t == "item-assign-target" {
		x1 = zzThrough(e1, hVar, v1, x1, 2)
	}
	r1 := zzRunTemplate(e1, zzTemplate(e1, t, x1))

	// run 2: the same value through the provenance chain, fresh environment
	zzTapeReplay()
	e2 := env.NewEnv()
	v2 := zzValueOf(c)
	var x ast.Expr = zzLitRV(v2)
	for d, h := range hops {
		x = zzThrough(e2, h, v2, x, d)
	}
	r2 := zzRunTemplate(e2, zzTemplate(e2, t, x))

	if r1.panicked || r2.panicked {
		// crash-freedom is C01's obligation; nothing to compare
		zz.Assert(r1.panicked == r2.panicked, "C20.same-crash-behaviour/"+id)
		return
	}
	zz.Assert(r1.ok == r2.ok, "C20.same-error-or-success/"+id)
	if r1.ok && r2.ok {
		zz.Assert(zzSameResult(r1.v, r2.v), "C20.same-result/"+id)
	}
}

func ZZ_C20_chain1() { zzC20(1) }
func ZZ_C20_chain2() { zzC20(2) }
