package vm

import (
	"github.com/mattn/anko/ast"
	"github.com/mattn/anko/env"
	zz "github.com/mattn/anko/zzverif"
)

func zzRun(src string) (interface{}, error) {
	e := env.NewEnv()
	return Execute(e, nil, src)
}

func ZZ_smoke_add() {
	v, err := zzRun("1+2")
	zz.Assert(err == nil, "smoke.noerr")
	i, ok := v.(int64)
	zz.Assert(ok && i == 3, "smoke.value")
}

func ZZ_smoke_floatidx() {
	inner := []string{"+", "-", "*", "/"}
	op1 := inner[zz.Choose(len(inner))]
	op2 := []string{"|", ">>"}[zz.Choose(2)]
	xv, _ := zzNumOf(zz.Choose(2))
	yv, _ := zzNumOf(zz.Choose(2))
	zv, _ := zzNumOf(zz.Choose(2))
	var expr ast.Expr
	if zz.Choose(2) == 0 {
		expr = zzBinOp(op2, zzBinOp(op1, zzLit(xv), zzLit(yv)), zzLit(zv))
	} else {
		expr = zzBinOp(op2, zzLit(xv), zzBinOp(op1, zzLit(yv), zzLit(zv)))
	}
	rv, err := zzEval(env.NewEnv(), expr)
	zz.Assert(err == nil && rv.IsValid(), "smoke.floatidx")
}
