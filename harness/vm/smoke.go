package vm

import (
	"github.com/mattn/anko/env"
	zz "github.com/mattn/anko/zzverif"
)

func zzRun(src string) (interface{}, error) {
	e := env.NewEnv()
	return Execute(e, nil, src)
}

func ZZ_smoke_add() {
	v, err := zzRun("1+2")
	zz.Assert(err == nil, "smoke.noerr")
	i, ok := v.(int64)
	zz.Assert(ok && i == 3, "smoke.value")
}
