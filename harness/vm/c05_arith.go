package vm

// C05: arithmetic follows the int64/float64/string tower exactly.
// Differential harness: the real operator code on Lit(x), Lit(y) with fully
// symbolic 64-bit payloads against the Go expression the statement names.

import (
	"reflect"

	"github.com/mattn/anko/ast"
	"github.com/mattn/anko/env"
	zz "github.com/mattn/anko/zzverif"
)

var zzArithOps = []string{"+", "-", "*", "/", "%", "&", "|", "<<", ">>", "==", "!=", "<", "<=", ">", ">="}

// zzArithClasses: 0 int64, 1 float64 (what script literals produce); 2.. the
// signed integer and float kinds a host program can hand in, which enter the
// tower by Go's conversion to int64 / float64.
// uint8 (what toByteSlice and make([]byte, n) put into a script's hands) and
// uint64 below 2^63 (above it an unsigned value has no int64 reading: outside
// this table) enter the tower as integers as well.
var zzArithClasses = []string{"int", "float", "goint", "int32", "int16", "int8", "float32", "uint8", "uint64"}

// zzNumOperand returns a symbolic number of class c and its float64 / int64
// views.
func zzNumOperand(c int) (v interface{}, isInt bool, i int64, f float64) {
	switch c {
	case 0:
		i = zz.Int64()
		return i, true, i, float64(i)
	case 2:
		n := zz.Int()
		return n, true, int64(n), float64(int64(n))
	case 3:
		n := zz.Int32()
		return n, true, int64(n), float64(int64(n))
	case 4:
		n := zz.Int16()
		return n, true, int64(n), float64(int64(n))
	case 5:
		n := zz.Int8()
		return n, true, int64(n), float64(int64(n))
	case 6:
		g := zz.Float32()
		return g, false, 0, float64(g)
	case 7:
		n := zz.Uint8()
		return n, true, int64(n), float64(int64(n))
	case 8:
		n := zz.Uint64()
		zz.Assume(n < 1<<63)
		return n, true, int64(n), float64(int64(n))
	}
	f = zz.Float64()
	return f, false, 0, f
}

func ZZ_C05_binary_numeric() {
	zzC05Binary(zz.Choose(2), zz.Choose(2))
}

// ZZ_C05_binary_host_kinds: the same table with at least one operand of a
// host-only numeric kind (int, int32, int16, int8, float32).
func ZZ_C05_binary_host_kinds() {
	// (quick tier: every class but uint64, whose 64-bit unsigned products and
	// float conversions are the slowest queries of the table)
	n := len(zzArithClasses) - 1
	cx, cy := zz.Choose(n), zz.Choose(n)
	if cx < 2 && cy < 2 {
		return
	}
	zzC05Binary(cx, cy)
}

// ZZ_C05_binary_host_kinds_u64 (thorough tier): the pairs with a uint64 operand.
func ZZ_C05_binary_host_kinds_u64() {
	u := len(zzArithClasses) - 1
	cx, cy := u, zz.Choose(len(zzArithClasses))
	if zz.Choose(2) == 1 {
		cx, cy = cy, cx
	}
	zzC05Binary(cx, cy)
}

func zzC05Binary(cx, cy int) {
	op := zzArithOps[zz.Choose(len(zzArithOps))]
	x, xInt, xi, xf := zzNumOperand(cx)
	y, yInt, yi, yf := zzNumOperand(cy)
	cls := zzArithClasses[cx] + "," + zzArithClasses[cy]
	if (op == "==" || op == "!=") && cx != cy {
		return // C06 owns mixed equality
	}
	rv, err := zzEval(env.NewEnv(), zzBinOp(op, zzLit(x), zzLit(y)))
	bothInt := xInt && yInt
	id := "C05." + op + "/" + cls
	switch op {
	case "==", "!=":
		zz.Assert(err == nil && rv.Kind() == reflect.Bool, id+"/kind")
		var want bool
		if bothInt {
			want = xi == yi
		} else {
			want = xf == yf
		}
		if op == "!=" {
			want = zz.Not(want)
		}
		zz.Assert(rv.Bool() == want, id+"/value")
	case "<", "<=", ">", ">=":
		zz.Assert(err == nil && rv.Kind() == reflect.Bool, id+"/kind")
		var want bool
		if bothInt {
			switch op {
			case "<":
				want = xi < yi
			case "<=":
				want = xi <= yi
			case ">":
				want = xi > yi
			case ">=":
				want = xi >= yi
			}
		} else {
			switch op {
			case "<":
				want = xf < yf
			case "<=":
				want = xf <= yf
			case ">":
				want = xf > yf
			case ">=":
				want = xf >= yf
			}
		}
		zz.Assert(rv.Bool() == want, id+"/value")
	case "/":
		zz.Assert(err == nil && rv.Kind() == reflect.Float64, id+"/kind")
		zz.Assert(zzSameFloat(rv.Float(), xf/yf), id+"/value")
	case "+", "-", "*":
		zz.Assert(err == nil, id+"/no-error")
		if bothInt {
			zz.Assert(rv.Kind() == reflect.Int64, id+"/kind")
			if rv.Kind() != reflect.Int64 {
				return
			}
			var want int64
			switch op {
			case "+":
				want = xi + yi
			case "-":
				want = xi - yi
			case "*":
				want = xi * yi
			}
			zz.Assert(rv.Int() == want, id+"/value")
		} else {
			zz.Assert(rv.Kind() == reflect.Float64, id+"/kind")
			if rv.Kind() != reflect.Float64 {
				return
			}
			var want float64
			switch op {
			case "+":
				want = xf + yf
			case "-":
				want = xf - yf
			case "*":
				want = xf * yf
			}
			zz.Assert(zzSameFloat(rv.Float(), want), id+"/value")
		}
	case "%", "&", "|", "<<", ">>":
		if !bothInt {
			return // the statement fixes these on integer operands only
		}
		if op == "%" {
			if yi == 0 {
				zz.Assert(err != nil, id+"/zero-divisor-is-error")
				return
			}
		}
		zz.Assert(err == nil && rv.Kind() == reflect.Int64, id+"/kind")
		var want int64
		switch op {
		case "%":
			want = xi % yi
		case "&":
			want = xi & yi
		case "|":
			want = xi | yi
		case "<<":
			want = xi << uint64(yi)
		case ">>":
			want = xi >> uint64(yi)
		}
		zz.Assert(rv.Int() == want, id+"/value")
	}
}

func ZZ_C05_unary_numeric() { zzC05Unary(zz.Choose(2)) }

func ZZ_C05_unary_host_kinds() { zzC05Unary(2 + zz.Choose(len(zzArithClasses)-2)) }

func zzC05Unary(c int) {
	op := []string{"-", "^", "!"}[zz.Choose(3)]
	x, xInt, xi, xf := zzNumOperand(c)
	rv, err := zzEval(env.NewEnv(), &ast.UnaryExpr{Operator: op, Expr: zzLit(x)})
	id := "C05.unary" + op + "/" + zzArithClasses[c]
	switch op {
	case "-":
		zz.Assert(err == nil, id+"/no-error")
		if xInt {
			zz.Assert(rv.Kind() == reflect.Int64, id+"/kind")
			zz.Assert(rv.Int() == -xi, id+"/value")
		} else {
			zz.Assert(rv.Kind() == reflect.Float64, id+"/kind")
			zz.Assert(zzSameFloat(rv.Float(), -xf), id+"/value")
		}
	case "^":
		if !xInt {
			return
		}
		zz.Assert(err == nil && rv.Kind() == reflect.Int64, id+"/kind")
		zz.Assert(rv.Int() == ^xi, id+"/value")
	case "!":
		zz.Assert(err == nil && rv.Kind() == reflect.Bool, id+"/kind")
		if xInt {
			zz.Assert(rv.Bool() == (xi == 0), id+"/value")
		}
	}
}

// ZZ_C05_int64Value: the cached small integers are indistinguishable from
// boxing on demand, for every int64.
func ZZ_C05_int64Value() {
	v := zz.Int64()
	rv := int64Value(v)
	zz.Assert(rv.IsValid() && rv.Kind() == reflect.Int64, "C05.int64Value/kind")
	zz.Assert(rv.Int() == v, "C05.int64Value/value")
	zz.Assert(!rv.CanSet() && !rv.CanAddr(), "C05.int64Value/not-addressable")
}

// ZZ_C05_string_concat: s + t on bounded symbolic ASCII strings.
func ZZ_C05_string_concat() {
	s := zz.SymString(zz.Choose(3))
	t := zz.SymString(zz.Choose(3))
	rv, err := zzEval(env.NewEnv(), zzBinOp("+", zzLit(s), zzLit(t)))
	zz.Assert(err == nil && rv.Kind() == reflect.String, "C05.string+string/kind")
	zz.Assert(rv.String() == s+t, "C05.string+string/value")
}

var zzNumPool = []interface{}{int64(0), int64(-1), int64(4096), int64(9007199254740993), int64(-9223372036854775808),
	float64(0.1), float64(1e21), float64(-2.5), float64(100000), float64(1e6), uint8(65), uint64(7), int32(-3), uint16(300)}

// zzGoFormat: Go's default formatting of the pool members (fmt %v).
var zzNumPoolText = []string{"0", "-1", "4096", "9007199254740993", "-9223372036854775808", "0.1", "1e+21", "-2.5", "100000", "1e+06", "65", "7", "-3", "300"}

// ZZ_C05_string_number: string + number and number + string concatenate
// with the number in Go's default formatting (concrete pool).
func ZZ_C05_string_number() {
	s := zz.SymString(zz.Choose(3))
	i := zz.Choose(len(zzNumPool))
	if zz.Choose(2) == 0 {
		rv, err := zzEval(env.NewEnv(), zzBinOp("+", zzLit(s), zzLit(zzNumPool[i])))
		zz.Assert(err == nil && rv.Kind() == reflect.String, "C05.string+number/kind")
		zz.Assert(rv.String() == s+zzNumPoolText[i], "C05.string+number/value")
	} else {
		rv, err := zzEval(env.NewEnv(), zzBinOp("+", zzLit(zzNumPool[i]), zzLit(s)))
		zz.Assert(err == nil && rv.Kind() == reflect.String, "C05.number+string/kind")
		zz.Assert(rv.String() == zzNumPoolText[i]+s, "C05.number+string/value")
	}
}

// ZZ_C05_string_repeat: string * n repeats n times; negative n is an error.
func ZZ_C05_string_repeat() {
	s := zz.SymString(zz.Choose(3))
	n := zz.Choose(5) - 1
	var count interface{} = int64(n)
	if n >= 0 {
		// the count may be of any integer kind
		count = []interface{}{int64(n), int(n), int32(n), int16(n), int8(n), uint8(n), uint64(n), uint(n)}[zz.Choose(8)]
	}
	rv, err := zzEval(env.NewEnv(), zzBinOp("*", zzLit(s), zzLit(count)))
	if n < 0 {
		zz.Assert(err != nil, "C05.string*n/negative-is-error")
		return
	}
	zz.Assert(err == nil && rv.Kind() == reflect.String, "C05.string*n/kind")
	want := ""
	for k := 0; k < n; k++ {
		want += s
	}
	zz.Assert(rv.String() == want, "C05.string*n/value")
}

// ZZ_C05_tree2: a depth-2 tree (x op1 y) op2 z over int64: a result behaves
// like any other operand.
func ZZ_C05_tree2() {
	ops := []string{"+", "-", "*", "&", "|"}
	op1 := ops[zz.Choose(len(ops))]
	op2 := ops[zz.Choose(len(ops))]
	x, y, z := zz.Int64(), zz.Int64(), zz.Int64()
	rv, err := zzEval(env.NewEnv(), zzBinOp(op2, zzBinOp(op1, zzLit(x), zzLit(y)), zzLit(z)))
	f := func(op string, a, b int64) int64 {
		switch op {
		case "+":
			return a + b
		case "-":
			return a - b
		case "*":
			return a * b
		case "&":
			return a & b
		}
		return a | b
	}
	zz.Assert(err == nil && rv.Kind() == reflect.Int64, "C05.tree2/kind")
	zz.Assert(rv.Int() == f(op2, f(op1, x, y), z), "C05.tree2/value")
}

// ---- mixed-class trees and the assignment shorthands

// zzNum: a value of the numeric tower with both readings.
type zzNum struct {
	isInt  bool
	isBool bool
	i      int64
	f      float64
	b      bool
}

func (n zzNum) asFloat() float64 {
	if n.isInt {
		return float64(n.i)
	}
	return n.f
}

// zzTower: the statement's reading of one operator on two numbers.  ok is
// false where the statement leaves the result open (bit operators on floats)
// or makes it an error (% by zero).
func zzTower(op string, a, b zzNum) (r zzNum, ok bool, isErr bool) {
	both := a.isInt && b.isInt
	switch op {
	case "+", "-", "*":
		if both {
			switch op {
			case "+":
				return zzNum{isInt: true, i: a.i + b.i}, true, false
			case "-":
				return zzNum{isInt: true, i: a.i - b.i}, true, false
			}
			return zzNum{isInt: true, i: a.i * b.i}, true, false
		}
		x, y := a.asFloat(), b.asFloat()
		switch op {
		case "+":
			return zzNum{f: x + y}, true, false
		case "-":
			return zzNum{f: x - y}, true, false
		}
		return zzNum{f: x * y}, true, false
	case "/":
		return zzNum{f: a.asFloat() / b.asFloat()}, true, false
	case "%", "&", "|", "<<", ">>":
		if !both {
			return zzNum{}, false, false
		}
		switch op {
		case "%":
			if b.i == 0 {
				return zzNum{}, true, true
			}
			return zzNum{isInt: true, i: a.i % b.i}, true, false
		case "&":
			return zzNum{isInt: true, i: a.i & b.i}, true, false
		case "|":
			return zzNum{isInt: true, i: a.i | b.i}, true, false
		case "<<":
			return zzNum{isInt: true, i: a.i << uint64(b.i)}, true, false
		}
		return zzNum{isInt: true, i: a.i >> uint64(b.i)}, true, false
	case "<", "<=", ">", ">=":
		var res bool
		if both {
			switch op {
			case "<":
				res = a.i < b.i
			case "<=":
				res = a.i <= b.i
			case ">":
				res = a.i > b.i
			default:
				res = a.i >= b.i
			}
		} else {
			x, y := a.asFloat(), b.asFloat()
			switch op {
			case "<":
				res = x < y
			case "<=":
				res = x <= y
			case ">":
				res = x > y
			default:
				res = x >= y
			}
		}
		return zzNum{isBool: true, b: res}, true, false
	}
	return zzNum{}, false, false
}

func zzNumOf(c int) (interface{}, zzNum) {
	v, isInt, i, f := zzNumOperand(c)
	return v, zzNum{isInt: isInt, i: i, f: f}
}

func zzNumMatches(rv reflect.Value, want zzNum) bool {
	if !rv.IsValid() {
		return false
	}
	switch {
	case want.isBool:
		return rv.Kind() == reflect.Bool && rv.Bool() == want.b
	case want.isInt:
		return rv.Kind() == reflect.Int64 && rv.Int() == want.i
	}
	return rv.Kind() == reflect.Float64 && zzSameFloat(rv.Float(), want.f)
}

// ZZ_C05_tree2_mixed: (x op1 y) op2 z and x op2 (y op1 z) over every mix of
// int64 and float64 leaves: an intermediate result is an operand like any
// other, whatever its class.
func ZZ_C05_tree2_mixed() {
	inner := []string{"+", "-", "*", "/", "%", "&", "<<"}
	outer := []string{"+", "-", "*", "/", "|", ">>", "<", ">="}
	op1 := inner[zz.Choose(len(inner))]
	op2 := outer[zz.Choose(len(outer))]
	xv, x := zzNumOf(zz.Choose(2))
	yv, y := zzNumOf(zz.Choose(2))
	zv, z := zzNumOf(zz.Choose(2))
	left := zz.Choose(2) == 0
	var expr ast.Expr
	var mid, want zzNum
	var ok1, ok2, e1, e2 bool
	if left {
		expr = zzBinOp(op2, zzBinOp(op1, zzLit(xv), zzLit(yv)), zzLit(zv))
		mid, ok1, e1 = zzTower(op1, x, y)
		if ok1 && !e1 {
			want, ok2, e2 = zzTower(op2, mid, z)
		}
	} else {
		expr = zzBinOp(op2, zzLit(xv), zzBinOp(op1, zzLit(yv), zzLit(zv)))
		mid, ok1, e1 = zzTower(op1, y, z)
		if ok1 && !e1 {
			want, ok2, e2 = zzTower(op2, x, mid)
		}
	}
	if !ok1 {
		return
	}
	rv, err := zzEval(env.NewEnv(), expr)
	id := "C05.tree2-mixed/" + op1 + "," + op2
	if e1 {
		zz.Assert(err != nil, id+"/inner-error-propagates")
		return
	}
	if !ok2 {
		return
	}
	if e2 {
		zz.Assert(err != nil, id+"/outer-error")
		return
	}
	zz.Assert(err == nil, id+"/no-error")
	zz.Assert(zzNumMatches(rv, want), id+"/value")
}

// ZZ_C05_shorthand: `a op= b`, `a++`, `a--` parsed from source text stand
// for `a = a op b` with the operator the text names.
func ZZ_C05_shorthand() {
	forms := []struct{ src, op string }{
		{"a += b", "+"}, {"a -= b", "-"}, {"a *= b", "*"}, {"a /= b", "/"}, {"a &= b", "&"}, {"a |= b", "|"},
		{"a++", "+"}, {"a--", "-"},
	}
	f := forms[zz.Choose(len(forms))]
	av, a := zzNumOf(zz.Choose(2))
	bv, b := zzNumOf(zz.Choose(2))
	if f.src == "a++" || f.src == "a--" {
		bv, b = int64(1), zzNum{isInt: true, i: 1}
	}
	want, ok, isErr := zzTower(f.op, a, b)
	if !ok || isErr {
		return
	}
	e := env.NewEnv()
	e.Define("a", av)
	e.Define("b", bv)
	rv, err := Execute(e, nil, f.src)
	id := "C05.shorthand/" + f.src
	zz.Assert(err == nil, id+"/no-error")
	if err != nil {
		return
	}
	zz.Assert(zzNumMatches(reflect.ValueOf(rv), want), id+"/result")
	got, gerr := e.GetValue("a")
	zz.Assert(gerr == nil && zzNumMatches(got, want), id+"/stored")
}
