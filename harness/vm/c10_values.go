package vm

// C10 (continued): "in-range operations read or store exactly the addressed
// element".  A read yields the element's value at the time of the read: what
// a variable, a parameter, a list literal, a deferred call's argument list or
// a function result received from `c[i]` / `s.F` must not change when the
// element is overwritten afterwards, and a multi-assignment stores the values
// its right-hand sides had before any of its stores - on a Go []interface{},
// []int64, map or struct each of these is an ordinary copy.  (The same
// programs are instances of C07's "multi-assignment right-hand side" and of
// C09's "arguments as evaluated at the defer statement" / "deferred calls do
// not alter the invocation's result"; they are decided here once.)

import (
	"fmt"
	"reflect"
	"strings"

	"github.com/mattn/anko/env"
	"github.com/mattn/anko/parser"
	zz "github.com/mattn/anko/zzverif"
)

type zzRec struct {
	A int64
	B int64
}

var zzReadContainers = []string{"[]interface{}", "[]int64", "map[interface{}]interface{}", "map[string]int64", "struct", "*struct", "slice-of-slices", "[]zzRec"}

// zzReadEnv binds container c (kind ck) holding v0 at position p0 and v1 at
// p1, and returns the source text of the two positions.
func zzReadEnv(ck int, v0, v1 int64) (e *env.Env, p0, p1 string, read func(i int) (int64, bool)) {
	e = env.NewEnv()
	switch ck {
	case 0:
		c := []interface{}{v0, v1}
		e.Define("c", c)
		return e, "c[0]", "c[1]", func(i int) (int64, bool) { x, ok := c[i].(int64); return x, ok }
	case 1:
		c := []int64{v0, v1}
		e.Define("c", c)
		return e, "c[0]", "c[1]", func(i int) (int64, bool) { return c[i], true }
	case 2:
		c := map[interface{}]interface{}{"a": v0, "b": v1}
		e.Define("c", c)
		return e, `c["a"]`, `c["b"]`, func(i int) (int64, bool) { x, ok := c[[]string{"a", "b"}[i]].(int64); return x, ok }
	case 3:
		c := map[string]int64{"a": v0, "b": v1}
		e.Define("c", c)
		return e, `c.a`, `c["b"]`, func(i int) (int64, bool) { x, ok := c[[]string{"a", "b"}[i]]; return x, ok }
	case 4:
		// what make(T) yields for a struct type: an addressable struct value
		pv := reflect.New(reflect.TypeOf(zzRec{}))
		pv.Elem().Field(0).SetInt(v0)
		pv.Elem().Field(1).SetInt(v1)
		e.DefineValue("c", pv.Elem())
		return e, "c.A", "c.B", func(i int) (int64, bool) { return pv.Elem().Field(i).Int(), true }
	case 5:
		c := &zzRec{A: v0, B: v1}
		e.Define("c", c)
		return e, "c.A", "c.B", func(i int) (int64, bool) {
			if i == 0 {
				return c.A, true
			}
			return c.B, true
		}
	case 6:
		c := []interface{}{[]interface{}{v0}, []interface{}{v1}}
		e.Define("c", c)
		return e, "c[0][0]", "c[1][0]", func(i int) (int64, bool) {
			in, ok := c[i].([]interface{})
			if !ok || len(in) != 1 {
				return 0, false
			}
			x, ok := in[0].(int64)
			return x, ok
		}
	case 7:
		c := []zzRec{{A: v0}, {A: v1}}
		e.Define("c", c)
		return e, "c[0].A", "c[1].A", func(i int) (int64, bool) { return c[i].A, true }
	}
	return nil, "", "", nil
}

var zzReadForms = []string{"variable", "var-statement", "parameter", "list-literal", "map-literal", "defer-argument", "function-result", "swap", "rotate-through-variable",
	"go-argument", "closure-result-after-defer", "two-targets-from-one-element", "variadic-parameter", "return-list",
	"left-operand-of-binary-operator", "left-operand-of-comparison", "spread-assignment", "spread-var",
	"value-ok-form", "spread-argument", "deferred-spread-argument", "switch-subject", "in-item", "map-literal-key", "indexed-container", "for-in-variable",
	"left-operand-with-right-operand-shapes", "indexed-typed-container", "sliced-typed-container", "typed-map-literal-key", "implicit-result-after-defer", "deferred-variadic-script-argument", "deferred-variadic-go-argument", "go-variadic-go-argument"}

// ZZ_C10_read_is_a_value: container kind x receiving form; old and new
// payloads symbolic.
func ZZ_C10_read_is_a_value() {
	ck := zz.Choose(len(zzReadContainers))
	form := zz.Choose(len(zzReadForms))
	v0, v1, w := zz.Int64(), zz.Int64(), zz.Int64()
	e, p0, p1, read := zzReadEnv(ck, v0, v1)
	id := zzReadForms[form] + "/" + zzReadContainers[ck]
	e.Define("wnew", w)
	var src string
	// every program ends in a list [observed copy, ...]; want lists the values
	// Go's copy semantics give
	var want []int64
	wantC0, wantC1 := w, v1 // content of the two positions afterwards
	switch form {
	case 0:
		src = "x = " + p0 + "; " + p0 + " = wnew; [x]"
		want = []int64{v0}
	case 1:
		src = "var x = " + p0 + "; " + p0 + " = wnew; [x]"
		want = []int64{v0}
	case 2:
		src = "f = func(v) { " + p0 + " = wnew; return v }; [f(" + p0 + ")]"
		want = []int64{v0}
	case 3:
		src = "l = [" + p0 + ", " + p1 + "]; " + p0 + " = wnew; l"
		want = []int64{v0, v1}
	case 4:
		src = `m = {"k": ` + p0 + `}; ` + p0 + ` = wnew; [m["k"]]`
		want = []int64{v0}
	case 5:
		src = "r = 0; f = func() { defer func(v) { r = v }(" + p0 + "); " + p0 + " = wnew }; f(); [r]"
		want = []int64{v0}
	case 6:
		src = "f = func() { return " + p0 + " }; x = f(); " + p0 + " = wnew; [x]"
		want = []int64{v0}
	case 7:
		src = p0 + ", " + p1 + " = " + p1 + ", " + p0 + "; [" + p0 + ", " + p1 + "]"
		want = []int64{v1, v0}
		wantC0, wantC1 = v1, v0
	case 8:
		src = "t = " + p0 + "; " + p0 + " = " + p1 + "; " + p1 + " = t; [" + p0 + ", " + p1 + "]"
		want = []int64{v1, v0}
		wantC0, wantC1 = v1, v0
	case 9:
		src = "ch = make(chan int64, 1); go func(v) { ch <- v }(" + p0 + "); " + p0 + " = wnew; [<-ch]"
		want = []int64{v0}
	case 10:
		src = "f = func() { defer func() { " + p0 + " = wnew }(); return " + p0 + " }; [f()]"
		want = []int64{v0}
	case 11:
		src = "x, y = " + p0 + ", " + p0 + "; " + p0 + " = wnew; [x, y]"
		want = []int64{v0, v0}
	case 12:
		src = "f = func(vs...) { " + p0 + " = wnew; return vs[0] }; [f(" + p0 + ")]"
		want = []int64{v0}
	case 13:
		src = "f = func() { defer func() { " + p0 + " = wnew }(); return " + p0 + ", " + p1 + " }; f()"
		want = []int64{v0, v1}
	case 14:
		// the left operand is read before the right operand runs
		src = "[" + p0 + " - func() { " + p0 + " = wnew; return 0 }()]"
		want = []int64{v0}
	case 15:
		src = "b = " + p0 + " == func() { old = " + p0 + "; " + p0 + " = wnew; return old }(); [b ? " + p1 + " : wnew - 1]"
		want = []int64{v1}
	case 18:
		// `x, ok = c[i]`
		if ck == 4 || ck == 5 || ck == 7 {
			return
		}
		src = "x, ok = " + p0 + "; " + p0 + " = wnew; [x]"
		want = []int64{v0}
	case 19, 20:
		// f(c...) hands each element over as a value (also when the call is deferred)
		if ck != 0 && ck != 1 {
			return
		}
		if form == 19 {
			src = "f = func(a, b) { c[0] = wnew; return a }; [f(c...)]"
		} else {
			src = "r = 0; f = func(a, b) { r = a }; g = func() { defer f(c...); c[0] = wnew }; g(); [r]"
		}
		want = []int64{v0}
	case 21:
		// the subject is read before the case operands run
		e.Define("vold", v0)
		src = "r = 0; switch " + p0 + " { case func() { " + p0 + " = wnew; return vold }(): r = 1 }; [r]"
		want = []int64{1}
	case 22:
		e.Define("vold", v0)
		src = "b = " + p0 + " in [func() { " + p0 + " = wnew; return vold }()]; [b ? 1 : 0]"
		want = []int64{1}
	case 23:
		e.Define("vold", v0)
		src = "m = {" + p0 + ": func() { " + p0 + " = wnew; return 1 }()}; [m[vold] ?? 0]"
		want = []int64{1}
		zz.Assume(v0 != w) // (with equal payloads both readings give the same map)
	case 24:
		// c[0][f()]: the inner container is the one c[0] held before f ran
		if ck != 6 {
			return
		}
		src = "[c[0][func() { c[0] = [wnew]; return 0 }()]]"
		want = []int64{v0}
		wantC0 = w
	case 25:
		if ck != 0 && ck != 1 {
			return
		}
		src = "r = []; for x in c { c[0] = wnew; r += x; break }; r"
		want = []int64{v0}
	case 26:
		// the left operand of every operator family is read before the right
		// operand runs, whatever the right operand's own syntax is: a call, a
		// member of a call's result, an index computed by a call, an entry of
		// a map looked up by a call (the store hides one level down)
		ops := []string{"-", "+", "*", "/", "<", "=="}
		op := ops[zz.Choose(len(ops))]
		store := "func() { " + p0 + " = wnew; return %s }()"
		shapes := []string{
			fmt.Sprintf(store, "0"),
			fmt.Sprintf(store, `{"n": 0}`) + ".n",
			"zzz[" + fmt.Sprintf(store, "0") + "]",
			"zzm[" + fmt.Sprintf(store, `"k"`) + "]",
			"(" + fmt.Sprintf(store, "0") + ")",
			"-" + fmt.Sprintf(store, "0"),
			"zzz[" + fmt.Sprintf(store, "0") + ":][0]",
		}
		sh := zz.Choose(len(shapes))
		id += "/" + op + "/" + []string{"call", "member-of-call", "index-by-call", "map-entry-by-call", "parenthesised-call", "negated-call", "slice-by-call"}[sh]
		e.Define("zzz", []interface{}{int64(0)})
		e.Define("zzm", map[string]interface{}{"k": int64(0)})
		e.Define("vold", v0)
		switch op {
		case "-", "+":
			src = "[" + p0 + " " + op + " " + shapes[sh] + "]"
			want = []int64{v0}
		case "*", "/":
			// right operand 1: x * 1, x / 1 (the quotient is a float: compared through toInt-free equality below)
			one := strings.Replace(strings.Replace(shapes[sh], "return 0 }", "return 1 }", 1), `{"n": 0}`, `{"n": 1}`, 1)
			if sh == 2 || sh == 3 || sh == 6 {
				return // (the looked-up entry is the zero the container holds)
			}
			if op == "/" {
				src = "[(" + p0 + " / " + one + ") == vold / 1 ? 1 : 0]"
				want = []int64{1}
				zz.Assume(zz.And(v0 > -(1<<52), v0 < 1<<52))
				zz.Assume(zz.And(w > -(1<<52), w < 1<<52))
			} else {
				src = "[" + p0 + " * " + one + "]"
				want = []int64{v0}
			}
			if sh == 5 {
				return // (-1 changes the sign: covered by the other shapes)
			}
		case "<", "==":
			// compared with a right operand equal to the old value
			oldv := strings.Replace(strings.Replace(shapes[sh], "return 0 }", "return vold }", 1), `{"n": 0}`, `{"n": vold}`, 1)
			if sh == 2 || sh == 3 || sh == 5 || sh == 6 {
				return
			}
			if op == "==" {
				src = "[" + p0 + " == " + oldv + " ? 1 : 0]"
				want = []int64{1}
			} else {
				src = "[" + p0 + " < " + oldv + " ? 1 : 0]"
				want = []int64{0}
			}
		}
		zz.Assume(v0 != w)
	case 27, 28:
		// tt[0][f()] and tt[0][f():] on a typed container of containers: the inner
		// container is the one tt[0] held before f ran
		if ck != 0 {
			return
		}
		e.Define("tt", [][]int64{{v0}, {v1}})
		if form == 27 {
			src = "[tt[0][func() { tt[0] = tt[1]; return 0 }()]]"
		} else {
			src = "[tt[0][func() { tt[0] = tt[1]; return 0 }():][0]]"
		}
		want = []int64{v0}
		wantC0 = v0
		zz.Assume(v0 != v1)
	case 29:
		// a typed map literal reads its key before the value operand runs
		e.Define("vold", v0)
		src = "m = map[int64]int64{" + p0 + ": func() { " + p0 + " = wnew; return 1 }()}; [m[vold] ?? 0]"
		want = []int64{1}
		zz.Assume(v0 != w)
	case 30:
		// the value of the last expression statement is the invocation's result:
		// a deferred store does not alter it
		src = "f = func() { defer func() { " + p0 + " = wnew }(); " + p0 + " }; [f()]"
		want = []int64{v0}
	case 31:
		// arguments landing in the variadic part of a deferred / go call are values as well
		src = "r = 0; f = func(vs...) { r = vs[0] }; g = func() { defer f(" + p0 + "); " + p0 + " = wnew }; g(); [r]"
		want = []int64{v0}
	case 32, 33:
		var rec int64
		recOK := false
		e.Define("gv", func(xs ...interface{}) {
			if len(xs) > 0 {
				rec, recOK = xs[0].(int64)
			}
		})
		e.Define("grec", func() int64 {
			if !recOK {
				return -1
			}
			return rec
		})
		if form == 32 {
			src = "g = func() { defer gv(" + p0 + ", 1); " + p0 + " = wnew }; g(); [grec()]"
		} else {
			src = "done = make(chan int64, 1); h = func(vs...) { done <- vs[0] }; go h(" + p0 + "); " + p0 + " = wnew; [<-done]"
		}
		want = []int64{v0}
		zz.Assume(zz.And(v0 != -1, v0 != w))
	case 16, 17:
		// `x, y = c` spreads a slice over its targets
		if ck != 0 && ck != 1 {
			return
		}
		src = []string{"x, y = c", "var x, y = c"}[form-16] + "; c[0] = wnew; [x, y]"
		want = []int64{v0, v1}
	}
	zz.Budget(400000)
	zz.DeadlockIsViolation("terminates.C10.read-is-a-value/" + id)
	v, err := Execute(e, &Options{Debug: false}, src)
	zz.Assertf(err == nil, "C10.read-is-a-value/no-error/"+id, src)
	if err != nil {
		return
	}
	l, ok := v.([]interface{})
	zz.Assertf(ok && len(l) == len(want), "C10.read-is-a-value/result-shape/"+id, src)
	if !ok || len(l) != len(want) {
		return
	}
	for i := range want {
		x, isInt := l[i].(int64)
		zz.Assertf(isInt && x == want[i], "C10.read-is-a-value/copy-keeps-the-value-read/"+id, src)
	}
	c0, ok0 := read(0)
	c1, ok1 := read(1)
	zz.Assertf(ok0 && ok1 && c0 == wantC0 && c1 == wantC1, "C10.read-is-a-value/stores-reach-the-addressed-element/"+id, src)
}

// ZZ_C10_append_overlapping: `x + y` and `x += y` when both operands are views
// of one backing array (x with spare capacity): the result is what Go's
// append(x, y...) gives - the right operand's elements as they were when the
// operation started, also where the copy runs over them.
func ZZ_C10_append_overlapping() {
	n := 3 + zz.Choose(2)
	typed := zz.Choose(2) == 1
	vals := make([]int64, n)
	for i := range vals {
		vals[i] = zz.Int64()
	}
	lo := zz.Choose(2) // x = a[lo:lo+xl]
	xl := zz.Choose(3) // 0..2
	yb := zz.Choose(n) // y = a[yb:ye]
	ye := yb + zz.Choose(n-yb+1)
	if lo+xl > n {
		return
	}
	e := env.NewEnv()
	model := make([]int64, n)
	copy(model, vals)
	if typed {
		a := make([]int64, n)
		copy(a, vals)
		e.Define("a", a)
	} else {
		a := make([]interface{}, n)
		for i := range a {
			a[i] = vals[i]
		}
		e.Define("a", a)
	}
	e.Define("lo", int64(lo))
	e.Define("xe", int64(lo+xl))
	e.Define("yb", int64(yb))
	e.Define("ye", int64(ye))
	op := zz.Choose(2)
	src := []string{"x = a[lo:xe]; y = a[yb:ye]; r = x + y; [r, a]", "x = a[lo:xe]; y = a[yb:ye]; x += y; [x, a]"}[op]
	v, err := Execute(e, &Options{Debug: false}, src)
	id := []string{"[]interface{}", "[]int64"}[zz.Ite(typed, 1, 0)] + "/" + []string{"+", "+="}[op]
	zz.Assertf(err == nil, "C10.append-overlapping/no-error/"+id, src)
	if err != nil {
		return
	}
	// Go model
	mx := model[lo : lo+xl]
	my := model[yb:ye]
	want := append(mx, my...)
	l, ok := v.([]interface{})
	zz.Assert(ok && len(l) == 2, "C10.append-overlapping/result-shape/"+id)
	if !ok || len(l) != 2 {
		return
	}
	get := func(c interface{}, i int) (int64, bool) {
		switch s := c.(type) {
		case []interface{}:
			if i >= len(s) {
				return 0, false
			}
			x, ok := s[i].(int64)
			return x, ok
		case []int64:
			if i >= len(s) {
				return 0, false
			}
			return s[i], true
		}
		return 0, false
	}
	length := func(c interface{}) int {
		switch s := c.(type) {
		case []interface{}:
			return len(s)
		case []int64:
			return len(s)
		}
		return -1
	}
	zz.Assert(length(l[0]) == len(want), "C10.append-overlapping/length/"+id)
	for i := range want {
		x, ok := get(l[0], i)
		zz.Assert(ok && x == want[i], "C10.append-overlapping/elements-as-go-append/"+id)
	}
}

type zzRefHolder struct {
	A []int64
	M map[string]int64
	P *int64
}

// ZZ_C10_reference_valued_slots: the same law for slots of typed containers
// and struct fields whose values are themselves references (slices, maps,
// pointers): what was read keeps referring to the object the slot held then,
// whatever is stored into the slot afterwards.
func ZZ_C10_reference_valued_slots() {
	v0, v1 := zz.Int64(), zz.Int64()
	cont := zz.Choose(5)
	form := zz.Choose(5)
	e := env.NewEnv()
	var p0, p1, look string // the two slots; how to look at the int64 inside a value read from one
	switch cont {
	case 0:
		e.Define("c", [][]int64{{v0}, {v1}})
		p0, p1, look = "c[0]", "c[1]", "[0]"
	case 1:
		e.Define("c", []map[string]int64{{"k": v0}, {"k": v1}})
		p0, p1, look = "c[0]", "c[1]", "[\"k\"]"
	case 2:
		h := reflect.New(reflect.TypeOf(zzRefHolder{}))
		h.Elem().Field(0).Set(reflect.ValueOf([]int64{v0}))
		e.DefineValue("c", h.Elem())
		e.Define("other", []int64{v1})
		p0, p1, look = "c.A", "other", "[0]"
	case 3:
		a, b := v0, v1
		e.Define("c", []*int64{&a, &b})
		p0, p1, look = "c[0]", "c[1]", ""
	case 4:
		e.Define("c", &zzRefHolder{M: map[string]int64{"k": v0}})
		e.Define("other", map[string]int64{"k": v1})
		p0, p1, look = "c.M", "other", "[\"k\"]"
	}
	deref := func(x string) string {
		if cont == 3 {
			return "*" + x
		}
		return x + look
	}
	var src string
	var want []int64
	switch form {
	case 0:
		src = "x = " + p0 + "; " + p0 + " = " + p1 + "; [" + deref("x") + "]"
		want = []int64{v0}
	case 1:
		if cont == 2 || cont == 4 {
			return
		}
		src = p0 + ", " + p1 + " = " + p1 + ", " + p0 + "; [" + deref(p0) + ", " + deref(p1) + "]"
		want = []int64{v1, v0}
	case 2:
		src = "f = func(v) { " + p0 + " = " + p1 + "; return v }; y = f(" + p0 + "); [" + deref("y") + "]"
		want = []int64{v0}
	case 3:
		src = "f = func() { defer func() { " + p0 + " = " + p1 + " }(); return " + p0 + " }; y = f(); [" + deref("y") + "]"
		want = []int64{v0}
	case 4:
		src = "l = [" + p0 + "]; " + p0 + " = " + p1 + "; y = l[0]; [" + deref("y") + "]"
		want = []int64{v0}
	}
	id := []string{"[][]int64", "[]map[string]int64", "struct-field-slice", "[]*int64", "struct-field-map"}[cont] + "/" + []string{"variable", "swap", "parameter", "result-under-deferred-store", "list-literal"}[form]
	zz.Budget(400000)
	v, err := Execute(e, &Options{Debug: false}, src)
	zz.Assertf(err == nil, "C10.reference-valued-slots/no-error/"+id, src)
	if err != nil {
		return
	}
	l, ok := v.([]interface{})
	zz.Assertf(ok && len(l) == len(want), "C10.reference-valued-slots/result-shape/"+id, src)
	if !ok || len(l) != len(want) {
		return
	}
	for i := range want {
		x, isInt := l[i].(int64)
		zz.Assertf(isInt && x == want[i], "C10.reference-valued-slots/read-keeps-the-object-read/"+id, src)
	}
}

// ZZ_C10_literal_is_fresh: every evaluation of a container literal (and of
// make) yields a new container, as a Go composite literal does: a store through
// one result never shows in the result of another evaluation of the same piece
// of syntax - in a loop body, in a function called several times, in a tree
// that is parsed once and run several times.
func ZZ_C10_literal_is_fresh() {
	lits := []struct{ name, lit, at string }{
		{"list-of-literals", "[0, 0]", "[0]"},
		{"list-of-strings", `["0", "0"]`, "[0]"},
		{"list-with-computed-element", "[0, 0 + 0]", "[0]"},
		{"nested-list", "[[0], [0]]", "[0][0]"},
		{"map-literal", `{"k": 0, "j": 0}`, `["k"]`},
		{"typed-list", "[]int64{0, 0}", "[0]"},
		{"typed-map", `map[string]int64{"k": 0}`, `["k"]`},
		{"make-slice", "make([]int64, 2)", "[0]"},
		{"make-map", "make(map[string]int64)", `["k"]`},
	}
	k := zz.Choose(len(lits))
	L, at := lits[k].lit, lits[k].at
	w := zz.Int64()
	zz.Assume(w != 0)
	if k == 1 {
		// (string elements: the stored value is a string as well)
		zz.Assume(zz.And(w > 0, w < 10))
	}
	form := zz.Choose(3)
	id := lits[k].name + "/" + []string{"loop-body", "function-called-again", "tree-run-again"}[form]
	e := env.NewEnv()
	e.Define("wnew", w)
	e.Define("zero", func(x interface{}) bool {
		switch v := x.(type) {
		case int64:
			return v == 0
		case string:
			return v == "0"
		case nil:
			return true // (a missing entry of a made map)
		}
		return false
	})
	e.Define("isw", func(x interface{}) bool {
		v, ok := x.(int64)
		return ok && v == w
	})
	store := "wnew"
	if k == 1 {
		store = `"9"`
		e.Define("isw", func(x interface{}) bool { return x == "9" })
	}
	var src string
	switch form {
	case 0:
		src = "r = []; for i in [1, 2, 3] { a = " + L + "; r += [zero(a" + at + ")]; a" + at + " = " + store + "; r += [isw(a" + at + ")] }; r"
	case 1:
		src = "f = func() { return " + L + " }; b = f(); c = f(); d = f(); c" + at + " = " + store + "; [zero(b" + at + "), isw(c" + at + "), zero(d" + at + "), zero(f()" + at + "), true, true]"
	case 2:
		src = "a = " + L + "; x = zero(a" + at + "); a" + at + " = " + store + "; [x, isw(a" + at + ")]"
	}
	stmt, perr := parser.ParseSrc(src)
	zz.Assertf(perr == nil, "C10.literal-is-fresh/parses/"+id, src)
	if perr != nil {
		return
	}
	runs := 1
	if form == 2 {
		runs = 3
	}
	for n := 0; n < runs; n++ {
		en := e
		if form == 2 {
			en = e.NewEnv()
		}
		v, err := Run(en, &Options{Debug: false}, stmt)
		zz.Assertf(err == nil, "C10.literal-is-fresh/no-error/"+id, src)
		if err != nil {
			return
		}
		l, ok := v.([]interface{})
		zz.Assertf(ok && (len(l) == 6 || len(l) == 2), "C10.literal-is-fresh/result-shape/"+id, src)
		if !ok {
			return
		}
		for i := range l {
			b, isB := l[i].(bool)
			zz.Assertf(isB && b, "C10.literal-is-fresh/each-evaluation-yields-a-new-container/"+id, src)
		}
	}
}

// ZZ_C10_failed_operation_leaves_containers: "an ill-typed operand yields an
// error and leaves the container unchanged" - also the containers that share
// storage with the operand: a failing `+` / `+=` whose earlier elements would
// have fitted, and an assignment at index len through an expression that
// cannot be assigned (the automatic append must not have written by then).
func ZZ_C10_failed_operation_leaves_containers() {
	v, w, x := zz.Int64(), zz.Int64(), zz.Int64()
	zz.Assume(zz.And(x != v, x != w))
	e := env.NewEnv()
	e.Define("V", v)
	e.Define("W", w)
	e.Define("X", x)
	forms := []struct{ name, src string }{
		{"typed-append-with-ill-typed-later-element", `a = make([]int64, 2, 4); c = a + [V, W]; r = 0; try { a + [X, "x"] } catch e { r = 1 }; [c[2], c[3], r]`},
		{"typed-append-assign-with-ill-typed-later-element", `a = make([]int64, 2, 4); c = a + [V, W]; r = 0; try { a += [X, "x"] } catch e { r = 1 }; [c[2], c[3], r]`},
		{"typed-append-with-nil-later-element", `a = make([]int64, 2, 4); c = a + [V, W]; r = 0; try { a + [X, nil] } catch e { r = 1 }; [c[2], c[3], r]`},
		{"nested-typed-append-with-ill-typed-later-element", `a = make([][]int64, 1, 3); c = a + [[V], [W]]; r = 0; try { a + [[X], ["x"]] } catch e { r = 1 }; [c[1][0], c[2][0], r]`},
		{"append-at-len-through-a-slice-expression", `a = [0, V, W]; r = 0; try { a[0:1][1] = X } catch e { r = 1 }; [a[1], a[2], r]`},
		{"append-at-len-through-a-call-result", `a = [0, V, W]; f = func() { return a[:1] }; r = 0; try { f()[1] = X } catch e { r = 1 }; [a[1], a[2], r]`},
		{"append-at-len-through-a-parenthesised-slice", `a = [0, V, W]; r = 0; try { (a[:1])[1] = X } catch e { r = 1 }; [a[1], a[2], r]`},
		{"append-at-len-of-a-typed-slice-expression", `a = make([]int64, 3); a[1] = V; a[2] = W; r = 0; try { a[0:1][1] = X } catch e { r = 1 }; [a[1], a[2], r]`},
	}
	f := forms[zz.Choose(len(forms))]
	res, err := Execute(e, &Options{Debug: false}, f.src)
	zz.Assertf(err == nil, "C10.failed-operation/runs/"+f.name, f.src)
	if err != nil {
		return
	}
	l, ok := res.([]interface{})
	zz.Assertf(ok && len(l) == 3, "C10.failed-operation/result-shape/"+f.name, f.src)
	if !ok || len(l) != 3 {
		return
	}
	a, okA := l[0].(int64)
	b, okB := l[1].(int64)
	r, _ := l[2].(int64)
	if r == 1 {
		// the operation failed: nothing it shares storage with has changed
		zz.Assertf(okA && okB && a == v && b == w, "C10.failed-operation/an-error-leaves-every-container-unchanged/"+f.name, f.src)
	}
}

// ZZ_C10_string_bytes: indexing a string reads the addressed byte, as s[i:i+1]
// does and as the same index on a Go string does - also in strings whose
// characters take several bytes (concrete pool: the engine's symbolic strings
// are ASCII).
func ZZ_C10_string_bytes() {
	pool := []string{"é", "日本", "\xff\xfe", "aé", "héllo", "\x80", "a\u00e9b"}
	str := pool[zz.Choose(len(pool))]
	i := zz.Choose(len(str))
	e := env.NewEnv()
	e.Define("s", str)
	e.Define("i", int64(i))
	res, err := Execute(e, &Options{Debug: false}, "[s[i], s[i:i+1]]")
	zz.Assertf(err == nil, "C10.string-bytes/in-range-read-is-no-error", str)
	if err != nil {
		return
	}
	l, ok := res.([]interface{})
	zz.Assertf(ok && len(l) == 2, "C10.string-bytes/result-shape", str)
	if !ok || len(l) != 2 {
		return
	}
	got, _ := l[0].(string)
	sl, _ := l[1].(string)
	zz.Assertf(got == str[i:i+1], "C10.string-bytes/index-reads-the-addressed-byte", str)
	zz.Assertf(sl == str[i:i+1], "C10.string-bytes/slice-reads-the-addressed-bytes", str)
}

// ZZ_C10_delete_removes_the_key: delete(m, k) removes the entry as Go's delete
// does - whatever the entry holds (nil, a nil slice / map / pointer, the zero
// value, an ordinary value) - and leaves the others; observed on the Go map
// itself (length, key set), not through a read that yields nil for both a
// missing key and a nil value.
func ZZ_C10_delete_removes_the_key() {
	v := zz.Int64()
	var m interface{}
	var has func(k string) bool
	var length func() int
	kind := zz.Choose(6)
	switch kind {
	case 0:
		x := map[interface{}]interface{}{"a": nil, "b": v}
		m, has, length = x, func(k string) bool { _, ok := x[k]; return ok }, func() int { return len(x) }
	case 1:
		x := map[string]interface{}{"a": nil, "b": v}
		m, has, length = x, func(k string) bool { _, ok := x[k]; return ok }, func() int { return len(x) }
	case 2:
		x := map[string][]int64{"a": nil, "b": {v}}
		m, has, length = x, func(k string) bool { _, ok := x[k]; return ok }, func() int { return len(x) }
	case 3:
		x := map[string]*int64{"a": nil, "b": &v}
		m, has, length = x, func(k string) bool { _, ok := x[k]; return ok }, func() int { return len(x) }
	case 4:
		x := map[string]int64{"a": 0, "b": v}
		m, has, length = x, func(k string) bool { _, ok := x[k]; return ok }, func() int { return len(x) }
	case 5:
		x := map[string]map[string]int64{"a": nil, "b": {"k": v}}
		m, has, length = x, func(k string) bool { _, ok := x[k]; return ok }, func() int { return len(x) }
	}
	id := []string{"map[interface{}]interface{}-nil", "map[string]interface{}-nil", "nil-slice-value", "nil-pointer-value", "zero-value", "nil-map-value"}[kind]
	e := env.NewEnv()
	e.Define("m", m)
	form := zz.Choose(3)
	src := []string{`delete(m, "a")`, `k = "a"; delete(m, k)`, `n = 0; delete(m, "a"); for k in m { n++ }; n`}[form]
	res, err := Execute(e, &Options{Debug: false}, src)
	zz.Assertf(err == nil, "C10.delete/no-error/"+id, src)
	zz.Assertf(!has("a") && length() == 1, "C10.delete/removes-the-addressed-entry/"+id, src)
	zz.Assertf(has("b"), "C10.delete/leaves-the-other-entries/"+id, src)
	if form == 2 && err == nil {
		n, _ := res.(int64)
		zz.Assertf(n == 1, "C10.delete/for-in-visits-the-remaining-entries/"+id, src)
	}
	// a missing key: no error, nothing changes
	_, err = Execute(e, &Options{Debug: false}, `delete(m, "zz")`)
	zz.Assertf(err == nil && length() == 1 && has("b"), "C10.delete/missing-key-is-a-no-op/"+id, src)
}
