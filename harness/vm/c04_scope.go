package vm

// C04: names follow lexical block scope; closures capture their defining
// scope; every statement leaves the current scope as it found it.

import (
	"github.com/mattn/anko/env"
	zz "github.com/mattn/anko/zzverif"
)

type zzBlock struct {
	name   string
	pre    string // before the body, opening the block
	post   string // closing the block
	inLoop bool
	inFunc bool
	inTry  bool
	module bool
}

var zzBlocks = []zzBlock{
	{name: "if-then", pre: "if true {", post: "}"},
	{name: "if-else", pre: "if false { } else {", post: "}"},
	{name: "else-if", pre: "if false { } else if true {", post: "}"},
	{name: "loop", pre: "for {", post: "; break }", inLoop: true},
	{name: "loop-cond", pre: "zzc = true; for zzc { zzc = false;", post: "}", inLoop: true},
	{name: "c-for", pre: "for zzi = 0; zzi < 1; zzi++ {", post: "}", inLoop: true},
	{name: "for-in", pre: "for zzi in [1] {", post: "}", inLoop: true},
	{name: "for-in-map", pre: "for zzk, zzv in {\"k\": 1} {", post: "}", inLoop: true},
	{name: "switch-case", pre: "switch 1 { case 1:", post: "}"},
	{name: "switch-default", pre: "switch 1 { case 2: 0\ndefault:", post: "}"},
	{name: "try", pre: "try {", post: "} catch zze { }", inTry: true},
	{name: "catch", pre: "try { throw 1 } catch zze {", post: "}"},
	{name: "finally", pre: "try { } catch zze { } finally {", post: "}"},
	{name: "func-body", pre: "func() {", post: "}()", inFunc: true},
	{name: "named-func", pre: "func zzf() {", post: "}; zzf()", inFunc: true},
	{name: "module", pre: "module zzm {", post: "}", module: true},
	{name: "nested", pre: "if true { for zzi in [1] { if true {", post: "} } }", inLoop: true},
}

// ZZ_C04_blocks: bindings made inside a block, loop or function body; exit
// normally, by break/continue/return, or by an error that is caught.
func ZZ_C04_blocks() {
	b := zzBlocks[zz.Choose(len(zzBlocks))]
	binder := zz.Choose(3) // 0: x = V (x bound outside)  1: y = V (fresh)  2: var x = V
	exits := []string{""}
	if b.inLoop {
		exits = append(exits, "; break", "; continue")
	}
	if b.inFunc {
		exits = append(exits, "; return 7")
	}
	if b.inTry {
		exits = append(exits, "; throw 2")
	}
	exit := exits[zz.Choose(len(exits))]
	v, w := zz.Int64(), zz.Int64()
	e := env.NewEnv()
	e.Define("V", v)
	e.Define("W", w)
	body := []string{"x = V", "y = V", "var x = V"}[binder]
	if b.name == "loop" && exit == "; continue" {
		return // `for { ...; continue; break }` would not terminate
	}
	src := "x = W\n" + b.pre + " " + body + exit + " " + b.post + "\n"
	_, err := Execute(e, nil, src)
	id := b.name + "/" + []string{"assign-outer", "assign-fresh", "var-shadow"}[binder] + "/exit" + exit
	zz.Assert(err == nil, "C04.S2.runs/"+id)
	if err != nil {
		return
	}
	x, xerr := e.Get("x")
	xi, _ := x.(int64)
	_, yerr := e.Get("y")
	switch binder {
	case 0:
		// plain assignment updates the nearest existing binding
		zz.Assert(xerr == nil && xi == v, "C04.S2.assignment-updates-outer/"+id)
	case 1:
		// ... and otherwise creates one in the current block only
		zz.Assert(xerr == nil && xi == w, "C04.S2.outer-untouched/"+id)
		zz.Assert(yerr != nil, "C04.S2.block-binding-not-visible-after/"+id)
	case 2:
		zz.Assert(xerr == nil && xi == w, "C04.S2.var-shadows/"+id)
	}
	// implicit binders never leak
	for _, n := range []string{"zzi", "zzk", "zzv", "zze"} {
		if n == "zzi" && b.name == "c-for" {
			continue // the init statement of a C-style loop: not stated
		}
		_, nerr := e.Get(n)
		zz.Assert(nerr != nil, "C04.S2.implicit-binder-not-visible-after/"+id)
	}
	if b.module {
		// a module's bindings are reachable only through the module's name
		m, merr := e.Get("zzm")
		zz.Assert(merr == nil, "C04.S5.module-defined/"+id)
		if me, ok := m.(*env.Env); ok && binder != 0 {
			name := []string{"x", "y", "x"}[binder]
			mv, gerr := me.Get(name)
			mvi, _ := mv.(int64)
			zz.Assert(gerr == nil && mvi == v, "C04.S5.module-binding-through-name/"+id)
		}
	}
}

// ZZ_C04_reads: inside a block a read sees the nearest binding.
func ZZ_C04_reads() {
	b := zzBlocks[zz.Choose(len(zzBlocks))]
	if b.module {
		return
	}
	v, w := zz.Int64(), zz.Int64()
	e := env.NewEnv()
	e.Define("V", v)
	e.Define("W", w)
	var seen []int64
	e.Define("see", func(i int64) { seen = append(seen, i) })
	shadow := zz.Choose(2) == 1
	body := "see(x)"
	if shadow {
		body = "var x = V; see(x)"
	}
	_, err := Execute(e, nil, "x = W\n"+b.pre+" "+body+" "+b.post+"\n")
	id := b.name
	zz.Assert(err == nil && len(seen) == 1, "C04.S2.read-runs/"+id)
	if len(seen) == 1 {
		if shadow {
			zz.Assert(seen[0] == v, "C04.S2.read-sees-nearest/"+id)
		} else {
			zz.Assert(seen[0] == w, "C04.S2.read-sees-enclosing/"+id)
		}
	}
}

type zzScopeCase struct {
	name string
	src  string
	want func(v, w int64) int64
}

var zzScopeCases = []zzScopeCase{
	{"var-binds-every-listed-name", "b = W; f = func() { var a, b = V; b = V }; f(); b", func(v, w int64) int64 { return w }},
	{"var-binds-every-listed-name-three", "c = W; f = func() { var a, b, c = V, V; c = V; return a }; f(); c", func(v, w int64) int64 { return w }},
	{"var-list-with-fewer-values-in-block", "b = W; if true { var a, b = V; b = V }; b", func(v, w int64) int64 { return w }},
	{"closure-sees-defining-scope", "x = V; f = func() { return x }; g = func() { var x = W; return f() }; g()", func(v, w int64) int64 { return v }},
	{"closure-captures-by-reference", "x = W; f = func() { return x }; x = V; f()", func(v, w int64) int64 { return v }},
	{"closure-writes-captured", "x = W; f = func() { x = V }; f(); x", func(v, w int64) int64 { return v }},
	{"parameter-binds-in-invocation", "x = W; f = func(x) { x = V; return x }; f(1); x", func(v, w int64) int64 { return w }},
	{"parameter-value", "f = func(a) { return a }; f(V)", func(v, w int64) int64 { return v }},
	{"invocation-locals-fresh", "f = func() { var l = 0; l = l + 1; return l }; f(); f()", func(v, w int64) int64 { return 1 }},
	{"recursion-does-not-clobber", "func f(n, a) { var l = a; if n > 0 { f(n - 1, W) }; return l }; f(2, V)", func(v, w int64) int64 { return v }},
	{"reentrant-call-from-argument", "func f(a) { var l = a; return l }; func g(a, b) { return a }; g(f(V), f(W))", func(v, w int64) int64 { return v }},
	{"callee-scope-is-not-callers", "f = func() { return y }; g = func() { var y = V; return f() }; y = W; g()", func(v, w int64) int64 { return w }},
	{"var-in-function-is-local", "x = W; f = func() { var x = V; return x }; f(); x", func(v, w int64) int64 { return w }},
	{"loop-var-fresh-per-run", "s = 0; for i in [V, W] { s = i }; s", func(v, w int64) int64 { return w }},
	{"nested-function-sees-enclosing-invocation", "f = func(a) { return func() { return a } }; f(V)()", func(v, w int64) int64 { return v }},
	{"two-closures-distinct-invocations", "f = func(a) { return func() { return a } }; p = f(V); q = f(W); q(); p()", func(v, w int64) int64 { return v }},
	{"module-member", "module m { x = V }; m.x", func(v, w int64) int64 { return v }},
	{"module-does-not-leak", "x = W; module m { var x = V }; x", func(v, w int64) int64 { return w }},
	{"catch-then-continue-in-scope", "x = W; try { var x = V; throw 1 } catch e { }; x", func(v, w int64) int64 { return w }},
	{"return-from-nested-blocks", "x = W; f = func() { for { if true { var x = V; return x } } }; f(); x", func(v, w int64) int64 { return w }},
	{"break-restores-scope", "x = W; for { var x = V; break }; x", func(v, w int64) int64 { return w }},
	{"for-in-variable-binds-in-the-loop", "x = W; for x in [V] { }; x", func(v, w int64) int64 { return w }},
	{"for-in-two-variables-bind-in-the-loop", "x = W; y = W; for x, y in {\"k\": V} { }; x + y - W", func(v, w int64) int64 { return w }},
	{"catch-variable-binds-in-the-catch-block", "x = W; try { throw 1 } catch x { }; x", func(v, w int64) int64 { return w }},
	{"var-list-binds-here", "x = W; y = W; if true { var x, y = [V, V] }; x + y - W", func(v, w int64) int64 { return w }},
	{"var-list-binds-here-at-top-of-function", "x = W; y = W; f = func() { var x, y = [V, V]; return x }; f(); x + y - W", func(v, w int64) int64 { return w }},
	{"var-list-value", "x = W; f = func() { var x, y = [V, W]; return x }; f()", func(v, w int64) int64 { return v }},
	{"var-several-binds-here", "x = W; y = W; if true { var x, y = V, V }; x + y - W", func(v, w int64) int64 { return w }},
	{"var-several-from-call-binds-here", "x = W; y = W; g = func() { return V, V }; if true { var x, y = g() }; x + y - W", func(v, w int64) int64 { return w }},
	{"goroutine-literal-captures-by-reference", "x = W; done = make(chan int64); go func() { x = V; done <- 1 }(); <-done; x", func(v, w int64) int64 { return v }},
	{"goroutine-literal-in-function-captures-by-reference", "f = func() { var l = W; done = make(chan int64); go func() { l = V; done <- 1 }(); <-done; return l }; f()", func(v, w int64) int64 { return v }},
	{"goroutine-named-closure-captures-by-reference", "x = W; done = make(chan int64); f = func() { x = V; done <- 1 }; go f(); <-done; x", func(v, w int64) int64 { return v }},
	{"goroutine-literal-reads-later-write", "x = W; start = make(chan int64); out = make(chan int64); go func() { <-start; out <- x }(); x = V; start <- 1; <-out", func(v, w int64) int64 { return v }},
	{"deferred-literal-captures-by-reference", "x = W; f = func() { defer func() { x = V }() }; f(); x", func(v, w int64) int64 { return v }},
	{"module-inside-function", "f = func() { module m { x = V }; return m.x }; f()", func(v, w int64) int64 { return v }},
	{"closure-per-iteration-in-nested-block", "fs = []; for i in [1, 2, 3] { if true { var a = i; fs += func() { return a } } }; fs[0]() * 100 + fs[1]() * 10 + fs[2]()", func(v, w int64) int64 { return 123 }},
	{"counter-closure-made-in-nested-block", "inc = nil; if true { var n = V; if true { inc = func() { n = n + 1; return n } } }; if true { var n = W; var z = W }; inc(); inc() - 2", func(v, w int64) int64 { return v }},
	{"error-in-loop-body-caught-outside", "x = W; try { for i in [1] { var x = V; throw 1 } } catch e { }; x", func(v, w int64) int64 { return w }},
}

// ZZ_C04_functions_modules: closures, invocations, recursion, modules.
func ZZ_C04_functions_modules() {
	c := zzScopeCases[zz.Choose(len(zzScopeCases))]
	v, w := zz.Int64(), zz.Int64()
	e := env.NewEnv()
	e.Define("V", v)
	e.Define("W", w)
	r, err := Execute(e, nil, c.src)
	zz.Assert(err == nil, "C04.S4.runs/"+c.name)
	if err != nil {
		return
	}
	ri, ok := r.(int64)
	zz.Assert(ok && ri == c.want(v, w), "C04.S4."+c.name)
}

// zzBlockForms: every construct that opens a block scope, as (opening, closing) text.
var zzBlockForms = []struct{ name, open, close string }{
	{"if", "if true {", "}"}, {"else", "if false { } else {", "}"}, {"for-in", "for zi in [1] {", "}"}, {"c-for", "for zj = 0; zj < 1; zj++ {", "}"},
	{"loop", "zc = true; for zc { zc = false;", "}"}, {"switch-case", "switch 1 { case 1:", "}"}, {"switch-default", "switch 1 { default:", "}"},
	{"try", "try {", "} catch zq { }"}, {"catch", "try { throw 1 } catch zq {", "}"}, {"finally", "try { } catch zq { } finally {", "}"}, {"function", "func() {", "}()"},
}

// ZZ_C04_escaping_closures: a function value captures the scope in which it was
// created, by reference, for as long as it lives: a closure made in block I
// nested in block O, using a binding of O, is called after both blocks have
// ended - from inside a later, unrelated block K that binds the same names, and
// once more after K.  Every block-opening construct in each of the three
// positions (11 x 11 x 11), symbolic values.
func ZZ_C04_escaping_closures() {
	o, i, k := zz.Choose(len(zzBlockForms)), zz.Choose(len(zzBlockForms)), zz.Choose(len(zzBlockForms))
	O, I, K := zzBlockForms[o], zzBlockForms[i], zzBlockForms[k]
	v, w := zz.Int64(), zz.Int64()
	zz.Assume(v != w)
	e := env.NewEnv()
	e.Define("V", v)
	e.Define("W", w)
	x := zz.Int64()
	e.Define("X", x)
	write := zz.Choose(2) == 1
	body := "return a"
	if write {
		body = "t = a; a = X; return t"
	}
	src := "f = nil; r = 0; " + O.open + " var a = V; " + I.open + " var b = W; f = func() { " + body + " } " + I.close + " " + O.close + "; " +
		K.open + " var a = W; var b = W; r = f() " + K.close + "; [r, f()]"
	id := O.name + ">" + I.name + "/then-" + K.name + []string{"/read", "/write"}[zz.Ite(write, 1, 0)]
	zz.Budget(300000)
	res, err := Execute(e, nil, src)
	zz.Assertf(err == nil, "C04.S4.escaping-closure/runs/"+id, src)
	if err != nil {
		return
	}
	l, ok := res.([]interface{})
	zz.Assertf(ok && len(l) == 2, "C04.S4.escaping-closure/result-shape/"+id, src)
	if !ok || len(l) != 2 {
		return
	}
	r0, ok0 := l[0].(int64)
	r1, ok1 := l[1].(int64)
	want1 := v
	if write {
		want1 = x
	}
	zz.Assertf(ok0 && r0 == v, "C04.S4.escaping-closure/sees-its-defining-scope-from-a-later-block/"+id, src)
	zz.Assertf(ok1 && r1 == want1, "C04.S4.escaping-closure/keeps-its-defining-scope-afterwards/"+id, src)
}

// ZZ_C04_set_nearest: assignment = set nearest, else define here - over a
// chain of depth <= 3 with the existing binding at any level (or absent).
func ZZ_C04_set_nearest() {
	depth := 1 + zz.Choose(3)
	chain := []*env.Env{env.NewEnv()}
	for i := 1; i < depth; i++ {
		chain = append(chain, chain[i-1].NewEnv())
	}
	level := zz.Choose(depth + 1) // depth = absent
	old := zz.Int64()
	if level < depth {
		chain[level].Define("x", old)
	}
	// a second, outer binding must stay untouched when an inner one exists
	outer := zz.Int64()
	hasOuter := level > 0 && level < depth && zz.Choose(2) == 1
	if hasOuter {
		chain[0].Define("x", outer)
	}
	v := zz.Int64()
	ri := zzNewRunInfo(chain[depth-1])
	ri.rv = zzLitValue(v)
	ri.expr = zzIdent("x")
	ri.invokeLetExpr()
	zz.Assert(ri.err == nil, "C04.S3.assign-no-error")
	want := level
	if level == depth {
		want = depth - 1 // defined in the current scope
	}
	for i, sc := range chain {
		rv, has := zzOwnBinding(sc, "x")
		switch {
		case i == want:
			zz.Assert(has && rv == v, "C04.S3.nearest-binding-updated-or-defined-here")
		case hasOuter && i == 0:
			zz.Assert(has && rv == outer, "C04.S3.outer-binding-untouched")
		default:
			zz.Assert(!has, "C04.S3.no-other-scope-touched")
		}
	}
}

// ZZ_C04_every_binding_form: a fresh name bound inside a block is not visible
// after it, whichever statement form did the binding and also when that
// statement is the only one in the block: plain and multiple assignment, var,
// `v, ok = m[k]`, the receive statements, op-assignment on a fresh name,
// function and module declarations, `make(type ...)`, for-in / C-for headers.
func ZZ_C04_every_binding_form() {
	b := zzBlocks[zz.Choose(len(zzBlocks))]
	if b.module {
		return
	}
	forms := []struct{ name, stmt string }{
		{"assignment", "y = V"},
		{"multi-assignment", "y, y2 = V, W"},
		{"spread-assignment", "y, y2 = [V, W]"},
		{"var", "var y = V"},
		{"var-list", "var y, y2 = V"},
		{"map-item-form", "y, yok = zzmap[\"k\"]"},
		{"map-item-form-missing", "y, yok = zzmap[\"nosuch\"]"},
		{"receive-statement", "y = <-zzch"},
		{"two-value-receive-statement", "y, yok = <-zzch"},
		{"function-declaration", "func y() { return 1 }"},
		{"module-declaration", "module y { a = 1 }"},
		{"for-in-header", "for y in [V] { }"},
		{"c-for-header", "for y = 0; y < 1; y++ { }"},
		{"nested-if", "if true { y = V }"},
		{"catch-variable", "try { throw 1 } catch y { }"},
		{"type-declaration", "make(type y, V)"},
	}
	f := forms[zz.Choose(len(forms))]
	v, w := zz.Int64(), zz.Int64()
	e := env.NewEnv()
	e.Define("V", v)
	e.Define("W", w)
	e.Define("zzmap", map[interface{}]interface{}{"k": v})
	ch := make(chan int64, 2)
	ch <- v
	ch <- w
	e.Define("zzch", ch)
	before := zz.Choose(2) == 1 // the binding statement alone, or after another statement
	body := f.stmt
	if before {
		body = "zzq = 1; " + f.stmt
	}
	src := b.pre + " " + body + " " + b.post + "\n"
	_, err := Execute(e, nil, src)
	id := b.name + "/" + f.name + []string{"/sole-statement", "/after-another"}[zz.Ite(before, 1, 0)]
	zz.Assertf(err == nil, "C04.S2.runs/"+id, src)
	if err != nil {
		return
	}
	for _, n := range []string{"y", "y2", "yok", "zzq"} {
		_, nerr := e.Get(n)
		zz.Assertf(nerr != nil, "C04.S2.block-binding-not-visible-after/"+id, src)
	}
	if f.name == "type-declaration" {
		_, terr := e.Type("y")
		zz.Assertf(terr != nil, "C04.S2.block-type-not-visible-after/"+id, src)
	}
}
