package vm

// C14-F3: import gives each importing environment its own copy of a package's
// symbol table.

import (
	"reflect"

	"github.com/mattn/anko/ast"
	"github.com/mattn/anko/env"
	zz "github.com/mattn/anko/zzverif"
)

func ZZ_C14_import_copies() {
	n := 1 + zz.Choose(2)
	v := zz.Int64()
	table := map[string]reflect.Value{"A": reflect.ValueOf(v)}
	if n == 2 {
		table["Greet"] = reflect.ValueOf(func() string { return "hello" })
	}
	env.Packages["zzpkg"] = table
	env.PackageTypes["zzpkg"] = map[string]reflect.Type{"T": reflect.TypeOf(int64(0))}
	before := ""
	if zz.Symbolic() {
		zz.FreezeGlobals()
	} else {
		before = zz.GlobalsDump()
	}
	e1, e2 := env.NewEnv(), env.NewEnv()
	imp := &ast.ImportExpr{Name: zzLit("zzpkg")}
	r1, err1 := zzEval(e1, imp)
	r2, err2 := zzEval(e2, imp)
	r3, err3 := zzEval(e1, imp)
	zz.Assert(err1 == nil && err2 == nil && err3 == nil, "C14.F3.import-runs")
	m1, ok1 := r1.Interface().(*env.Env)
	m2, ok2 := r2.Interface().(*env.Env)
	m3, ok3 := r3.Interface().(*env.Env)
	zz.Assert(ok1 && ok2 && ok3, "C14.F3.import-yields-a-scope")
	if !(ok1 && ok2 && ok3) {
		return
	}
	zz.Assert(m1 != m2 && m1 != m3, "C14.F3.every-import-gets-its-own-scope")
	// exactly the table's entries
	a, aerr := m1.Get("A")
	ai, _ := a.(int64)
	zz.Assert(aerr == nil && ai == v, "C14.F3.copy-holds-the-table-entries")
	_, terr := m1.Type("T")
	zz.Assert(terr == nil, "C14.F3.copy-holds-the-type-entries")
	// a change made through one importer is invisible to the others and to the table
	w := zz.Int64()
	m1.Define("A", w)
	m1.Define("Extra", int64(1))
	b, berr := m2.Get("A")
	bi, _ := b.(int64)
	zz.Assert(berr == nil && bi == v, "C14.F3.other-importer-unaffected")
	_, xerr := m2.Get("Extra")
	zz.Assert(xerr != nil, "C14.F3.definition-invisible-to-other-importer")
	c, cerr := m3.Get("A")
	ci, _ := c.(int64)
	zz.Assert(cerr == nil && ci == v, "C14.F3.second-import-of-same-environment-unaffected")
	zz.Assert(len(env.Packages["zzpkg"]) == n && env.Packages["zzpkg"]["A"].Int() == v, "C14.F3.package-table-unmodified")
	// Set reaches the nearest binding wherever it lives: that must still be the importer's own copy;
	// so must a member assignment on the import expression itself (`import("zzpkg").A = w`)
	w2 := zz.Int64()
	zz.Assert(m2.Set("A", w2) == nil, "C14.F3.set-on-imported-scope")
	_, lerr := zzExec(e2, &ast.LetsStmt{LHSS: []ast.Expr{&ast.MemberExpr{Expr: imp, Name: "A"}}, RHSS: []ast.Expr{zzLit(w2)}})
	zz.Assert(lerr == nil, "C14.F3.member-assignment-on-import-expression")
	c3, c3err := m3.Get("A")
	c3i, _ := c3.(int64)
	zz.Assert(c3err == nil && c3i == v, "C14.F3.second-import-of-same-environment-unaffected")
	// a later import still sees the original table
	r4, _ := zzEval(env.NewEnv(), imp)
	if m4, ok := r4.Interface().(*env.Env); ok {
		d, derr := m4.Get("A")
		di, _ := d.(int64)
		zz.Assert(derr == nil && di == v, "C14.F3.later-import-sees-original-table")
		// importing scopes do not see each other's bindings through the module
		e1.Define("secret", int64(7))
		_, serr := m4.Get("secret")
		_, serr2 := m2.Get("secret")
		zz.Assert(serr != nil && serr2 != nil, "C14.F3.module-does-not-expose-another-environment")
	}
	if zz.Symbolic() {
		zz.Assertf(zz.Events("frozen-write") == 0, "C14.F3.no-write-to-process-wide-tables", zz.EventText("frozen-write"))
	} else {
		// native oracle: the package-level variables the engine named (registered by the replay overlay)
		zz.Assert(zz.GlobalsDump() == before, "C14.F3.no-write-to-process-wide-tables")
	}
}
