package vm

// Shared harness vocabulary for package vm (DESIGN §3).

import (
	"context"
	"math"
	"reflect"

	"github.com/mattn/anko/ast"
	"github.com/mattn/anko/env"
	zz "github.com/mattn/anko/zzverif"
)

// zzLit: a child expression that evaluates to an arbitrary value (the real
// invokeExpr returns expr.Literal unchanged).
func zzLit(v interface{}) ast.Expr {
	if v == nil {
		return &ast.LiteralExpr{Literal: nilValue}
	}
	return &ast.LiteralExpr{Literal: reflect.ValueOf(v)}
}

func zzLitRV(rv reflect.Value) ast.Expr { return &ast.LiteralExpr{Literal: rv} }

// zzBad: a child expression that fails (undefined identifier).
func zzBad() ast.Expr { return &ast.IdentExpr{Lit: "zz_undefined"} }

func zzIdent(name string) ast.Expr { return &ast.IdentExpr{Lit: name} }

func zzNewRunInfo(e *env.Env) *runInfoStruct {
	return &runInfoStruct{ctx: context.Background(), env: e, options: &Options{Debug: false}, rv: nilValue}
}

// zzEval evaluates expr with the real interpreter.
func zzEval(e *env.Env, expr ast.Expr) (reflect.Value, error) {
	ri := zzNewRunInfo(e)
	ri.expr = expr
	ri.invokeExpr()
	return ri.rv, ri.err
}

// zzExec runs stmt with the real interpreter (statement level, no defers).
func zzExec(e *env.Env, stmt ast.Stmt) (reflect.Value, error) {
	ri := zzNewRunInfo(e)
	ri.stmt = stmt
	ri.runSingleStmt()
	return ri.rv, ri.err
}

func zzBinOp(op string, l, r ast.Expr) ast.Expr {
	switch op {
	case "+", "-", "|":
		return &ast.OpExpr{Op: &ast.AddOperator{LHS: l, Operator: op, RHS: r}}
	case "*", "/", "%", "<<", ">>", "&":
		return &ast.OpExpr{Op: &ast.MultiplyOperator{LHS: l, Operator: op, RHS: r}}
	case "==", "!=", "<", "<=", ">", ">=":
		return &ast.OpExpr{Op: &ast.ComparisonOperator{LHS: l, Operator: op, RHS: r}}
	case "&&", "||":
		return &ast.OpExpr{Op: &ast.BinaryOperator{LHS: l, Operator: op, RHS: r}}
	}
	panic("zzBinOp: " + op)
}

// zzSameFloat: identical float64 results (all NaNs are one value).
func zzSameFloat(a, b float64) bool {
	return zz.Or(math.Float64bits(a) == math.Float64bits(b), zz.And(a != a, b != b))
}

func zzUnwrap(rv reflect.Value) reflect.Value {
	if rv.IsValid() && rv.Kind() == reflect.Interface && !rv.IsNil() {
		return rv.Elem()
	}
	return rv
}

func zzLitValue(v interface{}) reflect.Value { return reflect.ValueOf(v) }

// zzOwnBinding: the int64 bound to name in sc itself (not in its parents).
func zzOwnBinding(sc *env.Env, name string) (int64, bool) {
	for _, s := range sc.GetValueSymbols() {
		if s == name {
			v, err := sc.Get(name)
			i, ok := v.(int64)
			return i, err == nil && ok
		}
	}
	return 0, false
}
