package vm

// C10: slices, maps, strings and struct fields behave like their Go models.
// Differential: the script container and a mirror Go value receive the same
// operation; index / bound operands are symbolic.

import (
	"reflect"

	"github.com/mattn/anko/ast"
	"github.com/mattn/anko/env"
	zz "github.com/mattn/anko/zzverif"
)

// zzSlice builds a []interface{} of length n (symbolic int64 elements) with
// spare capacity extra, and its mirror (a plain copy of the elements).
func zzSlice(n, extra int) ([]interface{}, []int64) {
	full := make([]interface{}, n+extra)
	mirror := make([]int64, n)
	for i := 0; i < n; i++ {
		v := zz.Int64()
		full[i] = v
		mirror[i] = v
	}
	for i := n; i < n+extra; i++ {
		full[i] = int64(-7) // beyond len, within cap
	}
	return full[:n], mirror
}

func zzElemIs(rv reflect.Value, want int64) bool {
	rv = zzUnwrap(rv)
	if !rv.IsValid() || rv.Kind() != reflect.Int64 {
		return false
	}
	return rv.Int() == want
}

func zzSliceUnchanged(s []interface{}, mirror []int64) bool {
	if len(s) != len(mirror) {
		return false
	}
	ok := true
	for i := range s {
		v, isInt := s[i].(int64)
		if !isInt {
			return false
		}
		ok = zz.And(ok, v == mirror[i])
	}
	return ok
}

// zzIndexOperand returns an index operand of class c and its integer reading
// (valid=false: the class is not a number).
//
//	0 int64  1 float64 (truncated)  2 nil  3 non-numeral string  4 container  5 int32  6 bool
func zzIndexOperand(c int) (v interface{}, asInt int, numeric bool) {
	switch c {
	case 0:
		i := zz.Int64()
		return i, int(i), true
	case 1:
		f := zz.Float64()
		return f, int(f), true
	case 2:
		return nil, 0, false
	case 3:
		return "abc", 0, false
	case 4:
		return []interface{}{int64(1)}, 0, false
	case 5:
		i := zz.Int32()
		return i, int(i), true
	case 6:
		b := zz.Bool()
		return b, zz.Ite(b, 1, 0), true
	}
	return nil, 0, false
}

var zzIndexClassNames = []string{"int64", "float64", "nil", "string", "container", "int32", "bool"}

// ZZ_C10_slice_index_read: a[i] for every index class and value.
func ZZ_C10_slice_index_read() {
	n := zz.Choose(4)
	s, mirror := zzSlice(n, zz.Choose(2))
	c := zz.Choose(len(zzIndexClassNames))
	iv, i, numeric := zzIndexOperand(c)
	rv, err := zzEval(env.NewEnv(), &ast.ItemExpr{Item: zzLit(s), Index: zzLit(iv)})
	id := "C10.slice-read/" + zzIndexClassNames[c]
	if !numeric {
		zz.Assert(err != nil, id+"/non-numeric-index-is-error")
	} else if i >= 0 && i < n {
		zz.Assert(err == nil, id+"/in-range-no-error")
		if err == nil {
			zz.Assert(zzElemIs(rv, mirror[i]), id+"/addressed-element")
		}
	} else {
		zz.Assert(err != nil, id+"/out-of-range-is-error")
	}
	zz.Assert(zzSliceUnchanged(s, mirror), id+"/container-unchanged")
}

// ZZ_C10_slice_slice: a[b:e], a[b:], a[:e], a[b:e:c] with arbitrary bounds.
func ZZ_C10_slice_slice() {
	n := zz.Choose(4)
	extra := zz.Choose(2)
	s, mirror := zzSlice(n, extra)
	form := zz.Choose(4)
	b, e, c := 0, n, n+extra
	ex := &ast.SliceExpr{Item: zzLit(s)}
	if form == 0 || form == 1 || form == 3 {
		bv := zz.Int64()
		b = int(bv)
		ex.Begin = zzLit(bv)
	}
	if form == 0 || form == 2 || form == 3 {
		ev := zz.Int64()
		e = int(ev)
		ex.End = zzLit(ev)
	}
	if form == 3 {
		cv := zz.Int64()
		c = int(cv)
		ex.Cap = zzLit(cv)
	}
	rv, err := zzEval(env.NewEnv(), ex)
	id := "C10.slice-slice/" + []string{"b:e", "b:", ":e", "b:e:c"}[form]
	valid := b >= 0 && b <= e && e <= n
	if form == 3 {
		valid = valid && e <= c && c <= n+extra
	}
	goValid := b >= 0 && b <= e && e <= n+extra && (form != 3 || (e <= c && c <= n+extra))
	if valid {
		zz.Assert(err == nil, id+"/valid-bounds-no-error")
		if err != nil {
			return
		}
		rv = zzUnwrap(rv)
		zz.Assert(rv.Kind() == reflect.Slice && rv.Len() == e-b, id+"/length")
		if rv.Kind() != reflect.Slice || rv.Len() != e-b {
			return
		}
		zz.Assert(rv.Cap() == c-b, id+"/capacity")
		for k := 0; k < e-b; k++ {
			zz.Assert(zzElemIs(rv.Index(k), mirror[b+k]), id+"/element")
		}
		// shares storage: a write through the result is seen in the source
		if e-b > 0 {
			w := zz.Int64()
			rv.Index(0).Set(reflect.ValueOf(w))
			got, isInt := s[b].(int64)
			zz.Assert(isInt && got == w, id+"/shares-storage")
		}
	} else if !goValid {
		zz.Assert(err != nil, id+"/out-of-range-is-error")
		zz.Assert(zzSliceUnchanged(s, mirror), id+"/container-unchanged")
	}
	// len < e <= cap: Go allows it, anko refuses; nothing asserted (anko is stricter)
}

// zzAssign runs `a[idx] = v` (or a.name = v ...) with a bound to container.
func zzAssignItem(e *env.Env, idx interface{}, v interface{}) error {
	st := &ast.LetsStmt{LHSS: []ast.Expr{&ast.ItemExpr{Item: zzIdent("a"), Index: zzLit(idx)}}, RHSS: []ast.Expr{zzLit(v)}}
	_, err := zzExec(e, st)
	return err
}

// ZZ_C10_slice_index_write: a[i] = v including i == len(a) (append + rebind).
func ZZ_C10_slice_index_write() {
	n := zz.Choose(4)
	extra := zz.Choose(2)
	s, mirror := zzSlice(n, extra)
	e := env.NewEnv()
	e.Define("a", s)
	e.Define("alias", s)
	c := zz.Choose(len(zzIndexClassNames))
	iv, i, numeric := zzIndexOperand(c)
	w := zz.Int64()
	err := zzAssignItem(e, iv, w)
	id := "C10.slice-write/" + zzIndexClassNames[c]
	av, _ := e.Get("a")
	a, isSlice := av.([]interface{})
	zz.Assert(isSlice, id+"/still-a-slice")
	if !isSlice {
		return
	}
	switch {
	case !numeric:
		zz.Assert(err != nil, id+"/non-numeric-index-is-error")
		zz.Assert(zzSliceUnchanged(a, mirror), id+"/failed-store-leaves-container")
	case i >= 0 && i < n:
		zz.Assert(err == nil, id+"/in-range-no-error")
		ok := len(a) == n
		for k := 0; k < n && k < len(a); k++ {
			x, isInt := a[k].(int64)
			if !isInt {
				ok = false
				break
			}
			if k == i {
				ok = zz.And(ok, x == w)
			} else {
				ok = zz.And(ok, x == mirror[k])
			}
		}
		zz.Assert(ok, id+"/exactly-addressed-element-stored")
		// reference semantics: the alias sees the store
		x, isInt := s[i].(int64)
		zz.Assert(isInt && x == w, id+"/alias-sees-store")
	case i == n:
		zz.Assert(err == nil, id+"/append-at-len-no-error")
		ok := len(a) == n+1
		if ok {
			for k := 0; k < n; k++ {
				x, isInt := a[k].(int64)
				ok = zz.And(ok, isInt && x == mirror[k])
			}
			x, isInt := a[n].(int64)
			ok = zz.And(ok, isInt && x == w)
		}
		zz.Assert(ok, id+"/append-at-len")
	default:
		zz.Assert(err != nil, id+"/out-of-range-is-error")
		zz.Assert(zzSliceUnchanged(a, mirror), id+"/failed-store-leaves-container")
	}
}

// ZZ_C10_append_plus: a + v and a + b build the Go append result and leave
// the operands' visible elements unchanged.
func ZZ_C10_append_plus() {
	n := zz.Choose(3)
	s, mirror := zzSlice(n, zz.Choose(2))
	if zz.Choose(2) == 0 {
		w := zz.Int64()
		rv, err := zzEval(env.NewEnv(), zzBinOp("+", zzLit(s), zzLit(w)))
		zz.Assert(err == nil, "C10.append/slice+scalar/no-error")
		if err != nil {
			return
		}
		rv = zzUnwrap(rv)
		zz.Assert(rv.Kind() == reflect.Slice && rv.Len() == n+1, "C10.append/slice+scalar/length")
		if rv.Kind() == reflect.Slice && rv.Len() == n+1 {
			for k := 0; k < n; k++ {
				zz.Assert(zzElemIs(rv.Index(k), mirror[k]), "C10.append/slice+scalar/prefix")
			}
			zz.Assert(zzElemIs(rv.Index(n), w), "C10.append/slice+scalar/appended")
		}
	} else {
		m := zz.Choose(3)
		t, mirror2 := zzSlice(m, 0)
		rv, err := zzEval(env.NewEnv(), zzBinOp("+", zzLit(s), zzLit(t)))
		zz.Assert(err == nil, "C10.append/slice+slice/no-error")
		if err != nil {
			return
		}
		rv = zzUnwrap(rv)
		zz.Assert(rv.Kind() == reflect.Slice && rv.Len() == n+m, "C10.append/slice+slice/length")
		if rv.Kind() == reflect.Slice && rv.Len() == n+m {
			for k := 0; k < n; k++ {
				zz.Assert(zzElemIs(rv.Index(k), mirror[k]), "C10.append/slice+slice/prefix")
			}
			for k := 0; k < m; k++ {
				zz.Assert(zzElemIs(rv.Index(n+k), mirror2[k]), "C10.append/slice+slice/suffix")
			}
		}
		zz.Assert(zzSliceUnchanged(t, mirror2), "C10.append/slice+slice/rhs-unchanged")
	}
	zz.Assert(zzSliceUnchanged(s, mirror), "C10.append/lhs-visible-elements-unchanged")
}

// ZZ_C10_len_in: len and membership.
func ZZ_C10_len_in() {
	n := zz.Choose(4)
	s, mirror := zzSlice(n, zz.Choose(2))
	rv, err := zzEval(env.NewEnv(), &ast.LenExpr{Expr: zzLit(s)})
	zz.Assert(err == nil && zzElemIs(rv, int64(n)), "C10.len/slice")
	x := zz.Int64()
	rv, err = zzEval(env.NewEnv(), &ast.IncludeExpr{ItemExpr: zzLit(x), ListExpr: zzLit(s)})
	want := false
	for k := 0; k < n; k++ {
		want = zz.Or(want, mirror[k] == x)
	}
	zz.Assert(err == nil && rv.Kind() == reflect.Bool && rv.Bool() == want, "C10.in/slice")
	str := zz.SymString(zz.Choose(3))
	rv, err = zzEval(env.NewEnv(), &ast.LenExpr{Expr: zzLit(str)})
	zz.Assert(err == nil && zzElemIs(rv, int64(len(str))), "C10.len/string")
	m := map[interface{}]interface{}{}
	for k := 0; k < n; k++ {
		m[int64(k)] = true
	}
	rv, err = zzEval(env.NewEnv(), &ast.LenExpr{Expr: zzLit(m)})
	zz.Assert(err == nil && zzElemIs(rv, int64(n)), "C10.len/map")
}

// ---- maps

var zzKeyPool = []interface{}{"k", int64(1), true, 1.5, nil}

// ZZ_C10_map: read / write / delete with present, absent and unhashable keys.
func ZZ_C10_map() {
	m := map[interface{}]interface{}{}
	mirror := map[interface{}]int64{}
	for _, k := range zzKeyPool[:3] {
		if zz.Choose(2) == 1 {
			v := zz.Int64()
			m[k] = v
			mirror[k] = v
		}
	}
	same := func() bool {
		if len(m) != len(mirror) {
			return false
		}
		ok := true
		for k, v := range mirror {
			x, has := m[k]
			if !has {
				return false
			}
			xi, isInt := x.(int64)
			if !isInt {
				return false
			}
			ok = zz.And(ok, xi == v)
		}
		return ok
	}
	e := env.NewEnv()
	e.Define("a", m)
	unhashable := zz.Choose(4) == 0
	var key interface{}
	if unhashable {
		// a bare slice, and composites that merely contain an unhashable part
		switch zz.Choose(3) {
		case 0:
			key = []interface{}{int64(1)}
		case 1:
			key = zzPair{A: 1, B: []int64{1}}
		case 2:
			key = [1]interface{}{[]int64{1}}
		}
	} else {
		key = zzKeyPool[zz.Choose(len(zzKeyPool))]
	}
	switch zz.Choose(3) {
	case 0: // read
		rv, err := zzEval(e, &ast.ItemExpr{Item: zzIdent("a"), Index: zzLit(key)})
		if unhashable {
			zz.Assert(err == nil && isNil(zzUnwrapNil(rv)), "C10.map-read/unhashable-key-reads-nil")
		} else if want, has := mirror[key]; has {
			zz.Assert(err == nil && zzElemIs(rv, want), "C10.map-read/present")
		} else {
			zz.Assert(err == nil && isNil(zzUnwrapNil(rv)), "C10.map-read/missing-key-is-nil")
		}
		zz.Assert(same(), "C10.map-read/container-unchanged")
	case 1: // write
		w := zz.Int64()
		err := zzAssignItem(e, key, w)
		if unhashable {
			zz.Assert(err != nil, "C10.map-write/unhashable-key-is-error")
			zz.Assert(same(), "C10.map-write/failed-store-leaves-container")
		} else {
			zz.Assert(err == nil, "C10.map-write/no-error")
			mirror[key] = w
			zz.Assert(same(), "C10.map-write/exactly-addressed-entry-stored")
		}
	case 2: // delete
		_, err := zzExec(e, &ast.DeleteStmt{Item: zzIdent("a"), Key: zzLit(key)})
		if unhashable {
			zz.Assert(err != nil, "C10.map-delete/unhashable-key-is-error")
		} else {
			zz.Assert(err == nil, "C10.map-delete/no-error")
			delete(mirror, key)
		}
		zz.Assert(same(), "C10.map-delete/only-addressed-entry-removed")
	}
}

// ---- typed maps: the script key is converted to the map's key type as Go
// converts it (int64 -> int32 wraps, float -> integer truncates, integer ->
// string is the rune conversion); a key that cannot be converted is not in
// the map.

var zzTypedMapNames = []string{"map[int32]int64", "map[float64]int64", "map[int]int64", "map[string]int64"}

func zzTypedMapNew(kt int) (interface{}, []interface{}) {
	switch kt {
	case 0:
		return map[int32]int64{}, []interface{}{int32(1), int32(2)}
	case 1:
		return map[float64]int64{}, []interface{}{float64(1), float64(2.5)}
	case 2:
		return map[int]int64{}, []interface{}{int(1), int(2)}
	}
	return map[string]int64{}, []interface{}{"k", "A"}
}

// zzConvKey: Go's conversion of a script key to the key type.
func zzConvKey(kt int, key interface{}) (interface{}, bool) {
	switch kt {
	case 0:
		switch k := key.(type) {
		case int64:
			return int32(k), true
		case float64:
			return int32(k), true
		case string:
			// anko: a string of at most one byte converts to its rune (int32 is rune)
			if len(k) == 0 {
				return int32(0), true
			}
			if len(k) == 1 {
				return int32(k[0]), true
			}
		}
	case 1:
		switch k := key.(type) {
		case int64:
			return float64(k), true
		case float64:
			return k, true
		}
	case 2:
		switch k := key.(type) {
		case int64:
			return int(k), true
		case float64:
			return int(k), true
		}
	case 3:
		switch k := key.(type) {
		case int64:
			if int64(rune(k)) != k {
				return "\uFFFD", true // Go's integer -> string conversion of a non-rune
			}
			return string(rune(k)), true
		case string:
			return k, true
		}
	}
	return nil, false
}

var zzScriptKeys = []interface{}{int64(1), int64(2), int64(4294967297), int64(3), float64(1), float64(2.5), "k", "A", int64(65), true, "kk", int64(107)}

// ZZ_C10_typed_map: read / write / delete on typed maps with keys of the
// key type, of a convertible type and of an inconvertible type.
func ZZ_C10_typed_map() {
	kt := zz.Choose(len(zzTypedMapNames))
	m, pool := zzTypedMapNew(kt)
	mv := reflect.ValueOf(m)
	mirror := map[interface{}]int64{}
	for _, k := range pool {
		if zz.Choose(2) == 1 {
			v := zz.Int64()
			mv.SetMapIndex(reflect.ValueOf(k), reflect.ValueOf(v))
			mirror[k] = v
		}
	}
	same := func() bool {
		if mv.Len() != len(mirror) {
			return false
		}
		ok := true
		for k, v := range mirror {
			x := mv.MapIndex(reflect.ValueOf(k))
			if !x.IsValid() {
				return false
			}
			ok = zz.And(ok, x.Int() == v)
		}
		return ok
	}
	e := env.NewEnv()
	e.Define("a", m)
	key := zzScriptKeys[zz.Choose(len(zzScriptKeys))]
	ck, convertible := zzConvKey(kt, key)
	id := zzTypedMapNames[kt]
	switch zz.Choose(3) {
	case 0: // read
		rv, err := zzEval(e, &ast.ItemExpr{Item: zzIdent("a"), Index: zzLit(key)})
		if !convertible {
			zz.Assert(err != nil || isNil(rv), "C10.typed-map-read/inconvertible-key-reads-nil-or-fails/"+id)
		} else if want, has := mirror[ck]; has {
			zz.Assert(err == nil && zzElemIs(rv, want), "C10.typed-map-read/present-under-converted-key/"+id)
		} else {
			zz.Assert(err == nil && isNil(rv), "C10.typed-map-read/missing-key-is-nil/"+id)
		}
		zz.Assert(same(), "C10.typed-map-read/container-unchanged/"+id)
	case 1: // write
		w := zz.Int64()
		err := zzAssignItem(e, key, w)
		if !convertible {
			zz.Assert(err != nil, "C10.typed-map-write/inconvertible-key-is-error/"+id)
		} else {
			zz.Assert(err == nil, "C10.typed-map-write/no-error/"+id)
			mirror[ck] = w
		}
		zz.Assert(same(), "C10.typed-map-write/exactly-addressed-entry-stored/"+id)
	case 2: // delete
		_, err := zzExec(e, &ast.DeleteStmt{Item: zzIdent("a"), Key: zzLit(key)})
		if convertible {
			zz.Assert(err == nil, "C10.typed-map-delete/no-error/"+id)
			delete(mirror, ck)
		}
		zz.Assert(same(), "C10.typed-map-delete/only-addressed-entry-removed/"+id)
	}
}

func zzUnwrapNil(rv reflect.Value) reflect.Value {
	return rv
}

// ---- strings (ASCII: compared as s[i:i+1])

func ZZ_C10_string() {
	n := zz.Choose(4)
	s := zz.SymString(n)
	switch zz.Choose(3) {
	case 0:
		iv := zz.Int64()
		i := int(iv)
		rv, err := zzEval(env.NewEnv(), &ast.ItemExpr{Item: zzLit(s), Index: zzLit(iv)})
		if i >= 0 && i < n {
			zz.Assert(err == nil && rv.Kind() == reflect.String && rv.String() == s[i:i+1], "C10.string-index/in-range")
		} else {
			zz.Assert(err != nil, "C10.string-index/out-of-range-is-error")
		}
	case 1:
		bv, ev := zz.Int64(), zz.Int64()
		b, e := int(bv), int(ev)
		rv, err := zzEval(env.NewEnv(), &ast.SliceExpr{Item: zzLit(s), Begin: zzLit(bv), End: zzLit(ev)})
		if b >= 0 && b <= e && e <= n {
			zz.Assert(err == nil && rv.Kind() == reflect.String && rv.String() == s[b:e], "C10.string-slice/valid")
		} else {
			zz.Assert(err != nil, "C10.string-slice/out-of-range-is-error")
		}
	case 2:
		e := env.NewEnv()
		e.Define("a", s)
		iv := zz.Int64()
		i := int(iv)
		err := zzAssignItem(e, iv, "Z")
		av, _ := e.Get("a")
		got, isStr := av.(string)
		zz.Assert(isStr, "C10.string-write/still-a-string")
		if !isStr {
			return
		}
		switch {
		case i >= 0 && i < n:
			zz.Assert(err == nil && got == s[:i]+"Z"+s[i+1:], "C10.string-write/in-range")
		case i == n:
			zz.Assert(err == nil && got == s+"Z", "C10.string-write/append-at-len")
		default:
			zz.Assert(err != nil && got == s, "C10.string-write/out-of-range-is-error-and-unchanged")
		}
	}
}

// ---- typed containers and struct fields

// ZZ_C10_typed_slice: a []int64 / []string only ever holds its declared type.
func ZZ_C10_typed_slice() {
	n := 1 + zz.Choose(2)
	ts := make([]int64, n)
	mirror := make([]int64, n)
	for i := range ts {
		v := zz.Int64()
		ts[i], mirror[i] = v, v
	}
	e := env.NewEnv()
	e.Define("a", ts)
	i := zz.Choose(n)
	var v interface{}
	var want int64
	convertible := true
	switch zz.Choose(6) {
	case 0:
		x := zz.Int64()
		v, want = x, x
	case 1:
		x := zz.Float64()
		v, want = x, int64(x)
	case 2:
		x := zz.Int32()
		v, want = x, int64(x)
	case 3:
		v, convertible = "abc", false
	case 4:
		v, convertible = []interface{}{int64(1)}, false
	case 5:
		v, convertible = map[interface{}]interface{}{}, false
	}
	err := zzAssignItem(e, int64(i), v)
	av, _ := e.Get("a")
	a, isTyped := av.([]int64)
	zz.Assert(isTyped && len(a) == n, "C10.typed-slice/keeps-declared-type")
	if !isTyped || len(a) != n {
		return
	}
	if convertible {
		zz.Assert(err == nil && a[i] == want, "C10.typed-slice/store-converts-as-go")
	} else {
		zz.Assert(err != nil, "C10.typed-slice/ill-typed-store-is-error")
		zz.Assert(a[i] == mirror[i], "C10.typed-slice/failed-store-leaves-old-content")
	}
	for k := range a {
		if k != i {
			zz.Assert(a[k] == mirror[k], "C10.typed-slice/other-elements-unchanged")
		}
	}
}

// ZZ_C10_struct_fields: struct values made with make(struct{...}): a field
// reads back what was last stored through the same variable; unknown field is
// an error; ill-typed store is an error leaving the old content.
func ZZ_C10_struct_fields() {
	st := reflect.StructOf([]reflect.StructField{
		{Name: "A", Type: reflect.TypeOf(int64(0))},
		{Name: "B", Type: reflect.TypeOf("")},
		{Name: "C", Type: reflect.TypeOf([]interface{}{})},
	})
	pv := reflect.New(st) // what make(struct) yields behind a variable
	e := env.NewEnv()
	e.DefineValue("s", pv)
	a0 := zz.Int64()
	pv.Elem().Field(0).SetInt(a0)
	set := func(name string, v interface{}) error {
		_, err := zzExec(e, &ast.LetsStmt{LHSS: []ast.Expr{&ast.MemberExpr{Expr: zzIdent("s"), Name: name}}, RHSS: []ast.Expr{zzLit(v)}})
		return err
	}
	get := func(name string) (reflect.Value, error) {
		return zzEval(e, &ast.MemberExpr{Expr: zzIdent("s"), Name: name})
	}
	switch zz.Choose(5) {
	case 0:
		rv, err := get("A")
		zz.Assert(err == nil && zzElemIs(rv, a0), "C10.struct/read-initial")
	case 1:
		w := zz.Int64()
		err := set("A", w)
		rv, err2 := get("A")
		zz.Assert(err == nil && err2 == nil && zzElemIs(rv, w), "C10.struct/reads-back-last-store")
	case 2:
		f := zz.Float64()
		err := set("A", f)
		rv, err2 := get("A")
		zz.Assert(err == nil && err2 == nil && zzElemIs(rv, int64(f)), "C10.struct/store-converts-as-go")
	case 3:
		err := set("A", []interface{}{int64(1)})
		rv, err2 := get("A")
		zz.Assert(err != nil, "C10.struct/ill-typed-store-is-error")
		zz.Assert(err2 == nil && zzElemIs(rv, a0), "C10.struct/failed-store-leaves-old-content")
	case 4:
		_, err := get("Nope")
		zz.Assert(err != nil, "C10.struct/unknown-field-read-is-error")
		err = set("Nope", int64(1))
		zz.Assert(err != nil, "C10.struct/unknown-field-write-is-error")
	}
}

// ZZ_C10_history: append after slicing through two aliased variables.
func ZZ_C10_history() {
	s, _ := zzSlice(3, 1)
	e := env.NewEnv()
	e.Define("a", s)
	// b = a[0:2]; b[2] = w  (append at len writes into a's storage when cap allows, as Go's append does)
	b := zz.Choose(3)
	_, err := zzExec(e, &ast.LetsStmt{LHSS: []ast.Expr{zzIdent("b")}, RHSS: []ast.Expr{&ast.SliceExpr{Item: zzIdent("a"), Begin: zzLit(int64(0)), End: zzLit(int64(b))}}})
	zz.Assert(err == nil, "C10.history/slice")
	w := zz.Int64()
	_, err = zzExec(e, &ast.LetsStmt{LHSS: []ast.Expr{&ast.ItemExpr{Item: zzIdent("b"), Index: zzLit(int64(b))}}, RHSS: []ast.Expr{zzLit(w)}})
	zz.Assert(err == nil, "C10.history/append-through-slice")
	// Go model
	g := make([]interface{}, 3, 4)
	copy(g, s)
	gb := g[0:b]
	gb = append(gb, w)
	bv, _ := e.Get("b")
	bs, ok := bv.([]interface{})
	zz.Assert(ok && len(bs) == len(gb), "C10.history/result-length")
	x, isInt := s[b%3].(int64)
	_ = x
	_ = isInt
	if b < 3 {
		// Go's append overwrote a[b] in the shared storage
		got, isI := s[b].(int64)
		zz.Assert(isI && got == w, "C10.history/shared-storage-like-go")
	}
}
