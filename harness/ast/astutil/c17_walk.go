package astutil

import (
	"errors"
	"fmt"

	"github.com/mattn/anko/ast"
	zz "github.com/mattn/anko/zzverif"
)

// zzLeafMakers fills child fields with distinct leaf nodes.  Positions the
// parser fills with a fixed kind get that kind (IfStmt.ElseIf -> *IfStmt,
// SwitchStmt.Cases -> *SwitchCaseStmt with its own Exprs and Stmt); the
// grandchildren created that way are appended to *extra.
func zzLeafMakers(n int, absent bool, extra *[]interface{}) *zzMakers {
	return zzLeafMakersP(n, func(string) bool { return absent }, extra)
}

// zzLeafMakersP: presence of every optional child decided by skip.
func zzLeafMakersP(n int, skip func(field string) bool, extra *[]interface{}) *zzMakers {
	return &zzMakers{
		Expr: func(field string, i int) ast.Expr { return &ast.IdentExpr{Lit: "x"} },
		Stmt: func(field string, i int) ast.Stmt {
			switch field {
			case "IfStmt.ElseIf":
				c := &ast.IfStmt{If: &ast.IdentExpr{Lit: "c"}, Then: &ast.BreakStmt{}}
				*extra = append(*extra, c.If, c.Then)
				return c
			case "SwitchStmt.Cases":
				c := &ast.SwitchCaseStmt{Stmt: &ast.BreakStmt{}}
				*extra = append(*extra, c.Stmt)
				for j := 0; j < n; j++ {
					e := &ast.IdentExpr{Lit: "k"}
					c.Exprs = append(c.Exprs, e)
					*extra = append(*extra, e)
				}
				return c
			}
			return &ast.BreakStmt{}
		},
		Op: func(field string, i int) ast.Operator {
			o := &ast.BinaryOperator{LHS: &ast.IdentExpr{Lit: "l"}, Operator: "&&", RHS: &ast.IdentExpr{Lit: "r"}}
			*extra = append(*extra, o.LHS, o.RHS)
			return o
		},
		N:    func(field string) int { return n },
		Skip: skip,
	}
}

// zzWrap puts a node of any category under a statement Walk accepts.
func zzWrap(root interface{}, cat string) ast.Stmt {
	switch cat {
	case "stmt":
		if c, ok := root.(*ast.SwitchCaseStmt); ok {
			return &ast.SwitchStmt{Expr: &ast.IdentExpr{Lit: "s"}, Cases: []ast.Stmt{c}}
		}
		return root.(ast.Stmt)
	case "expr":
		return &ast.ExprStmt{Expr: root.(ast.Expr)}
	}
	return &ast.ExprStmt{Expr: &ast.OpExpr{Op: root.(ast.Operator)}}
}

func zzIndexOf(log []interface{}, x interface{}) (first, count int) {
	first = -1
	for i, y := range log {
		if y == x {
			if first < 0 {
				first = i
			}
			count++
		}
	}
	return
}

// zzWalkKind is the step lemma for node kind k: every child placed in the
// node is presented to the callback exactly once, after the node itself, and
// Walk returns nil.
func zzWalkKind(k int) {
	kind := zzKinds[k]
	n := zz.Choose(3) // list fields have 0..2 elements
	// every optional single child is independently present or nil (x[:hi] has
	// a nil Begin and a non-nil End)
	skip := func(field string) bool { return zz.Choose(2) == 1 }
	var kids, extra []interface{}
	root := zzBuild(k, zzLeafMakersP(n, skip, &extra), &kids)
	stmt := zzWrap(root, zzKindCat[k])
	var log []interface{}
	err := Walk(stmt, func(x interface{}) error {
		log = append(log, x)
		return nil
	})
	zz.Assert(err == nil, "C17.walk.no-error/"+kind)
	if err != nil {
		return
	}
	rootAt, rootCount := zzIndexOf(log, root)
	zz.Assert(rootCount == 1, "C17.walk.node-presented-once/"+kind)
	for _, c := range append(kids, extra...) {
		at, cnt := zzIndexOf(log, c)
		zz.Assert(cnt == 1, "C17.walk.child-presented-once/"+kind)
		if cnt >= 1 && rootCount >= 1 {
			zz.Assert(at > rootAt, "C17.walk.parent-before-child/"+kind)
		}
	}
}

func ZZ_C17_walk_step() {
	zzWalkKind(zz.Choose(len(zzKinds)))
}

// ZZ_C17_early_stop: the callback fails at its j-th call (j symbolic): Walk
// returns that very error and the callback is not called again.
func ZZ_C17_early_stop() {
	k := zz.Choose(len(zzKinds))
	kind := zzKinds[k]
	var kids, extra []interface{}
	root := zzBuild(k, zzLeafMakers(2, false, &extra), &kids)
	stmt := zzWrap(root, zzKindCat[k])
	j := zz.Int()
	zz.Assume(zz.And(j >= 0, j < 64))
	stop := errors.New("stop")
	calls := 0
	err := Walk(stmt, func(x interface{}) error {
		calls++
		if calls-1 == j {
			return stop
		}
		return nil
	})
	if calls > j {
		zz.Assert(err == stop, "C17.stop.returns-callback-error/"+kind)
		zz.Assert(calls == j+1, "C17.stop.no-call-after-error/"+kind)
	}
}

// ZZ_C17_walk_history: Walk has no memory between calls.  The program (its root
// is the *ast.StmtsStmt the parser returns) is walked once with a callback that
// fails at its j-th call (j symbolic; j beyond the node count is a complete
// walk), then walked again: the second walk presents every node exactly once,
// parents first, and returns nil - whatever happened to the first.
func ZZ_C17_walk_history() {
	k := zz.Choose(len(zzKinds))
	kind := zzKinds[k]
	var kids, extra []interface{}
	root := zzBuild(k, zzLeafMakers(1+zz.Choose(2), false, &extra), &kids)
	prog := &ast.StmtsStmt{Stmts: []ast.Stmt{zzWrap(root, zzKindCat[k]), &ast.ExprStmt{Expr: &ast.IdentExpr{Lit: "tail"}}}}
	tail := prog.Stmts[1].(*ast.ExprStmt).Expr
	j := zz.Int()
	zz.Assume(zz.And(j >= 0, j < 64))
	stop := errors.New("stop")
	calls := 0
	Walk(prog, func(x interface{}) error {
		calls++
		if calls-1 == j {
			return stop
		}
		return nil
	})
	var log []interface{}
	err := Walk(prog, func(x interface{}) error {
		log = append(log, x)
		return nil
	})
	zz.Assert(err == nil, "C17.history.walk-after-aborted-walk/no-error/"+kind)
	if err != nil {
		return
	}
	rootAt, rootCount := zzIndexOf(log, root)
	zz.Assert(rootCount == 1, "C17.history.walk-after-aborted-walk/node-presented-once/"+kind)
	for _, c := range append(append(kids, extra...), tail) {
		at, cnt := zzIndexOf(log, c)
		zz.Assert(cnt == 1, "C17.history.walk-after-aborted-walk/child-presented-once/"+kind)
		if cnt >= 1 && rootCount >= 1 && c != tail {
			zz.Assert(at > rootAt, "C17.history.walk-after-aborted-walk/parent-before-child/"+kind)
		}
	}
	// and a third walk that is aborted again returns its own error at its own index
	calls = 0
	err = Walk(prog, func(x interface{}) error {
		calls++
		if calls == 2 {
			return stop
		}
		return nil
	})
	zz.Assert(err == stop && calls == 2, "C17.history.abort-after-complete-walk/"+kind)
}

// zzWitness: one parseable snippet per node kind, so that a finding on a kind
// always has a source-level witness (checked by the native test below).
var zzWitness = map[string]string{
	"DeleteStmt": "delete(a, b)", "CloseStmt": "close(c)", "ChanStmt": "v, ok = <-c",
	"NilCoalescingOpExpr": "a ?? b", "MakeTypeExpr": "make(type t, x)", "LenExpr": "len(x)",
	"SliceExpr": "a[i:j:k]", "SwitchCaseStmt": "switch a { case b: c }",
}

// ZZ_C17_walk_pairs: the step lemma assumes that what Walk does at a node does
// not depend on the kinds of its children.  That assumption is itself checked
// here: parent kind x child kind, every expression / statement / operator
// position of the parent filled with a node of the child kind (an operator in
// an expression position is wrapped in the OpExpr the parser builds, so
// `x *= e` = LetsExpr > OpExpr > MultiplyOperator is one of the shapes).  Every
// node of the three levels is presented exactly once, after its parent.
func ZZ_C17_walk_pairs() {
	k1 := zz.Choose(len(zzKinds))
	k2 := zz.Choose(len(zzKinds))
	n := 1 + zz.Choose(2)
	var kids, extra []interface{}
	parentOf := map[interface{}]interface{}{}
	mkChild := func() interface{} {
		var k2kids, k2extra []interface{}
		node := zzBuild(k2, zzLeafMakers(1, false, &k2extra), &k2kids)
		for _, c := range append(k2kids, k2extra...) {
			extra = append(extra, c)
		}
		for _, c := range k2kids {
			parentOf[c] = node
		}
		return node
	}
	leaf := zzLeafMakers(n, false, &extra)
	makers := &zzMakers{
		Expr: func(field string, i int) ast.Expr {
			switch zzKindCat[k2] {
			case "expr":
				return mkChild().(ast.Expr)
			case "op":
				op := mkChild().(ast.Operator)
				extra = append(extra, op)
				w := &ast.OpExpr{Op: op}
				parentOf[op] = w
				return w
			}
			return leaf.Expr(field, i)
		},
		Stmt: func(field string, i int) ast.Stmt {
			// (positions the parser fills with a fixed kind keep that kind; a case
			// clause only occurs under a switch)
			if zzKindCat[k2] == "stmt" && field != "IfStmt.ElseIf" && field != "SwitchStmt.Cases" && zzKinds[k2] != "SwitchCaseStmt" {
				return mkChild().(ast.Stmt)
			}
			return leaf.Stmt(field, i)
		},
		Op: func(field string, i int) ast.Operator {
			if zzKindCat[k2] == "op" {
				return mkChild().(ast.Operator)
			}
			return leaf.Op(field, i)
		},
		N:    func(field string) int { return n },
		Skip: func(field string) bool { return false },
	}
	root := zzBuild(k1, makers, &kids)
	stmt := zzWrap(root, zzKindCat[k1])
	var log []interface{}
	err := Walk(stmt, func(x interface{}) error {
		log = append(log, x)
		return nil
	})
	id := zzKinds[k1] + ">" + zzKinds[k2]
	zz.Assert(err == nil, "C17.pairs.no-error/"+id)
	if err != nil {
		return
	}
	rootAt, rootCount := zzIndexOf(log, root)
	zz.Assert(rootCount == 1, "C17.pairs.node-presented-once/"+id)
	for _, c := range append(kids, extra...) {
		at, cnt := zzIndexOf(log, c)
		zz.Assert(cnt == 1, "C17.pairs.descendant-presented-once/"+id)
		if cnt >= 1 && rootCount >= 1 {
			zz.Assert(at > rootAt, "C17.pairs.parent-before-child/"+id)
		}
		if p, ok := parentOf[c]; ok && cnt >= 1 {
			pat, pc := zzIndexOf(log, p)
			zz.Assert(pc >= 1 && pat < at, "C17.pairs.parent-before-child/"+id)
		}
	}
}

// ZZ_C17_walk_deep: depth is not a reason to stop.  Trees nested c-1, c, c+1 and
// 2c+1 levels deep for every integer constant c written in the walker's own
// source (extracted on every run; 40 and 700 are always tried) - a left-deep
// operator chain as the parser builds for `1 + 1 + ...`, nested list literals,
// nested if blocks: every node is presented, Walk returns nil, and an error the
// callback returns for the innermost node comes back as it is.
func ZZ_C17_walk_deep() {
	depths := []int{40, 700}
	for _, c := range zzCodeConsts {
		for _, d := range []int{c - 1, c, c + 1, 2*c + 1} {
			if d > 3 && d <= 5000 {
				depths = append(depths, d)
			}
		}
	}
	d := depths[zz.Choose(len(depths))]
	zz.CallDepth(int64(8*d + 200))
	zz.Budget(400000000)
	shape := zz.Choose(3)
	inner := &ast.IdentExpr{Lit: "innermost"}
	var root ast.Stmt
	nodes := 0
	switch shape {
	case 0:
		var e ast.Expr = inner
		for i := 0; i < d; i++ {
			e = &ast.OpExpr{Op: &ast.AddOperator{LHS: e, Operator: "+", RHS: &ast.IdentExpr{Lit: "r"}}}
		}
		root = &ast.ExprStmt{Expr: e}
		nodes = 2 + 3*d
	case 1:
		var e ast.Expr = inner
		for i := 0; i < d; i++ {
			e = &ast.ArrayExpr{Exprs: []ast.Expr{e}}
		}
		root = &ast.ExprStmt{Expr: e}
		nodes = 2 + d
	case 2:
		var s ast.Stmt = &ast.ExprStmt{Expr: inner}
		for i := 0; i < d; i++ {
			s = &ast.IfStmt{If: &ast.IdentExpr{Lit: "c"}, Then: s}
		}
		root = s
		nodes = 2 + 2*d
	}
	id := []string{"operator-chain", "nested-lists", "nested-ifs"}[shape]
	count, sawInner := 0, false
	err := Walk(root, func(x interface{}) error {
		count++
		if x == interface{}(inner) {
			sawInner = true
		}
		return nil
	})
	zz.Assertf(err == nil, "C17.deep.walk-returns-no-error-of-its-own/"+id, fmt.Sprintf("depth %d", d))
	zz.Assertf(sawInner && count == nodes, "C17.deep.every-node-presented/"+id, fmt.Sprintf("depth %d: %d of %d nodes", d, count, nodes))
	stop := errors.New("stop")
	err = Walk(root, func(x interface{}) error {
		if x == interface{}(inner) {
			return stop
		}
		return nil
	})
	zz.Assertf(err == stop, "C17.deep.callback-error-from-the-innermost-node-returned/"+id, fmt.Sprintf("depth %d", d))
}
