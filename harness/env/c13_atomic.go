package env

// C13-D2: atomicity / linearizability under symbolic lock-granularity
// schedules.  Two goroutines run one operation each on a shared scope whose
// parent is read-only; the engine's scheduler may switch at every lock
// operation.  The concurrent results and final state must equal those of one
// of the two sequential orders (computed on the reference model of C12).

import (
	"reflect"
	"sync"

	zz "github.com/mattn/anko/zzverif"
)

var zzAtomicOps = []string{"Define", "Set", "Get", "Delete", "DeleteGlobal", "Symbols", "Copy"}

type zzOpResult struct {
	ok      bool  // no error
	val     int64 // value read (Get, Copy)
	present bool  // name present (Symbols, Copy)
}

// zzState: binding of name "a" in the shared scope and in its parent.
type zzState struct {
	sHas, pHas bool
	sVal, pVal int64
}

func zzModelOp(st *zzState, op int, v int64) zzOpResult {
	switch zzAtomicOps[op] {
	case "Define":
		st.sHas, st.sVal = true, v
		return zzOpResult{ok: true}
	case "Set":
		if st.sHas {
			st.sVal = v
			return zzOpResult{ok: true}
		}
		if st.pHas {
			st.pVal = v
			return zzOpResult{ok: true}
		}
		return zzOpResult{}
	case "Get":
		if st.sHas {
			return zzOpResult{ok: true, val: st.sVal}
		}
		if st.pHas {
			return zzOpResult{ok: true, val: st.pVal}
		}
		return zzOpResult{}
	case "Delete":
		st.sHas = false
		return zzOpResult{ok: true}
	case "DeleteGlobal":
		if st.sHas {
			st.sHas = false
		} else {
			st.pHas = false
		}
		return zzOpResult{ok: true}
	case "Symbols":
		return zzOpResult{ok: true, present: st.sHas}
	case "Copy":
		if !st.sHas {
			return zzOpResult{ok: true}
		}
		return zzOpResult{ok: true, present: true, val: st.sVal}
	}
	return zzOpResult{}
}

func zzRealOp(s *Env, op int, v int64) zzOpResult {
	switch zzAtomicOps[op] {
	case "Define":
		return zzOpResult{ok: s.Define("a", v) == nil}
	case "Set":
		return zzOpResult{ok: s.Set("a", v) == nil}
	case "Get":
		x, err := s.Get("a")
		if err != nil {
			return zzOpResult{}
		}
		i, _ := x.(int64)
		return zzOpResult{ok: true, val: i}
	case "Delete":
		s.Delete("a")
		return zzOpResult{ok: true}
	case "DeleteGlobal":
		s.DeleteGlobal("a")
		return zzOpResult{ok: true}
	case "Symbols":
		syms := s.GetValueSymbols()
		return zzOpResult{ok: true, present: len(syms) == 1}
	case "Copy":
		c := s.Copy()
		rv, has := c.values["a"]
		r := zzOpResult{ok: true, present: has}
		if has {
			r.val = rv.Int()
		}
		return r
	}
	return zzOpResult{}
}

func zzResEq(a, b zzOpResult) bool {
	if a.ok != b.ok || a.present != b.present {
		return false
	}
	return a.val == b.val
}

func zzStateEq(a, b zzState) bool {
	if a.sHas != b.sHas || a.pHas != b.pHas {
		return false
	}
	ok := true
	if a.sHas {
		ok = zz.And(ok, a.sVal == b.sVal)
	}
	if a.pHas {
		ok = zz.And(ok, a.pVal == b.pVal)
	}
	return ok
}

func zzBuildPair(st zzState) (*Env, *Env) {
	p := &Env{}
	s := &Env{parent: p}
	if st.pHas {
		p.values = map[string]reflect.Value{"a": reflect.ValueOf(st.pVal)}
	}
	if st.sHas {
		s.values = map[string]reflect.Value{"a": reflect.ValueOf(st.sVal)}
	}
	return s, p
}

func zzObserve(s, p *Env) zzState {
	var st zzState
	if rv, ok := s.values["a"]; ok {
		st.sHas, st.sVal = true, rv.Int()
	}
	if rv, ok := p.values["a"]; ok {
		st.pHas, st.pVal = true, rv.Int()
	}
	return st
}

// zzLinearizable: outcome (r1, r2, final) equals order 1;2 or order 2;1.
func zzLinearizable(pre zzState, op1, op2 int, v1, v2 int64, r1, r2 zzOpResult, final zzState) bool {
	a := pre
	a1 := zzModelOp(&a, op1, v1)
	a2 := zzModelOp(&a, op2, v2)
	b := pre
	b2 := zzModelOp(&b, op2, v2)
	b1 := zzModelOp(&b, op1, v1)
	orderA := zz.And(zz.And(zzResEq(r1, a1), zzResEq(r2, a2)), zzStateEq(final, a))
	orderB := zz.And(zz.And(zzResEq(r1, b1), zzResEq(r2, b2)), zzStateEq(final, b))
	return zz.Or(orderA, orderB)
}

func zzRunPair(pre zzState, op1, op2 int, v1, v2 int64) (zzOpResult, zzOpResult, zzState) {
	s, p := zzBuildPair(pre)
	var r1, r2 zzOpResult
	var wg sync.WaitGroup
	wg.Add(2)
	go func() {
		r1 = zzRealOp(s, op1, v1)
		wg.Done()
	}()
	go func() {
		r2 = zzRealOp(s, op2, v2)
		wg.Done()
	}()
	wg.Wait()
	return r1, r2, zzObserve(s, p)
}

func ZZ_C13_D2_two_goroutines()       { zzTwoGoroutines(8) }
func ZZ_C13_D2_two_goroutines_quick() { zzTwoGoroutines(3) }

func zzTwoGoroutines(maxSwitches int) {
	pre := zzState{sHas: zz.Choose(2) == 1, pHas: zz.Choose(2) == 1, sVal: zz.Int64(), pVal: zz.Int64()}
	op1 := zz.Choose(len(zzAtomicOps))
	op2 := zz.Choose(len(zzAtomicOps))
	v1, v2 := zz.Int64(), zz.Int64()
	id := "C13.D2.linearizable/" + zzAtomicOps[op1] + "|" + zzAtomicOps[op2]
	if zz.Symbolic() {
		zz.SchedExplore(true, maxSwitches)
		r1, r2, final := zzRunPair(pre, op1, op2, v1, v2)
		zz.SchedExplore(false, 0)
		zz.Assert(zzLinearizable(pre, op1, op2, v1, v2, r1, r2, final), id)
		zz.Assert(zz.LocksHeld() == 0, "C13.D2.locks-released")
		return
	}
	// native: stress the same pair with yields injected at every lock
	// operation (env's mutex is overlaid with zzverif.RWMutex)
	for i := 0; i < 20000; i++ {
		r1, r2, final := zzRunPair(pre, op1, op2, v1, v2)
		if !zzLinearizable(pre, op1, op2, v1, v2, r1, r2, final) {
			zz.Assert(false, id)
			return
		}
	}
}
