package env

// C13-D2: atomicity / linearizability under symbolic lock-granularity
// schedules.  Two goroutines run one operation each on a shared scope whose
// parent is read-only; the engine's scheduler may switch at every lock
// operation.  The concurrent results and final state must equal those of one
// of the two sequential orders (computed on the reference model of C12).

import (
	"reflect"
	"sync"

	zz "github.com/mattn/anko/zzverif"
)

var zzAtomicOps = []string{"Define", "Set", "Get", "Delete", "DeleteGlobal", "Symbols", "Copy"}

type zzOpResult struct {
	ok      bool  // no error
	val     int64 // value read (Get, Copy)
	present bool  // name present (Symbols, Copy)
}

// zzState: binding of name "a" in the shared scope and in its parent.
type zzState struct {
	sHas, pHas bool
	sVal, pVal int64
}

func zzModelOp(st *zzState, op int, v int64) zzOpResult {
	switch zzAtomicOps[op] {
	case "Define":
		st.sHas, st.sVal = true, v
		return zzOpResult{ok: true}
	case "Set":
		if st.sHas {
			st.sVal = v
			return zzOpResult{ok: true}
		}
		if st.pHas {
			st.pVal = v
			return zzOpResult{ok: true}
		}
		return zzOpResult{}
	case "Get":
		if st.sHas {
			return zzOpResult{ok: true, val: st.sVal}
		}
		if st.pHas {
			return zzOpResult{ok: true, val: st.pVal}
		}
		return zzOpResult{}
	case "Delete":
		st.sHas = false
		return zzOpResult{ok: true}
	case "DeleteGlobal":
		if st.sHas {
			st.sHas = false
		} else {
			st.pHas = false
		}
		return zzOpResult{ok: true}
	case "Symbols":
		return zzOpResult{ok: true, present: st.sHas}
	case "Copy":
		if !st.sHas {
			return zzOpResult{ok: true}
		}
		return zzOpResult{ok: true, present: true, val: st.sVal}
	}
	return zzOpResult{}
}

func zzRealOp(s *Env, op int, v int64) zzOpResult {
	switch zzAtomicOps[op] {
	case "Define":
		return zzOpResult{ok: s.Define("a", v) == nil}
	case "Set":
		return zzOpResult{ok: s.Set("a", v) == nil}
	case "Get":
		x, err := s.Get("a")
		if err != nil {
			return zzOpResult{}
		}
		i, _ := x.(int64)
		return zzOpResult{ok: true, val: i}
	case "Delete":
		s.Delete("a")
		return zzOpResult{ok: true}
	case "DeleteGlobal":
		s.DeleteGlobal("a")
		return zzOpResult{ok: true}
	case "Symbols":
		syms := s.GetValueSymbols()
		return zzOpResult{ok: true, present: len(syms) == 1}
	case "Copy":
		c := s.Copy()
		rv, has := c.values["a"]
		r := zzOpResult{ok: true, present: has}
		if has {
			r.val = rv.Int()
		}
		return r
	}
	return zzOpResult{}
}

func zzResEq(a, b zzOpResult) bool {
	if a.ok != b.ok || a.present != b.present {
		return false
	}
	return a.val == b.val
}

func zzStateEq(a, b zzState) bool {
	if a.sHas != b.sHas || a.pHas != b.pHas {
		return false
	}
	ok := true
	if a.sHas {
		ok = zz.And(ok, a.sVal == b.sVal)
	}
	if a.pHas {
		ok = zz.And(ok, a.pVal == b.pVal)
	}
	return ok
}

func zzBuildPair(st zzState) (*Env, *Env) {
	p := &Env{}
	s := &Env{parent: p}
	if st.pHas {
		p.values = map[string]reflect.Value{"a": reflect.ValueOf(st.pVal)}
	}
	if st.sHas {
		s.values = map[string]reflect.Value{"a": reflect.ValueOf(st.sVal)}
	}
	return s, p
}

func zzObserve(s, p *Env) zzState {
	var st zzState
	if rv, ok := s.values["a"]; ok {
		st.sHas, st.sVal = true, rv.Int()
	}
	if rv, ok := p.values["a"]; ok {
		st.pHas, st.pVal = true, rv.Int()
	}
	return st
}

// zzLinearizable: outcome (r1, r2, final) equals order 1;2 or order 2;1.
func zzLinearizable(pre zzState, op1, op2 int, v1, v2 int64, r1, r2 zzOpResult, final zzState) bool {
	a := pre
	a1 := zzModelOp(&a, op1, v1)
	a2 := zzModelOp(&a, op2, v2)
	b := pre
	b2 := zzModelOp(&b, op2, v2)
	b1 := zzModelOp(&b, op1, v1)
	orderA := zz.And(zz.And(zzResEq(r1, a1), zzResEq(r2, a2)), zzStateEq(final, a))
	orderB := zz.And(zz.And(zzResEq(r1, b1), zzResEq(r2, b2)), zzStateEq(final, b))
	return zz.Or(orderA, orderB)
}

func zzRunPair(pre zzState, op1, op2 int, v1, v2 int64) (zzOpResult, zzOpResult, zzState) {
	s, p := zzBuildPair(pre)
	var r1, r2 zzOpResult
	var wg sync.WaitGroup
	wg.Add(2)
	go func() {
		r1 = zzRealOp(s, op1, v1)
		wg.Done()
	}()
	go func() {
		r2 = zzRealOp(s, op2, v2)
		wg.Done()
	}()
	wg.Wait()
	return r1, r2, zzObserve(s, p)
}

func ZZ_C13_D2_two_goroutines()       { zzTwoGoroutines(8) }
func ZZ_C13_D2_two_goroutines_quick() { zzTwoGoroutines(3) }

func zzTwoGoroutines(maxSwitches int) {
	pre := zzState{sHas: zz.Choose(2) == 1, pHas: zz.Choose(2) == 1, sVal: zz.Int64(), pVal: zz.Int64()}
	op1 := zz.Choose(len(zzAtomicOps))
	op2 := zz.Choose(len(zzAtomicOps))
	v1, v2 := zz.Int64(), zz.Int64()
	id := "C13.D2.linearizable/" + zzAtomicOps[op1] + "|" + zzAtomicOps[op2]
	if zz.Symbolic() {
		zz.SchedExplore(true, maxSwitches)
		r1, r2, final := zzRunPair(pre, op1, op2, v1, v2)
		zz.SchedExplore(false, 0)
		zz.Assert(zzLinearizable(pre, op1, op2, v1, v2, r1, r2, final), id)
		zz.Assert(zz.LocksHeld() == 0, "C13.D2.locks-released")
		return
	}
	// native: stress the same pair with yields injected at every lock
	// operation (env's mutex is overlaid with zzverif.RWMutex)
	for i := 0; i < 20000; i++ {
		r1, r2, final := zzRunPair(pre, op1, op2, v1, v2)
		if !zzLinearizable(pre, op1, op2, v1, v2, r1, r2, final) {
			zz.Assert(false, id)
			return
		}
	}
}

// ---- sequences: goroutine 1 runs two operations in a row, goroutine 2 one.
// The state also carries the type table entry "a" of the shared scope, so that
// a snapshot mixing two instants of the scope (values from one, types from
// another) is told apart from every one-at-a-time ordering.

var zzSeqWriters = []string{"Define", "Delete", "DefineType", "Set"}
var zzSeqObservers = []string{"Copy", "DeepCopy", "Get", "Symbols", "Type", "TypeSymbols", "Define", "DefineType"}

type zzState2 struct {
	zzState
	tHas bool
}

type zzOpResult2 struct {
	zzOpResult
	tpresent bool
}

func zzModelOp2(st *zzState2, op string, v int64) zzOpResult2 {
	switch op {
	case "DefineType":
		st.tHas = true
		return zzOpResult2{zzOpResult: zzOpResult{ok: true}}
	case "Type":
		return zzOpResult2{zzOpResult: zzOpResult{ok: st.tHas}}
	case "TypeSymbols":
		return zzOpResult2{zzOpResult: zzOpResult{ok: true}, tpresent: st.tHas}
	case "Copy", "DeepCopy":
		r := zzOpResult2{zzOpResult: zzOpResult{ok: true}, tpresent: st.tHas}
		if st.sHas {
			r.present, r.val = true, st.sVal
		}
		return r
	}
	for i, n := range zzAtomicOps {
		if n == op {
			return zzOpResult2{zzOpResult: zzModelOp(&st.zzState, i, v)}
		}
	}
	return zzOpResult2{}
}

func zzRealOp2(s *Env, op string, v int64) zzOpResult2 {
	switch op {
	case "DefineType":
		return zzOpResult2{zzOpResult: zzOpResult{ok: s.DefineType("a", int64(0)) == nil}}
	case "Type":
		_, err := s.Type("a")
		return zzOpResult2{zzOpResult: zzOpResult{ok: err == nil}}
	case "TypeSymbols":
		return zzOpResult2{zzOpResult: zzOpResult{ok: true}, tpresent: len(s.GetTypeSymbols()) == 1}
	case "Copy", "DeepCopy":
		var c *Env
		if op == "Copy" {
			c = s.Copy()
		} else {
			c = s.DeepCopy()
		}
		rv, has := c.values["a"]
		_, hasT := c.types["a"]
		r := zzOpResult2{zzOpResult: zzOpResult{ok: true, present: has}, tpresent: hasT}
		if has {
			r.val = rv.Int()
		}
		return r
	}
	for i, n := range zzAtomicOps {
		if n == op {
			return zzOpResult2{zzOpResult: zzRealOp(s, i, v)}
		}
	}
	return zzOpResult2{}
}

func zzResEq2(a, b zzOpResult2) bool {
	if a.tpresent != b.tpresent {
		return false
	}
	return zzResEq(a.zzOpResult, b.zzOpResult)
}

func zzStateEq2(a, b zzState2) bool {
	if a.tHas != b.tHas {
		return false
	}
	return zzStateEq(a.zzState, b.zzState)
}

func zzRunSeq(pre zzState2, w1, w2, o string, v1, v2, v3 int64) (r1, r2, r3 zzOpResult2, final zzState2) {
	s, p := zzBuildPair(pre.zzState)
	if pre.tHas {
		s.types = map[string]reflect.Type{"a": reflect.TypeOf(int64(0))}
	}
	var wg sync.WaitGroup
	wg.Add(2)
	go func() {
		r1 = zzRealOp2(s, w1, v1)
		r2 = zzRealOp2(s, w2, v2)
		wg.Done()
	}()
	go func() {
		r3 = zzRealOp2(s, o, v3)
		wg.Done()
	}()
	wg.Wait()
	final.zzState = zzObserve(s, p)
	_, final.tHas = s.types["a"]
	return
}

// zzLinearizableSeq: the outcome equals one of the orders o;w1;w2, w1;o;w2, w1;w2;o.
func zzLinearizableSeq(pre zzState2, w1, w2, o string, v1, v2, v3 int64, r1, r2, r3 zzOpResult2, final zzState2) bool {
	any := false
	for pos := 0; pos < 3; pos++ {
		st := pre
		var m1, m2, m3 zzOpResult2
		if pos == 0 {
			m3 = zzModelOp2(&st, o, v3)
		}
		m1 = zzModelOp2(&st, w1, v1)
		if pos == 1 {
			m3 = zzModelOp2(&st, o, v3)
		}
		m2 = zzModelOp2(&st, w2, v2)
		if pos == 2 {
			m3 = zzModelOp2(&st, o, v3)
		}
		same := zz.And(zz.And(zzResEq2(r1, m1), zzResEq2(r2, m2)), zz.And(zzResEq2(r3, m3), zzStateEq2(final, st)))
		any = zz.Or(any, same)
	}
	return any
}

func ZZ_C13_D2_sequence()       { zzSequence(4, len(zzSeqWriters), len(zzSeqObservers)) }
func ZZ_C13_D2_sequence_quick() { zzSequence(2, 3, 4) }

func zzSequence(maxSwitches, nW, nO int) {
	pre := zzState2{zzState: zzState{sHas: zz.Choose(2) == 1, pHas: zz.Choose(2) == 1, sVal: zz.Int64(), pVal: zz.Int64()}, tHas: zz.Choose(2) == 1}
	w1 := zzSeqWriters[zz.Choose(nW)]
	w2 := zzSeqWriters[zz.Choose(nW)]
	o := zzSeqObservers[zz.Choose(nO)]
	v1, v2, v3 := zz.Int64(), zz.Int64(), zz.Int64()
	id := "C13.D2.linearizable/" + w1 + ";" + w2 + "|" + o
	if zz.Symbolic() {
		zz.SchedExplore(true, maxSwitches)
		r1, r2, r3, final := zzRunSeq(pre, w1, w2, o, v1, v2, v3)
		zz.SchedExplore(false, 0)
		zz.Assert(zzLinearizableSeq(pre, w1, w2, o, v1, v2, v3, r1, r2, r3, final), id)
		zz.Assert(zz.LocksHeld() == 0, "C13.D2.locks-released")
		return
	}
	for i := 0; i < 20000; i++ {
		r1, r2, r3, final := zzRunSeq(pre, w1, w2, o, v1, v2, v3)
		if !zzLinearizableSeq(pre, w1, w2, o, v1, v2, v3, r1, r2, r3, final) {
			zz.Assert(false, id)
			return
		}
	}
}
