package env

// C13-D1: lock discipline.  Every read of e.values / e.types (field load, map
// lookup, len, range) must happen while the goroutine holds e.rwMutex, every
// write while it holds it in write mode; locks are released on every path and
// never re-acquired while held.  If all accesses obey the discipline there is
// no data race on those fields under the Go memory model.
//
// Under the engine the lock monitor decides this on the real code.  Natively
// (replay) the oracle is the race detector: the same call runs concurrently
// with a writer of both tables.

import (
	"reflect"
	"sync"

	zz "github.com/mattn/anko/zzverif"
)

var zzLockOps = []string{"Define", "DefineGlobal", "Set", "Get", "Delete", "DeleteGlobal", "GetValueSymbols",
	"NewEnv", "NewModule", "Addr", "String", "DefineType", "DefineGlobalType", "Type", "GetTypeSymbols",
	"Copy", "DeepCopy", "GetEnvFromPath", "GetEnvFromPath2", "GetEnvFromPath3", "DefineValue", "SetValue", "GetValue", "DefineReflectType", "SetExternalLookup"}

func zzLockOp(e *Env, op int, name string, v int64) {
	switch zzLockOps[op] {
	case "Define":
		e.Define(name, v)
	case "DefineGlobal":
		e.DefineGlobal(name, v)
	case "Set":
		e.Set(name, v)
	case "Get":
		e.Get(name)
	case "Delete":
		e.Delete(name)
	case "DeleteGlobal":
		e.DeleteGlobal(name)
	case "GetValueSymbols":
		e.GetValueSymbols()
	case "NewEnv":
		e.NewEnv()
	case "NewModule":
		e.NewModule(name)
	case "Addr":
		e.Addr(name)
	case "String":
		_ = e.String()
	case "DefineType":
		e.DefineType(name, v)
	case "DefineGlobalType":
		e.DefineGlobalType(name, v)
	case "Type":
		e.Type(name)
	case "GetTypeSymbols":
		e.GetTypeSymbols()
	case "Copy":
		e.Copy()
	case "DeepCopy":
		e.DeepCopy()
	case "GetEnvFromPath":
		e.GetEnvFromPath([]string{name})
	case "GetEnvFromPath2":
		e.GetEnvFromPath([]string{"m", name})
	case "GetEnvFromPath3":
		e.GetEnvFromPath([]string{"m", "m2", name})
	case "DefineValue":
		e.DefineValue(name, reflect.ValueOf(v))
	case "SetValue":
		e.SetValue(name, reflect.ValueOf(v))
	case "GetValue":
		e.GetValue(name)
	case "DefineReflectType":
		e.DefineReflectType(name, reflect.TypeOf(v))
	case "SetExternalLookup":
		e.SetExternalLookup(&zzExt{})
	}
}

func ZZ_C13_D1_lock_discipline() {
	zzFillMode = 0
	zzNames = []string{"a"}
	w := zzWorldShape(zz.Choose(2), true)
	op := zz.Choose(len(zzLockOps))
	t := len(w.real) - 1
	name := []string{"a", "n"}[zz.Choose(2)]
	zzLockDiscipline(w, op, t, name)
}

// ZZ_C13_D1_lock_discipline_paths: path lookups through modules m and m.m2,
// including every failing path (an element absent, or bound to a non-module).
func ZZ_C13_D1_lock_discipline_paths() {
	zzFillMode = 1
	zzNames = []string{"a"}
	w := zzWorldShape(4+zz.Choose(2), false)
	zzFillMode = 0
	ops := []int{}
	for i, n := range zzLockOps {
		if len(n) >= 14 && n[:14] == "GetEnvFromPath" {
			ops = append(ops, i)
		}
	}
	op := ops[zz.Choose(len(ops))]
	t := zz.Choose(len(w.real))
	name := []string{"a", "n", "m", "m2"}[zz.Choose(4)]
	zzLockDiscipline(w, op, t, name)
}

func zzLockDiscipline(w *zzWorld, op, t int, name string) {
	v := zz.Int64()
	opName := zzLockOps[op]
	if zz.Symbolic() {
		for _, e := range w.real {
			zz.Guard(&e.rwMutex, &e.values, &e.types, &e.externalLookup)
		}
		zzLockOp(w.real[t], op, name, v)
		zz.Assert(zz.Events("lock-discipline") == 0, "C13.D1.lock-discipline/"+opName)
		zz.Assert(zz.Events("self-deadlock") == 0, "C13.D1.no-self-deadlock/"+opName)
		zz.Assert(zz.LocksHeld() == 0, "C13.D1.locks-released/"+opName)
		return
	}
	// native oracle for leaked locks: every scope's mutex can be taken afterwards;
	// for recursive read locks: the (overlaid) mutex counts them while the one
	// operation runs alone
	zz.SingleGoroutine(true)
	zzLockOp(w.real[t], op, name, v)
	zz.SingleGoroutine(false)
	zz.Assert(zz.RecursiveReadLocks() == 0, "C13.D1.no-self-deadlock/"+opName)
	if zz.RecursiveReadLocks() > 0 {
		return // (the stress run below would hang on the very deadlock just reported)
	}
	for _, e := range w.real {
		if !e.rwMutex.TryLock() {
			zz.Assert(false, "C13.D1.locks-released/"+opName)
			return
		}
		e.rwMutex.Unlock()
	}
	// native oracle for the discipline: race detector
	for i := 0; i < 20; i++ {
		w2 := &zzWorld{}
		zzAddScope(w2, -1)
		zzAddScope(w2, 0)
		var wg sync.WaitGroup
		wg.Add(2)
		for _, e := range w2.real {
			e := e
			go func() {
				defer wg.Done()
				e.Define("a", int64(1))
				e.DefineType("a", int64(1))
				e.Delete("a")
				e.SetExternalLookup(&zzExt{})
			}()
		}
		zzLockOp(w2.real[1], op, name, v)
		wg.Wait()
	}
}

// zzExtProbe: an external lookup that notes whether the scope that consults it
// still holds its lock (a lookup that reads the scope - a lazy loader asking
// e.Get - would then take the read lock a second time and deadlock behind a
// queued writer; one that defines into it would deadlock at once).
type zzExtProbe struct {
	e     *Env
	held  int
	calls int
}

func (x *zzExtProbe) probe() {
	x.calls++
	if zz.Symbolic() {
		x.held += zz.LocksHeld()
		return
	}
	if !x.e.rwMutex.TryLock() {
		x.held++
		return
	}
	x.e.rwMutex.Unlock()
}

func (x *zzExtProbe) Get(name string) (reflect.Value, error) {
	x.probe()
	return NilValue, errExtMiss
}

func (x *zzExtProbe) Type(name string) (reflect.Type, error) {
	x.probe()
	return nil, errExtMiss
}

var errExtMiss = errorString("ext: not found")

type errorString string

func (e errorString) Error() string { return string(e) }

// ZZ_C13_D1_external_lookup_called_unlocked: every operation that consults a
// scope's external lookup (from the scope itself or from a child) does so with
// no scope lock held.
func ZZ_C13_D1_external_lookup_called_unlocked() {
	parent := NewEnv()
	child := parent.NewEnv()
	on := []*Env{parent, child}[zz.Choose(2)]
	from := child
	if on == parent && zz.Choose(2) == 1 {
		from = parent
	}
	p := &zzExtProbe{e: on}
	on.SetExternalLookup(p)
	parent.Define("b", int64(1))
	ops := []string{"Get", "GetValue", "Addr", "Type", "Set", "DeleteGlobal"}
	op := ops[zz.Choose(len(ops))]
	name := []string{"n", "b"}[zz.Choose(2)]
	switch op {
	case "Get":
		from.Get(name)
	case "GetValue":
		from.GetValue(name)
	case "Addr":
		from.Addr(name)
	case "Type":
		from.Type(name)
	case "Set":
		from.Set(name, int64(2))
	case "DeleteGlobal":
		from.DeleteGlobal(name)
	}
	zz.Assert(p.held == 0, "C13.D1.external-lookup-called-with-no-lock-held/"+op)
}
