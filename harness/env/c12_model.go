package env

// C12: the environment API behaves as a parent-linked chain of dictionaries.
// Differential single step from an arbitrary pre-state against a reference
// model written from the property statement (not from env/*.go).

import (
	"errors"
	"reflect"

	zz "github.com/mattn/anko/zzverif"
)

// ---- reference model

type zzBinding struct {
	isMod bool
	mod   int   // scope index when isMod
	v     int64 // payload otherwise
}

type zzMScope struct {
	parent int // -1 for a root
	vals   map[string]zzBinding
	types  map[string]int // type code: 0 int64, 1 string, 2 nil type
	ext    map[string]int64
	extT   map[string]int
	hasExt bool
}

type zzWorld struct {
	real  []*Env
	model []*zzMScope
}

var zzNames = []string{"a", "b"}

// zzFillMode: 0 values and types, 1 values only, 2 types only.
var zzFillMode = 0

// zzResetHarnessGlobals: the defaults every engine path starts from (the batched
// native cross-check runs many harnesses in one process).
func zzResetHarnessGlobals() {
	zzNames = []string{"a", "b"}
	zzFillMode = 0
}

var zzTypeCodes = []reflect.Type{reflect.TypeOf(int64(0)), reflect.TypeOf(""), nil}

func zzIndexOfEnv(w *zzWorld, e *Env) int {
	for i, x := range w.real {
		if x == e {
			return i
		}
	}
	return -1
}

// zzExt is the harness's external lookup: answers for a chosen subset.
type zzExt struct {
	vals  map[string]int64
	types map[string]int
}

func (x *zzExt) Get(name string) (reflect.Value, error) {
	if v, ok := x.vals[name]; ok {
		return reflect.ValueOf(v), nil
	}
	return NilValue, errors.New("ext: not found")
}

func (x *zzExt) Type(name string) (reflect.Type, error) {
	if c, ok := x.types[name]; ok {
		return zzTypeCodes[c], nil
	}
	return NilType, errors.New("ext: not found")
}

func zzAddScope(w *zzWorld, parent int) int {
	e := &Env{}
	m := &zzMScope{parent: parent}
	if parent >= 0 {
		e.parent = w.real[parent]
	}
	w.real = append(w.real, e)
	w.model = append(w.model, m)
	return len(w.real) - 1
}

// zzFill gives scope i an arbitrary content over the name pool: each name is
// absent or bound to a symbolic int64; the maps may be nil (never defined).
func zzFill(w *zzWorld, i int, withTypes bool) {
	e, m := w.real[i], w.model[i]
	if zzFillMode != 2 && zz.Choose(2) == 1 {
		e.values = map[string]reflect.Value{}
		m.vals = map[string]zzBinding{}
		for _, n := range zzNames {
			if zz.Choose(2) == 1 {
				v := zz.Int64()
				e.values[n] = reflect.ValueOf(v)
				m.vals[n] = zzBinding{v: v}
			}
		}
	}
	if withTypes && zzFillMode != 1 && zz.Choose(2) == 1 {
		e.types = map[string]reflect.Type{}
		m.types = map[string]int{}
		for _, n := range zzNames {
			if zz.Choose(2) == 1 {
				c := zz.Choose(2)
				e.types[n] = zzTypeCodes[c]
				m.types[n] = c
			}
		}
	}
}

func zzBindModule(w *zzWorld, in int, name string, mod int) {
	e, m := w.real[in], w.model[in]
	if e.values == nil {
		e.values = map[string]reflect.Value{}
		m.vals = map[string]zzBinding{}
	}
	e.values[name] = reflect.ValueOf(w.real[mod])
	m.vals[name] = zzBinding{isMod: true, mod: mod}
}

// zzWorldShape builds a tree of <= 3 scopes:
//
//	0: root            1: root <- c1          2: root <- c1 <- c2
//	3: root <- c1, root <- c2 (siblings)
//	4: root with module m (=scope 1), module holds module m2 (= scope 2)
//	5: root <- c1, root binds m to a non-module int (path through a non-module)
func zzWorldShape(shape int, withTypes bool) *zzWorld {
	w := &zzWorld{}
	zzAddScope(w, -1)
	switch shape {
	case 1:
		zzAddScope(w, 0)
	case 2:
		zzAddScope(w, 0)
		zzAddScope(w, 1)
	case 3:
		zzAddScope(w, 0)
		zzAddScope(w, 0)
	case 4:
		zzAddScope(w, 0)
		zzAddScope(w, 1)
	case 5:
		zzAddScope(w, 0)
	}
	for i := range w.real {
		zzFill(w, i, withTypes)
	}
	switch shape {
	case 4:
		zzBindModule(w, 0, "m", 1)
		zzBindModule(w, 1, "m2", 2)
	case 5:
		e, m := w.real[1], w.model[1]
		if e.values == nil {
			e.values = map[string]reflect.Value{}
			m.vals = map[string]zzBinding{}
		}
		e.values["m"] = reflect.ValueOf(int64(7))
		m.vals["m"] = zzBinding{v: 7}
		zzBindModule(w, 0, "m", 1)
	}
	return w
}

// ---- model operations (the property statement, transcribed)

func zzHasDot(s string) bool {
	for i := 0; i < len(s); i++ {
		if s[i] == '.' {
			return true
		}
	}
	return false
}

func (w *zzWorld) mDefine(i int, name string, b zzBinding) bool {
	if zzHasDot(name) {
		return false
	}
	m := w.model[i]
	if m.vals == nil {
		m.vals = map[string]zzBinding{}
	}
	m.vals[name] = b
	return true
}

func (w *zzWorld) mRoot(i int) int {
	for w.model[i].parent >= 0 {
		i = w.model[i].parent
	}
	return i
}

func (w *zzWorld) mSet(i int, name string, b zzBinding) bool {
	for ; i >= 0; i = w.model[i].parent {
		if _, ok := w.model[i].vals[name]; ok {
			w.model[i].vals[name] = b
			return true
		}
	}
	return false
}

// mGet: own table, then the scope's external lookup, then the parent.
func (w *zzWorld) mGet(i int, name string) (zzBinding, bool) {
	for ; i >= 0; i = w.model[i].parent {
		m := w.model[i]
		if b, ok := m.vals[name]; ok {
			return b, true
		}
		if m.hasExt {
			if v, ok := m.ext[name]; ok {
				return zzBinding{v: v}, true
			}
		}
	}
	return zzBinding{}, false
}

func (w *zzWorld) mDelete(i int, name string) {
	delete(w.model[i].vals, name)
}

func (w *zzWorld) mDeleteNearest(i int, name string) {
	for ; i >= 0; i = w.model[i].parent {
		if _, ok := w.model[i].vals[name]; ok || w.model[i].parent < 0 {
			delete(w.model[i].vals, name)
			return
		}
	}
}

var zzBasicTypeNames = map[string]bool{"interface": true, "bool": true, "string": true, "int": true, "int32": true, "int64": true,
	"uint": true, "uint32": true, "uint64": true, "byte": true, "rune": true, "float32": true, "float64": true}

// mType: own table, external lookup, parent ...; built-in names last.
func (w *zzWorld) mType(i int, name string) (code int, basic bool, ok bool) {
	for ; i >= 0; i = w.model[i].parent {
		m := w.model[i]
		if c, ok := m.types[name]; ok {
			return c, false, true
		}
		if m.hasExt {
			if c, ok := m.extT[name]; ok {
				return c, false, true
			}
		}
	}
	if zzBasicTypeNames[name] {
		return 0, true, true
	}
	return 0, false, false
}

// ---- comparison of the whole observable state

func zzBindingMatches(w *zzWorld, rv reflect.Value, b zzBinding) bool {
	if !rv.IsValid() {
		return false
	}
	if b.isMod {
		e, ok := rv.Interface().(*Env)
		return ok && e == w.real[b.mod]
	}
	if rv.Kind() != reflect.Int64 {
		return false
	}
	return rv.Int() == b.v
}

// zzSameState compares every scope of the world with the model.
func zzSameState(w *zzWorld, extraNames ...string) bool {
	ok := true
	names := append([]string{"a", "b", "m", "m2", "n"}, extraNames...)
	for i, e := range w.real {
		m := w.model[i]
		if m.parent < 0 {
			ok = zz.And(ok, e.parent == nil)
		} else {
			ok = zz.And(ok, e.parent == w.real[m.parent])
		}
		if len(e.values) != len(m.vals) {
			return false
		}
		if len(e.types) != len(m.types) {
			return false
		}
		for _, n := range names {
			rv, has := e.values[n]
			b, mhas := m.vals[n]
			if has != mhas {
				return false
			}
			if has {
				ok = zz.And(ok, zzBindingMatches(w, rv, b))
			}
			rt, hasT := e.types[n]
			c, mhasT := m.types[n]
			if hasT != mhasT {
				return false
			}
			if hasT && rt != zzTypeCodes[c] {
				return false
			}
		}
	}
	return ok
}

// zzSameListing: what the API reports - the symbol listings of every scope - is
// the key set of that scope's dictionary in the model (zzSameState looks at the
// representation; a listing kept beside the table could differ from it).
func zzSameListing(w *zzWorld) bool {
	for i, e := range w.real {
		m := w.model[i]
		vs := e.GetValueSymbols()
		if len(vs) != len(m.vals) {
			return false
		}
		seen := map[string]bool{}
		for _, n := range vs {
			if _, has := m.vals[n]; !has || seen[n] {
				return false
			}
			seen[n] = true
		}
		ts := e.GetTypeSymbols()
		if len(ts) != len(m.types) {
			return false
		}
		seenT := map[string]bool{}
		for _, n := range ts {
			if _, has := m.types[n]; !has || seenT[n] {
				return false
			}
			seenT[n] = true
		}
	}
	return true
}
