package env

import (
	"fmt"
	"reflect"

	zz "github.com/mattn/anko/zzverif"
)

var zzArgNames = []string{"a", "b", "a.b", "n"}

// zzGuard runs f and reports whether it panicked (a panic in the API is a
// violation of "it never panics").
func zzGuard(f func()) (panicked bool) {
	defer func() {
		if r := recover(); r != nil {
			if _, ok := r.(zz.AssumeFailed); ok {
				panic(r)
			}
			panicked = true
		}
	}()
	f()
	return false
}

// zzValueOp performs value operation op on scope t with name and payload v
// on both the real environment and the model and asserts agreement.
func zzValueOp(w *zzWorld, op, t int, name string, v int64, tag string) {
	e := w.real[t]
	switch op {
	case 0: // Define
		var err error
		p := zzGuard(func() { err = e.Define(name, v) })
		zz.Assert(!p, "C12.no-panic/Define"+tag)
		ok := w.mDefine(t, name, zzBinding{v: v})
		zz.Assert((err == nil) == ok, "C12.result/Define"+tag)
		if err != nil {
			zz.Assert(err == ErrSymbolContainsDot, "C12.dot-rejected/Define"+tag)
		}
	case 1: // DefineGlobal
		var err error
		p := zzGuard(func() { err = e.DefineGlobal(name, v) })
		zz.Assert(!p, "C12.no-panic/DefineGlobal"+tag)
		ok := w.mDefine(w.mRoot(t), name, zzBinding{v: v})
		zz.Assert((err == nil) == ok, "C12.result/DefineGlobal"+tag)
	case 2: // Set
		var err error
		p := zzGuard(func() { err = e.Set(name, v) })
		zz.Assert(!p, "C12.no-panic/Set"+tag)
		ok := w.mSet(t, name, zzBinding{v: v})
		zz.Assert((err == nil) == ok, "C12.result/Set"+tag)
	case 3: // Get
		var x interface{}
		var err error
		p := zzGuard(func() { x, err = e.Get(name) })
		zz.Assert(!p, "C12.no-panic/Get"+tag)
		b, ok := w.mGet(t, name)
		zz.Assert((err == nil) == ok, "C12.result/Get"+tag)
		if ok && err == nil {
			if b.isMod {
				m, isEnv := x.(*Env)
				zz.Assert(isEnv && m == w.real[b.mod], "C12.value/Get"+tag)
			} else {
				i, isInt := x.(int64)
				zz.Assert(isInt, "C12.value-type/Get"+tag)
				if isInt {
					zz.Assert(i == b.v, "C12.value/Get"+tag)
				}
			}
		}
	case 4: // Delete
		p := zzGuard(func() { e.Delete(name) })
		zz.Assert(!p, "C12.no-panic/Delete"+tag)
		w.mDelete(t, name)
	case 5: // DeleteGlobal (delete-nearest)
		p := zzGuard(func() { e.DeleteGlobal(name) })
		zz.Assert(!p, "C12.no-panic/DeleteGlobal"+tag)
		w.mDeleteNearest(t, name)
	case 6: // GetValueSymbols
		var syms []string
		p := zzGuard(func() { syms = e.GetValueSymbols() })
		zz.Assert(!p, "C12.no-panic/GetValueSymbols"+tag)
		m := w.model[t]
		zz.Assert(len(syms) == len(m.vals), "C12.symbols-count/GetValueSymbols"+tag)
		seen := map[string]int{}
		for _, s := range syms {
			seen[s]++
		}
		for n := range m.vals {
			zz.Assert(seen[n] == 1, "C12.symbols-each-once/GetValueSymbols"+tag)
		}
	case 7: // NewEnv
		var c *Env
		p := zzGuard(func() { c = e.NewEnv() })
		zz.Assert(!p, "C12.no-panic/NewEnv"+tag)
		if c != nil {
			w.real = append(w.real, c)
			w.model = append(w.model, &zzMScope{parent: t})
		}
	case 8: // NewModule
		var c *Env
		var err error
		p := zzGuard(func() { c, err = e.NewModule(name) })
		zz.Assert(!p, "C12.no-panic/NewModule"+tag)
		if zzHasDot(name) {
			zz.Assert(err != nil, "C12.dot-rejected/NewModule"+tag)
		} else {
			zz.Assert(err == nil && c != nil, "C12.result/NewModule"+tag)
			if c != nil {
				w.real = append(w.real, c)
				w.model = append(w.model, &zzMScope{parent: t})
				w.mDefine(t, name, zzBinding{isMod: true, mod: len(w.real) - 1})
			}
		}
	case 9: // Addr: bindings made from plain values are not addressable
		var err error
		p := zzGuard(func() { _, err = e.Addr(name) })
		zz.Assert(!p, "C12.no-panic/Addr"+tag)
		zz.Assert(err != nil, "C12.result/Addr"+tag)
	case 10: // String
		p := zzGuard(func() { _ = e.String() })
		zz.Assert(!p, "C12.no-panic/String"+tag)
	}
}

const zzNumValueOps = 11

// ZZ_C12_values_step: one value operation from an arbitrary state.
func ZZ_C12_values_step() {
	w := zzWorldShape(zz.Choose(4), false)
	zz.Assert(zzSameState(w), "C12.pre-state-consistent")
	op := zz.Choose(zzNumValueOps)
	t := zz.Choose(len(w.real))
	name := zzArgNames[zz.Choose(len(zzArgNames))]
	v := zz.Int64()
	if zz.Choose(2) == 1 {
		// the state may have been looked at before: observers leave nothing behind
		// that a later operation could fail to bring up to date (a cached listing)
		zzObserveAll(w)
	}
	zzValueOp(w, op, t, name, v, "")
	zz.Assert(zzSameState(w, "a.b"), "C12.post-state")
	zz.Assert(zzSameListing(w), fmt.Sprintf("C12.listing-is-the-key-set/op%d", op))
}

// zzObserveAll calls every read-only operation on every scope.
func zzObserveAll(w *zzWorld) {
	for _, e := range w.real {
		e.GetValueSymbols()
		e.GetTypeSymbols()
		_ = e.String()
		for _, n := range []string{"a", "b", "n"} {
			e.Get(n)
			e.Type(n)
		}
	}
}

// ZZ_C12_types_step: one type operation from an arbitrary state.
func ZZ_C12_types_step()       { zzTypesStep(3) }
func ZZ_C12_types_step_quick() { zzTypesStep(2) }

func zzTypesStep(shapes int) {
	zzFillMode = 2
	// the table pool contains a built-in type name: an ancestor's binding of
	// "string" must win over the built-in, which is consulted last
	zzNames = []string{"a", "string"}
	w := zzWorldShape(zz.Choose(shapes), true)
	op := zz.Choose(4)
	t := zz.Choose(len(w.real))
	names := []string{"a", "b", "a.b", "n", "int64", "string"}
	name := names[zz.Choose(len(names))]
	c := zz.Choose(3)
	e := w.real[t]
	switch op {
	case 0: // DefineType (by sample value / reflect.Type / nil)
		var err error
		var arg interface{}
		switch c {
		case 0:
			arg = int64(0)
		case 1:
			arg = zzTypeCodes[1] // a reflect.Type is taken as is
		case 2:
			arg = nil
		}
		p := zzGuard(func() { err = e.DefineType(name, arg) })
		zz.Assert(!p, "C12.no-panic/DefineType")
		if zzHasDot(name) {
			zz.Assert(err == ErrSymbolContainsDot, "C12.dot-rejected/DefineType")
		} else {
			zz.Assert(err == nil, "C12.result/DefineType")
			m := w.model[t]
			if m.types == nil {
				m.types = map[string]int{}
			}
			m.types[name] = c
		}
	case 1: // DefineGlobalType
		var err error
		p := zzGuard(func() { err = e.DefineGlobalReflectType(name, zzTypeCodes[c]) })
		zz.Assert(!p, "C12.no-panic/DefineGlobalType")
		if zzHasDot(name) {
			zz.Assert(err == ErrSymbolContainsDot, "C12.dot-rejected/DefineGlobalType")
		} else {
			zz.Assert(err == nil, "C12.result/DefineGlobalType")
			m := w.model[w.mRoot(t)]
			if m.types == nil {
				m.types = map[string]int{}
			}
			m.types[name] = c
		}
	case 2: // Type
		var rt reflect.Type
		var err error
		p := zzGuard(func() { rt, err = e.Type(name) })
		zz.Assert(!p, "C12.no-panic/Type")
		code, basic, ok := w.mType(t, name)
		zz.Assert((err == nil) == ok, "C12.result/Type")
		if ok && err == nil {
			if basic {
				zz.Assert(rt != nil && rt.String() == name, "C12.value/Type-basic")
			} else {
				zz.Assert(rt == zzTypeCodes[code], "C12.value/Type")
			}
		}
	case 3: // GetTypeSymbols
		var syms []string
		p := zzGuard(func() { syms = e.GetTypeSymbols() })
		zz.Assert(!p, "C12.no-panic/GetTypeSymbols")
		m := w.model[t]
		zz.Assert(len(syms) == len(m.types), "C12.symbols-count/GetTypeSymbols")
		seen := map[string]int{}
		for _, s := range syms {
			seen[s]++
		}
		for n := range m.types {
			zz.Assert(seen[n] == 1, "C12.symbols-each-once/GetTypeSymbols")
		}
	}
	zz.Assert(zzSameState(w, "a.b", "int64", "string"), "C12.post-state/types")
	zzNames = []string{"a", "b"}
}

// ZZ_C12_path_step: module path resolution, including paths through names
// bound to non-modules (reachable from a script as make(a.b)).
func ZZ_C12_path_step() {
	shape := 4 + zz.Choose(2)
	w := zzWorldShape(shape, false)
	t := zz.Choose(len(w.real))
	paths := [][]string{nil, {"m"}, {"m", "m2"}, {"m2"}, {"a"}, {"m", "a"}, {"n"}, {"m", "n"}, {"a", "m"},
		// later elements are looked up in the module reached so far only, not in what encloses it
		{"m", "m"}, {"m", "m2", "m"}, {"m", "m2", "m2"}, {"m2", "m"}, {"m", "m2", "n"}}
	path := paths[zz.Choose(len(paths))]
	var got *Env
	var err error
	p := zzGuard(func() { got, err = w.real[t].GetEnvFromPath(path) })
	zz.Assert(!p, "C12.no-panic/GetEnvFromPath")
	if p {
		return
	}
	// model: the first element is resolved to the nearest enclosing binding
	// that is a module; every further element must be a module in the
	// module reached so far.
	want := t
	ok := true
	for i, name := range path {
		if i == 0 {
			found := false
			for s := t; s >= 0; s = w.model[s].parent {
				if b, has := w.model[s].vals[name]; has && b.isMod {
					want, found = b.mod, true
					break
				}
			}
			ok = found
		} else {
			b, has := w.model[want].vals[name]
			if has && b.isMod {
				want = b.mod
			} else {
				ok = false
			}
		}
		if !ok {
			break
		}
	}
	zz.Assert((err == nil) == ok, "C12.result/GetEnvFromPath")
	if ok && err == nil {
		zz.Assert(got == w.real[want], "C12.value/GetEnvFromPath")
	}
	zz.Assert(zzSameState(w), "C12.post-state/path")
	zz.Assert(zz.LocksHeld() == 0, "C12.no-lock-left-held/GetEnvFromPath")
}

// ZZ_C12_external_step: a scope's external lookup is consulted after its own
// table and before the parent.
func ZZ_C12_external_step() {
	onValues := zz.Choose(2) == 0
	zzFillMode = 2
	if onValues {
		zzFillMode = 1
	}
	w := zzWorldShape(zz.Choose(3), true)
	x := zz.Choose(len(w.real))
	ext := &zzExt{vals: map[string]int64{}, types: map[string]int{}}
	m := w.model[x]
	m.hasExt = true
	m.ext = map[string]int64{}
	m.extT = map[string]int{}
	for _, n := range zzNames {
		if onValues && zz.Choose(2) == 1 {
			v := zz.Int64()
			ext.vals[n] = v
			m.ext[n] = v
		}
		if !onValues && zz.Choose(2) == 1 {
			ext.types[n] = 1
			m.extT[n] = 1
		}
	}
	w.real[x].SetExternalLookup(ext)
	t := zz.Choose(len(w.real))
	name := zzNames[zz.Choose(2)]
	if onValues {
		zzValueOp(w, 3, t, name, 0, "+ext")
	} else {
		var rt reflect.Type
		var err error
		p := zzGuard(func() { rt, err = w.real[t].Type(name) })
		zz.Assert(!p, "C12.no-panic/Type+ext")
		code, _, ok := w.mType(t, name)
		zz.Assert((err == nil) == ok, "C12.result/Type+ext")
		if ok && err == nil {
			zz.Assert(rt == zzTypeCodes[code], "C12.value/Type+ext")
		}
	}
	zz.Assert(zzSameState(w), "C12.post-state/ext")
}

// ZZ_C12_copy_step: Copy is an independent snapshot of one scope, DeepCopy of
// the whole chain: a later mutation on either side is invisible to the other.
func ZZ_C12_copy_step() {
	zzNames = []string{"a"}
	w := zzWorldShape(1+zz.Choose(2), true)
	t := len(w.real) - 1
	deep := zz.Choose(2) == 1
	var c *Env
	p := zzGuard(func() {
		if deep {
			c = w.real[t].DeepCopy()
		} else {
			c = w.real[t].Copy()
		}
	})
	zz.Assert(!p && c != nil, "C12.no-panic/Copy")
	if c == nil {
		return
	}
	// the copy as a second world with its own model
	cw := &zzWorld{}
	chain := []int{}
	for s := t; s >= 0; s = w.model[s].parent {
		chain = append([]int{s}, chain...)
	}
	// walk the copy's chain from the leaf upward
	ce := c
	copies := make([]*Env, len(chain))
	for i := len(chain) - 1; i >= 0; i-- {
		copies[i] = ce
		if ce != nil {
			ce = ce.parent
		}
	}
	for i, s := range chain {
		src := w.model[s]
		nm := &zzMScope{parent: i - 1}
		if src.vals != nil {
			nm.vals = map[string]zzBinding{}
			for k, v := range src.vals {
				nm.vals[k] = v
			}
		}
		if src.types != nil {
			nm.types = map[string]int{}
			for k, v := range src.types {
				nm.types[k] = v
			}
		}
		cw.model = append(cw.model, nm)
		cw.real = append(cw.real, copies[i])
	}
	zz.Assert(copies[len(chain)-1] == c && c != w.real[t], "C12.copy-is-new-scope")
	for i, s := range chain[:len(chain)-1] {
		if deep {
			zz.Assert(copies[i] != nil && copies[i] != w.real[s], "C12.deepcopy-copies-parents")
		} else {
			zz.Assert(copies[i] == w.real[s], "C12.copy-shares-parent")
		}
	}
	if !deep {
		// a shallow copy shares its parents: compare only the copied scope
		cw = &zzWorld{real: []*Env{c}, model: []*zzMScope{cw.model[len(chain)-1]}}
		cw.model[0].parent = -1
		saved := c.parent
		c.parent = nil
		zz.Assert(zzSameState(cw), "C12.copy-equals-source")
		c.parent = saved
	} else {
		zz.Assert(zzSameState(cw), "C12.copy-equals-source")
	}
	// mutate one side, the other must not change
	op := []int{0, 2, 4}[zz.Choose(3)]
	name := "a"
	v := zz.Int64()
	if zz.Choose(2) == 0 {
		lvl := zz.Choose(len(chain))
		if !deep {
			lvl = len(chain) - 1
		}
		zzValueOp(w, op, chain[lvl], name, v, "+after-copy")
	} else {
		lvl := len(cw.real) - 1
		if deep {
			lvl = zz.Choose(len(cw.real))
		}
		saved := cw.real[lvl].parent
		if !deep {
			cw.real[lvl].parent = nil // the one-scope model has no parent
		}
		zzValueOp(cw, op, lvl, name, v, "+after-copy")
		if !deep {
			cw.real[lvl].parent = saved
		}
	}
	zz.Assert(zzSameState(w), "C12.copy-independent/source")
	if !deep {
		saved := c.parent
		c.parent = nil
		zz.Assert(zzSameState(cw), "C12.copy-independent/copy")
		c.parent = saved
	} else {
		zz.Assert(zzSameState(cw), "C12.copy-independent/copy")
	}
}

// ZZ_C12_copy_ext_step: a copy (deep or not) keeps consulting the external
// lookups its source scopes consult: lookups through the copy see what
// lookups through the source see.
func ZZ_C12_copy_ext_step() {
	zzNames = []string{"a"}
	zzFillMode = 1
	w := zzWorldShape(1+zz.Choose(2), false)
	zzFillMode = 0
	t := len(w.real) - 1
	deep := zz.Choose(2) == 1
	// one scope of the chain has an external lookup answering for "n" and
	// possibly "a" (values) and "nt" (a type)
	x := zz.Choose(len(w.real))
	xv := zz.Int64()
	ext := &zzExt{vals: map[string]int64{"n": xv}, types: map[string]int{"nt": 1}}
	m := w.model[x]
	m.hasExt, m.ext, m.extT = true, map[string]int64{"n": xv}, map[string]int{"nt": 1}
	if zz.Choose(2) == 1 {
		av := zz.Int64()
		ext.vals["a"], m.ext["a"] = av, av
	}
	w.real[x].SetExternalLookup(ext)
	var c *Env
	p := zzGuard(func() {
		if deep {
			c = w.real[t].DeepCopy()
		} else {
			c = w.real[t].Copy()
		}
	})
	zz.Assert(!p && c != nil, "C12.no-panic/Copy+ext")
	if c == nil {
		return
	}
	for _, name := range []string{"n", "a"} {
		var got interface{}
		var err error
		p := zzGuard(func() { got, err = c.Get(name) })
		b, ok := w.mGet(t, name)
		zz.Assert(!p && (err == nil) == ok, "C12.copy-keeps-external-lookup/Get")
		if ok && err == nil {
			i, isInt := got.(int64)
			zz.Assert(isInt && i == b.v, "C12.copy-keeps-external-lookup/Get-value")
		}
	}
	var rt reflect.Type
	var err error
	p = zzGuard(func() { rt, err = c.Type("nt") })
	_, _, okT := w.mType(t, "nt")
	zz.Assert(!p && (err == nil) == okT, "C12.copy-keeps-external-lookup/Type")
	if okT && err == nil {
		zz.Assert(rt == zzTypeCodes[1], "C12.copy-keeps-external-lookup/Type-value")
	}
	zz.Assert(zzSameState(w), "C12.post-state/copy+ext")
}

// ZZ_C12_history3: three operations in a row (cross-check of the lemma
// composition on a growing tree).
func ZZ_C12_history3() {
	w := zzWorldShape(zz.Choose(2), false)
	for step := 0; step < 3; step++ {
		op := []int{0, 1, 2, 3, 4, 5, 7, 8}[zz.Choose(8)]
		t := zz.Choose(len(w.real))
		name := []string{"a", "a.b"}[zz.Choose(2)]
		zzValueOp(w, op, t, name, zz.Int64(), "+history")
		zz.Assert(zzSameState(w), "C12.post-state/history")
	}
}

// ZZ_C12_addr_step: Addr yields the address of the nearest enclosing binding
// when that binding is addressable, an error when it is not or when the name
// is unbound; it changes nothing.
func ZZ_C12_addr_step() {
	w := zzWorldShape(zz.Choose(3), false)
	cells := make([]*int64, len(w.real))
	for i := range w.real {
		// each scope may bind "a" to an addressable cell of the harness
		if zz.Choose(2) == 1 {
			c := new(int64)
			*c = zz.Int64()
			cells[i] = c
			if w.real[i].values == nil {
				w.real[i].values = map[string]reflect.Value{}
				w.model[i].vals = map[string]zzBinding{}
			}
			w.real[i].values["a"] = reflect.ValueOf(c).Elem()
			w.model[i].vals["a"] = zzBinding{v: *c}
		}
	}
	t := zz.Choose(len(w.real))
	var got reflect.Value
	var err error
	p := zzGuard(func() { got, err = w.real[t].Addr("a") })
	zz.Assert(!p, "C12.no-panic/Addr+cells")
	// nearest binding of "a"
	near := -1
	for s := t; s >= 0; s = w.model[s].parent {
		if _, has := w.model[s].vals["a"]; has {
			near = s
			break
		}
	}
	switch {
	case near < 0:
		zz.Assert(err != nil, "C12.result/Addr-unbound-is-error")
	case cells[near] == nil:
		zz.Assert(err != nil, "C12.result/Addr-of-unaddressable-binding-is-error")
	default:
		zz.Assert(err == nil && got.IsValid() && got.Kind() == reflect.Ptr, "C12.result/Addr")
		if err == nil && got.IsValid() && got.Kind() == reflect.Ptr {
			ptr, ok := got.Interface().(*int64)
			zz.Assert(ok && ptr == cells[near], "C12.value/Addr-is-the-nearest-binding")
		}
	}
	zz.Assert(zzSameState(w), "C12.post-state/Addr")
	zz.Assert(zz.LocksHeld() == 0, "C12.no-lock-left-held/Addr")
}

// ZZ_C12_copy_binding_kinds: a copy is an independent snapshot whatever the
// bindings hold.  The tables store reflect.Values, and a Value made by
// Define(name, nil) or handed to DefineValue from reflect.New(T).Elem() is a
// settable *cell*: a copy that shares such a cell is only independent as long
// as no operation stores through it.  Bindings of three kinds x copy / deep
// copy (taken at the scope or below it) x a later Set / Define / Delete on
// either side, through the scope itself or through a child of it.
func ZZ_C12_copy_binding_kinds() {
	kind := zz.Choose(4)
	v, w := zz.Int64(), zz.Int64()
	root := NewEnv()
	var err error
	switch kind {
	case 0:
		err = root.Define("a", v)
	case 1:
		err = root.Define("a", nil) // the nil binding is a fresh addressable interface cell
	case 2:
		cell := reflect.New(reflect.TypeOf(int64(0))).Elem()
		cell.SetInt(v)
		err = root.DefineValue("a", cell)
	case 3:
		var x interface{} = v
		err = root.DefineValue("a", reflect.ValueOf(&x).Elem()) // what a script's `a = v; &a` relies on
	}
	zz.Assert(err == nil, "C12.copy-binding-kinds/define")
	child := root.NewEnv()
	deep := zz.Choose(2) == 1
	fromChild := zz.Choose(2) == 1
	var cp *Env
	switch {
	case deep && fromChild:
		cp = child.DeepCopy().parent
	case deep:
		cp = root.DeepCopy()
	default:
		cp = root.Copy()
	}
	zz.Assert(cp != nil && cp != root, "C12.copy-binding-kinds/copy-is-new-scope")
	if cp == nil {
		return
	}
	read := func(e *Env) (int64, bool, bool) { // value, isNil, found
		x, gerr := e.Get("a")
		if gerr != nil {
			return 0, false, false
		}
		if x == nil {
			return 0, true, true
		}
		i, ok := x.(int64)
		return i, false, ok
	}
	b0, n0, f0 := read(cp)
	o0, on0, of0 := read(root)
	zz.Assert(f0 && of0 && n0 == on0 && (n0 || b0 == o0), "C12.copy-binding-kinds/copy-holds-the-same-binding")
	side := zz.Choose(2) // 0: operate on the original, observe the copy; 1: the reverse
	target, observed := root, cp
	if side == 1 {
		target, observed = cp, root
	}
	via := target
	if zz.Choose(2) == 1 {
		via = target.NewEnv() // Set from a descendant scope reaches the nearest binding
	}
	op := zz.Choose(5)
	id := []string{"plain", "nil-cell", "int64-cell", "interface-cell"}[kind] + "/" + []string{"copy", "deepcopy"}[zz.Ite(deep, 1, 0)] + "/" +
		[]string{"set", "set-nil", "define", "delete", "store-through-addr"}[op] + "/" + []string{"on-original", "on-copy"}[side]
	switch op {
	case 0:
		err = via.Set("a", w)
		zz.Assert(err == nil, "C12.copy-binding-kinds/set/"+id)
	case 1:
		err = via.Set("a", nil)
		zz.Assert(err == nil, "C12.copy-binding-kinds/set/"+id)
	case 2:
		err = target.Define("a", w)
	case 3:
		target.Delete("a")
	case 4:
		// what `p = &a; *p = w` does: a store through the pointer Addr hands out
		pv, aerr := via.Addr("a")
		if aerr != nil {
			return // (a binding that is not a cell has no address: nothing to store through)
		}
		if pv.Kind() != reflect.Ptr || pv.IsNil() || !pv.Elem().CanSet() {
			return
		}
		if pv.Elem().Kind() == reflect.Interface || pv.Elem().Kind() == reflect.Int64 {
			pv.Elem().Set(reflect.ValueOf(w))
		} else {
			return
		}
	}
	b1, n1, f1 := read(observed)
	zz.Assert(f1 && n1 == n0 && (n1 || b1 == b0), "C12.copy-independent/binding-kinds/"+id)
	// and the operation did reach its own side
	t1, tn1, tf1 := read(target)
	switch op {
	case 0, 2:
		zz.Assert(tf1 && !tn1 && t1 == w, "C12.copy-binding-kinds/operation-took-effect/"+id)
	case 1:
		zz.Assert(tf1 && tn1, "C12.copy-binding-kinds/operation-took-effect/"+id)
	case 3:
		zz.Assert(!tf1, "C12.copy-binding-kinds/operation-took-effect/"+id)
	case 4:
		zz.Assert(tf1 && !tn1 && t1 == w, "C12.copy-binding-kinds/operation-took-effect/"+id)
	}
}

// ZZ_C12_invalid_requests: a request that cannot be honoured returns an error and
// leaves every scope unchanged: binding a name to a reflect.Value that could not
// be read back (the zero Value, a value reached through an unexported field),
// dotted names, unknown names.
func ZZ_C12_invalid_requests() {
	v := zz.Int64()
	e := NewEnv()
	e.Define("a", v)
	type hidden struct{ n int64 }
	bad := []reflect.Value{{}, reflect.ValueOf(hidden{3}).Field(0)}[zz.Choose(2)]
	var err error
	p := false
	op := zz.Choose(4)
	p = zzGuard(func() {
		switch op {
		case 0:
			err = e.DefineValue("z", bad)
		case 1:
			err = e.SetValue("a", bad)
		case 2:
			err = e.NewEnv().SetValue("a", bad)
		case 3:
			err = e.DefineValue("a", bad)
		}
	})
	id := []string{"DefineValue", "SetValue", "SetValue-from-child", "DefineValue-over-existing"}[op]
	zz.Assert(!p, "C12.invalid-request/no-panic/"+id)
	zz.Assert(err != nil, "C12.invalid-request/is-an-error/"+id)
	// every binding can still be read, and reads what it held
	var x interface{}
	var gerr error
	p2 := zzGuard(func() { x, gerr = e.Get("a") })
	xi, ok := x.(int64)
	zz.Assert(!p2 && gerr == nil && ok && xi == v, "C12.invalid-request/leaves-scopes-unchanged/"+id)
	p3 := zzGuard(func() { _, gerr = e.Get("z") })
	zz.Assert(!p3 && gerr != nil, "C12.invalid-request/leaves-scopes-unchanged/"+id)
}

// ZZ_C12_copy_tables_independent: after Copy / DeepCopy neither side sees what
// the other defines, re-defines or deletes later - for both tables, for names
// that existed when the copy was taken and for new ones, with the tables of
// the source empty, nil or holding entries at that moment.
func ZZ_C12_copy_tables_independent() {
	v, w := zz.Int64(), zz.Int64()
	src := NewEnv()
	pre := zz.Choose(3) // what the source holds when the copy is taken: nothing, a value and a type, two of each
	if pre >= 1 {
		src.Define("a", v)
		src.DefineType("T", int64(0))
	}
	if pre == 2 {
		src.Define("b", v)
		src.DefineType("U", "")
	}
	sc := src.NewEnv()
	if pre >= 1 {
		sc.DefineType("S", int64(0))
		sc.Define("s", v)
	}
	var cp *Env
	form := zz.Choose(3)
	switch form {
	case 0:
		cp = src.Copy()
	case 1:
		cp = src.DeepCopy()
	case 2:
		cp = sc.DeepCopy().parent // the copy of src made on the way up
	}
	side := zz.Choose(2)
	target, other := src, cp
	if side == 1 {
		target, other = cp, src
	}
	op := zz.Choose(6)
	id := []string{"empty", "one", "two"}[pre] + "/" + []string{"copy", "deepcopy", "deepcopy-of-child"}[form] + "/" + []string{"on-source", "on-copy"}[side] + "/" +
		[]string{"define-new-type", "redefine-type", "define-new-value", "redefine-value", "delete-value", "define-type-from-child"}[op]
	typeOf := func(e *Env, name string) (reflect.Type, bool) {
		t, err := e.Type(name)
		return t, err == nil
	}
	tBefore, tOK := typeOf(other, "T")
	nBefore, nOK := typeOf(other, "N")
	aBefore, aErr := other.Get("a")
	zBefore, zErr := other.Get("z")
	switch op {
	case 0:
		zz.Assert(target.DefineType("N", float64(0)) == nil, "C12.copy-tables/operation/"+id)
	case 1:
		zz.Assert(target.DefineType("T", "") == nil, "C12.copy-tables/operation/"+id)
	case 2:
		zz.Assert(target.Define("z", w) == nil, "C12.copy-tables/operation/"+id)
	case 3:
		zz.Assert(target.Define("a", w) == nil, "C12.copy-tables/operation/"+id)
	case 4:
		target.Delete("a")
	case 5:
		zz.Assert(target.NewEnv().DefineGlobalType("N", float64(0)) == nil, "C12.copy-tables/operation/"+id)
	}
	tAfter, tOK2 := typeOf(other, "T")
	nAfter, nOK2 := typeOf(other, "N")
	aAfter, aErr2 := other.Get("a")
	zAfter, zErr2 := other.Get("z")
	zz.Assert(tOK == tOK2 && tBefore == tAfter && nOK == nOK2 && nBefore == nAfter, "C12.copy-independent/types/"+id)
	sameA := (aErr == nil) == (aErr2 == nil)
	if sameA && aErr == nil {
		x, ok1 := aBefore.(int64)
		y, ok2 := aAfter.(int64)
		sameA = ok1 && ok2 && x == y
	}
	sameZ := (zErr == nil) == (zErr2 == nil)
	_, _ = zBefore, zAfter
	zz.Assert(sameA && sameZ, "C12.copy-independent/values/"+id)
}
