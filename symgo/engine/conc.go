package engine

// Goroutines, channels, select and sync primitives: cooperative coroutines.
// Exactly one target goroutine runs at any time; a switch can happen only at
// a blocking operation, at a scheduling point (when schedule exploration is
// on) or when a goroutine ends.

import (
	"fmt"
	"go/token"
	"go/types"

	"golang.org/x/tools/go/ssa"
)

type gor struct {
	id      int
	wake    chan struct{}
	done    bool
	started bool
	blocked bool
	ready   func() bool
	what    string
}

type channel struct {
	cap     int
	elem    types.Type
	buf     []value
	closed  bool
	pending []*sendItem // blocked senders on an unbuffered channel (or full buffer)
	recvWaiters int
	id      int
}

type sendItem struct {
	v     value
	taken bool
}

var chanCounter int

func newChannel(capacity int, elem types.Type) *channel {
	chanCounter++
	return &channel{cap: capacity, elem: elem, id: chanCounter}
}

// ---------------------------------------------------------------- scheduler

func (e *Engine) spawn(fr *frame, pos token.Pos, fn value, args []value) {
	g := &gor{id: len(e.gors), wake: make(chan struct{}, 1)}
	e.gors = append(e.gors, g)
	name := "func"
	switch f := fn.(type) {
	case *ssa.Function:
		name = f.String()
	case *closure:
		if f.Fn != nil {
			name = f.Fn.String()
		}
	}
	e.ledger = append(e.ledger, fmt.Sprintf("go#%d %s", g.id, name))
	go func() {
		<-g.wake
		g.started = true
		defer func() {
			p := recover()
			g.done = true
			if p != nil {
				switch p := p.(type) {
				case pathAbort:
					if p.status != "killed" {
						e.gorAbort = &p
					}
				case unsupported:
					e.gorUnsupported = &p
				case targetPanic:
					e.goroutineCrash(g, "panic: "+e.describePanicSafe(p.v))
				case rtPanic:
					e.goroutineCrash(g, "panic: "+p.msg)
				case exitPanic:
				default:
					e.gorUnsupported = &unsupported{fmt.Sprintf("engine panic in goroutine %T: %v", p, p)}
				}
			}
			// hand the baton on
			e.handoff(g)
		}()
		if e.abortAll {
			return
		}
		e.call(nil, pos, fn, args)
	}()
	e.schedPoint("go")
}

func (e *Engine) describePanicSafe(v value) (s string) {
	defer func() {
		if r := recover(); r != nil {
			s = toString(v)
		}
	}()
	return e.describePanic(v)
}

func (e *Engine) goroutineCrash(g *gor, msg string) {
	e.ledger = append(e.ledger, fmt.Sprintf("go#%d crashed: %s", g.id, msg))
	e.gorCrashes = append(e.gorCrashes, fmt.Sprintf("goroutine %d: %s", g.id, msg))
}

func (g *gor) runnable() bool {
	if g.done {
		return false
	}
	if g.blocked {
		return g.ready != nil && g.ready()
	}
	return true
}

// pickNext returns a runnable goroutine other than cur (nil if none).
func (e *Engine) pickNext(cur *gor) *gor {
	var cands []*gor
	for _, g := range e.gors {
		if g != cur && g.runnable() {
			cands = append(cands, g)
		}
	}
	if len(cands) == 0 {
		return nil
	}
	if e.schedExplore && len(cands) > 1 {
		return cands[e.Choose(len(cands), "sched")]
	}
	return cands[0]
}

// switchTo transfers the baton from cur to next and parks cur.
func (e *Engine) switchTo(cur, next *gor) {
	e.cur = next
	next.blocked = false
	next.wake <- struct{}{}
	<-cur.wake
	e.cur = cur
	if e.abortAll && cur.id != 0 {
		panic(pathAbort{"killed", ""})
	}
}

// handoff is called by a goroutine that has ended.
func (e *Engine) handoff(g *gor) {
	if e.abortAll {
		e.killAck <- struct{}{}
		return
	}
	next := e.pickNext(g)
	if next == nil {
		// nobody runnable: give control back to main if it is draining or
		// blocked (deadlock is detected there)
		next = e.gors[0]
	}
	e.cur = next
	next.blocked = false
	next.wake <- struct{}{}
}

// block parks the current goroutine until ready() holds.
func (e *Engine) block(what string, ready func() bool) {
	cur := e.cur
	for !ready() {
		cur.blocked = true
		cur.ready = ready
		cur.what = what
		next := e.pickNext(cur)
		if next == nil {
			if cur.id != 0 && e.draining {
				// return control to the drain loop on main
				e.switchTo(cur, e.gors[0])
				continue
			}
			if cur.id != 0 && e.gors[0].blocked {
				// main is blocked too (and not ready): deadlock
				e.deadlock = true
				e.switchTo(cur, e.gors[0])
				continue
			}
			if cur.id != 0 {
				e.switchTo(cur, e.gors[0])
				continue
			}
			panic(pathAbort{"deadlock", "all goroutines are asleep: main blocked on " + what + e.blockedSummary()})
		}
		e.switchTo(cur, next)
		if cur.id == 0 && e.deadlock {
			panic(pathAbort{"deadlock", "all goroutines are asleep: main blocked on " + what + e.blockedSummary()})
		}
	}
	cur.blocked = false
	cur.ready = nil
}

func (e *Engine) blockedSummary() string {
	s := ""
	for _, g := range e.gors {
		if !g.done && g.blocked {
			s += fmt.Sprintf("; go#%d on %s", g.id, g.what)
		}
	}
	return s
}

// schedPoint lets another goroutine run when schedule exploration is on.
func (e *Engine) schedPoint(what string) {
	if !e.schedExplore {
		return
	}
	if e.schedOnlyChan {
		switch what {
		case "send", "recv", "close", "select-recv", "select-send", "go":
		default:
			return
		}
	}
	cur := e.cur
	var cands []*gor
	for _, g := range e.gors {
		if g.runnable() {
			cands = append(cands, g)
		}
	}
	if len(cands) <= 1 {
		return
	}
	if e.switches >= e.MaxSwitches {
		return
	}
	// order: current first so that choice 0 = no switch
	ordered := []*gor{cur}
	for _, g := range cands {
		if g != cur {
			ordered = append(ordered, g)
		}
	}
	c := e.Choose(len(ordered), "sched")
	if c == 0 {
		return
	}
	e.switches++
	e.switchTo(cur, ordered[c])
}

// drain lets the other goroutines run after the harness function returned.
func (e *Engine) drain() {
	e.draining = true
	main := e.gors[0]
	for {
		next := e.pickNext(main)
		if next == nil {
			break
		}
		e.switchTo(main, next)
		if e.gorAbort != nil {
			p := *e.gorAbort
			e.gorAbort = nil
			panic(p)
		}
		if e.gorUnsupported != nil {
			p := *e.gorUnsupported
			e.gorUnsupported = nil
			panic(p)
		}
	}
	e.draining = false
	if e.gorAbort != nil {
		p := *e.gorAbort
		e.gorAbort = nil
		panic(p)
	}
	if e.gorUnsupported != nil {
		p := *e.gorUnsupported
		e.gorUnsupported = nil
		panic(p)
	}
}

// killAll terminates goroutines that are still parked at the end of a path.
func (e *Engine) killAll() {
	e.abortAll = true
	e.killAck = make(chan struct{}, len(e.gors))
	for _, g := range e.gors[1:] {
		if g.done {
			continue
		}
		g.wake <- struct{}{}
		<-e.killAck
	}
	e.abortAll = false
}

// ---------------------------------------------------------------- channels

func (e *Engine) chanSend(ch *channel, v value) {
	if ch == nil {
		e.block("send on nil channel", func() bool { return false })
	}
	if ch.closed {
		panic(targetPanic{iface{e.P.rtErrorPlain(), "send on closed channel"}})
	}
	v = copyVal(ch.elem, v)
	if ch.cap > 0 {
		e.block("chan send", func() bool { return len(ch.buf) < ch.cap || ch.closed })
		if ch.closed {
			panic(targetPanic{iface{e.P.rtErrorPlain(), "send on closed channel"}})
		}
		ch.buf = append(ch.buf, v)
		e.schedPoint("send")
		return
	}
	it := &sendItem{v: v}
	ch.pending = append(ch.pending, it)
	e.block("chan send", func() bool { return it.taken || ch.closed })
	if !it.taken {
		// closed while blocked
		for i, p := range ch.pending {
			if p == it {
				ch.pending = append(ch.pending[:i], ch.pending[i+1:]...)
				break
			}
		}
		panic(targetPanic{iface{e.P.rtErrorPlain(), "send on closed channel"}})
	}
	e.schedPoint("send")
}

func (ch *channel) recvReady() bool {
	return len(ch.buf) > 0 || len(ch.pending) > 0 || ch.closed
}

// take removes the next value; caller checked recvReady.
func (ch *channel) take() (value, bool) {
	if len(ch.buf) > 0 {
		v := ch.buf[0]
		ch.buf = ch.buf[1:]
		// a sender blocked on a full buffer is woken through its ready()
		return v, true
	}
	if len(ch.pending) > 0 {
		it := ch.pending[0]
		ch.pending = ch.pending[1:]
		it.taken = true
		return it.v, true
	}
	return nil, false // closed
}

func (e *Engine) chanRecv(ch *channel) (value, bool) {
	if ch == nil {
		e.block("receive from nil channel", func() bool { return false })
	}
	ch.recvWaiters++
	e.block("chan receive", ch.recvReady)
	ch.recvWaiters--
	v, ok := ch.take()
	e.schedPoint("recv")
	return v, ok
}

func (e *Engine) chanClose(ch *channel) {
	if ch == nil {
		panic(targetPanic{iface{e.P.rtErrorPlain(), "close of nil channel"}})
	}
	if ch.closed {
		panic(targetPanic{iface{e.P.rtErrorPlain(), "close of closed channel"}})
	}
	ch.closed = true
	e.schedPoint("close")
}

// sendReady: can a select-send proceed without blocking?
func (ch *channel) sendReady() bool {
	if ch.closed {
		return true // proceeds to panic
	}
	if ch.cap > 0 {
		return len(ch.buf) < ch.cap
	}
	untaken := 0
	for _, p := range ch.pending {
		if !p.taken {
			untaken++
		}
	}
	return ch.recvWaiters > untaken
}

type selCase struct {
	dir  types.ChanDir
	ch   *channel
	send value
}

// doSelect runs a select over cases; hasDefault makes it non-blocking.
// Returns (chosen index or -1, received value, recvOK).
func (e *Engine) doSelect(cases []selCase, hasDefault bool) (int, value, bool) {
	readyIdx := func() []int {
		var r []int
		for i, c := range cases {
			if c.ch == nil {
				continue
			}
			if c.dir == types.RecvOnly {
				if c.ch.recvReady() {
					r = append(r, i)
				}
			} else if c.ch.sendReady() {
				r = append(r, i)
			}
		}
		return r
	}
	r := readyIdx()
	if len(r) == 0 {
		if hasDefault {
			return -1, nil, false
		}
		for _, c := range cases {
			if c.ch != nil && c.dir == types.RecvOnly {
				c.ch.recvWaiters++
			}
		}
		e.block("select", func() bool { return len(readyIdx()) > 0 })
		for _, c := range cases {
			if c.ch != nil && c.dir == types.RecvOnly {
				c.ch.recvWaiters--
			}
		}
		r = readyIdx()
	}
	pick := r[0]
	if len(r) > 1 {
		e.noteNondet("select-multiple-ready")
		if e.selectExplore {
			pick = r[e.Choose(len(r), "select")]
		}
	}
	c := cases[pick]
	if c.dir == types.RecvOnly {
		v, ok := c.ch.take()
		e.schedPoint("select-recv")
		return pick, v, ok
	}
	if c.ch.closed {
		panic(targetPanic{iface{e.P.rtErrorPlain(), "send on closed channel"}})
	}
	v := copyVal(c.ch.elem, c.send)
	if c.ch.cap > 0 {
		c.ch.buf = append(c.ch.buf, v)
	} else {
		c.ch.pending = append(c.ch.pending, &sendItem{v: v})
	}
	e.schedPoint("select-send")
	return pick, nil, false
}

func (e *Engine) selectInstr(fr *frame, instr *ssa.Select) value {
	var cases []selCase
	for _, st := range instr.States {
		c := selCase{dir: st.Dir}
		c.ch, _ = fr.get(st.Chan).(*channel)
		if st.Send != nil {
			c.send = fr.get(st.Send)
		}
		cases = append(cases, c)
	}
	chosen, recv, recvOk := e.doSelect(cases, !instr.Blocking)
	r := tuple{chosen, recvOk}
	for i, st := range instr.States {
		if st.Dir == types.RecvOnly {
			var v value
			if i == chosen && recvOk {
				v = recv
			} else {
				v = zero(st.Chan.Type().Underlying().(*types.Chan).Elem())
			}
			r = append(r, v)
		}
	}
	return r
}

// ---------------------------------------------------------------- sync

type mutexState struct {
	writer  *gor
	readers map[*gor]int
	name    string
}

func (e *Engine) mutex(p *value) *mutexState {
	m := e.mutexes[p]
	if m == nil {
		m = &mutexState{readers: map[*gor]int{}}
		e.mutexes[p] = m
	}
	return m
}

func (m *mutexState) nreaders() int {
	n := 0
	for _, c := range m.readers {
		n += c
	}
	return n
}

func (e *Engine) mutexLock(p *value) {
	m := e.mutex(p)
	cur := e.cur
	e.schedPoint("Lock")
	if m.writer == cur || m.readers[cur] > 0 {
		e.event("self-deadlock", "goroutine re-acquires a mutex it holds")
	}
	e.block("Lock", func() bool { return m.writer == nil && m.nreaders() == 0 })
	m.writer = cur
}

func (e *Engine) mutexUnlock(p *value) {
	m := e.mutex(p)
	if m.writer == nil {
		panic(targetPanic{iface{types.Typ[types.String], "sync: unlock of unlocked mutex"}})
	}
	m.writer = nil
	e.schedPoint("Unlock")
}

func (e *Engine) mutexRLock(p *value) {
	m := e.mutex(p)
	cur := e.cur
	e.schedPoint("RLock")
	if m.writer == cur {
		e.event("self-deadlock", "goroutine read-locks a mutex it holds for writing")
	}
	if m.readers[cur] > 0 {
		// sync.RWMutex: "recursive read locking is prohibited" - the second RLock
		// blocks for ever once a writer has queued up behind the first
		e.event("self-deadlock", "goroutine read-locks a mutex it already holds for reading")
	}
	e.block("RLock", func() bool { return m.writer == nil })
	m.readers[cur]++
}

func (e *Engine) mutexRUnlock(p *value) {
	m := e.mutex(p)
	if m.nreaders() == 0 {
		panic(targetPanic{iface{types.Typ[types.String], "sync: RUnlock of unlocked RWMutex"}})
	}
	cur := e.cur
	if m.readers[cur] > 0 {
		m.readers[cur]--
	} else {
		for g, c := range m.readers {
			if c > 0 {
				m.readers[g]--
				break
			}
		}
	}
	e.schedPoint("RUnlock")
}

func (e *Engine) event(kind, msg string) {
	e.events = append(e.events, kind+": "+msg)
}

func (e *Engine) noteNondet(kind string) {
	if e.nondetUsed == nil {
		e.nondetUsed = map[string]int{}
	}
	e.nondetUsed[kind]++
}
