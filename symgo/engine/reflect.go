package engine

// Interpreter-level model of package reflect.
//
// reflect.Value is the 3-slot structure {rtype{T}, payload, rvflag}; for an
// addressable Value the flag carries the cell it aliases and the payload
// slot is unused.  reflect.Type is iface{*reflect.rtype, rtype{T}} with T a
// go/types type.  Every entry point checks the documented precondition of
// the real function and raises a target panic otherwise.

import (
	"fmt"
	"go/token"
	"go/types"
	"reflect"
	"strings"

	"golang.org/x/tools/go/ssa"
)

type rvflag struct {
	addr *value // non-nil: addressable, aliases this cell
	ro   bool   // obtained through an unexported field
	// embedOnly: ro only because the value is an unexported *embedded* field
	// (reflect's flagEmbedRO): not inherited by the fields of that struct
	embedOnly bool
}

func isReflectValueType(t types.Type) bool {
	n, ok := types.Unalias(t).(*types.Named)
	if !ok {
		return false
	}
	o := n.Obj()
	return o.Name() == "Value" && o.Pkg() != nil && o.Pkg().Path() == "reflect"
}

func rvIsValid(v structure) bool {
	_, ok := v[0].(rtype)
	return ok
}

func rvType(v structure) types.Type {
	return v[0].(rtype).t
}

func rvFlag(v structure) rvflag {
	f, _ := v[2].(rvflag)
	return f
}

// rvLoad returns the current value held by the reflect.Value.
func (e *Engine) rvLoad(v structure) value {
	f := rvFlag(v)
	if f.addr != nil {
		return load(rvType(v), f.addr)
	}
	return v[1]
}

func mkRV(t types.Type, payload value) structure {
	return structure{rtype{t}, payload, rvflag{}}
}

func mkRVAddr(t types.Type, addr *value, ro bool) structure {
	return structure{rtype{t}, nil, rvflag{addr: addr, ro: ro}}
}

func (e *Engine) zeroRV() structure {
	return structure{(*value)(nil), nil, uintptr(0)}
}

func (e *Engine) mkType(t types.Type) value {
	if t == nil {
		return iface{}
	}
	return iface{t: e.P.rtypePtr(), v: rtype{t}}
}

func (p *Program) rtypePtr() types.Type {
	return p.rtypePtrT
}

func reflectPanic(format string, args ...interface{}) {
	panic(targetPanic{iface{types.Typ[types.String], fmt.Sprintf(format, args...)}})
}

func valueErr(method string, k reflect.Kind) {
	if k == reflect.Invalid {
		reflectPanic("reflect: call of %s on zero Value", method)
	}
	reflectPanic("reflect: call of %s on %s Value", method, k.String())
}

func reflectKind(t types.Type) reflect.Kind {
	switch t := t.(type) {
	case *types.Named, *types.Alias:
		return reflectKind(t.Underlying())
	case *types.Basic:
		switch t.Kind() {
		case types.Bool:
			return reflect.Bool
		case types.Int:
			return reflect.Int
		case types.Int8:
			return reflect.Int8
		case types.Int16:
			return reflect.Int16
		case types.Int32:
			return reflect.Int32
		case types.Int64:
			return reflect.Int64
		case types.Uint:
			return reflect.Uint
		case types.Uint8:
			return reflect.Uint8
		case types.Uint16:
			return reflect.Uint16
		case types.Uint32:
			return reflect.Uint32
		case types.Uint64:
			return reflect.Uint64
		case types.Uintptr:
			return reflect.Uintptr
		case types.Float32:
			return reflect.Float32
		case types.Float64:
			return reflect.Float64
		case types.Complex64:
			return reflect.Complex64
		case types.Complex128:
			return reflect.Complex128
		case types.String:
			return reflect.String
		case types.UnsafePointer:
			return reflect.UnsafePointer
		}
	case *types.Array:
		return reflect.Array
	case *types.Chan:
		return reflect.Chan
	case *types.Signature:
		return reflect.Func
	case *types.Interface:
		return reflect.Interface
	case *types.Map:
		return reflect.Map
	case *types.Pointer:
		return reflect.Ptr
	case *types.Slice:
		return reflect.Slice
	case *types.Struct:
		return reflect.Struct
	}
	panic(unsupported{fmt.Sprint("reflectKind: unexpected type: ", t)})
}

func rvKind(v structure) reflect.Kind {
	if !rvIsValid(v) {
		return reflect.Invalid
	}
	return reflectKind(rvType(v))
}

// typeString reproduces reflect.Type.String().
func typeString(t types.Type) string {
	var sb strings.Builder
	writeType(&sb, t)
	return sb.String()
}

func writeType(sb *strings.Builder, t types.Type) {
	switch t := t.(type) {
	case *types.Alias:
		writeType(sb, types.Unalias(t))
	case *types.Named:
		o := t.Obj()
		if o.Pkg() != nil {
			sb.WriteString(o.Pkg().Name())
			sb.WriteString(".")
		}
		sb.WriteString(o.Name())
		if ta := t.TypeArgs(); ta != nil && ta.Len() > 0 {
			sb.WriteString("[")
			for i := 0; i < ta.Len(); i++ {
				if i > 0 {
					sb.WriteString(",")
				}
				writeType(sb, ta.At(i))
			}
			sb.WriteString("]")
		}
	case *types.Basic:
		switch t.Kind() {
		case types.UnsafePointer:
			sb.WriteString("unsafe.Pointer")
		default:
			sb.WriteString(t.Name())
		}
	case *types.Pointer:
		sb.WriteString("*")
		writeType(sb, t.Elem())
	case *types.Slice:
		sb.WriteString("[]")
		writeType(sb, t.Elem())
	case *types.Array:
		fmt.Fprintf(sb, "[%d]", t.Len())
		writeType(sb, t.Elem())
	case *types.Map:
		sb.WriteString("map[")
		writeType(sb, t.Key())
		sb.WriteString("]")
		writeType(sb, t.Elem())
	case *types.Chan:
		switch t.Dir() {
		case types.SendRecv:
			sb.WriteString("chan ")
		case types.SendOnly:
			sb.WriteString("chan<- ")
		case types.RecvOnly:
			sb.WriteString("<-chan ")
		}
		writeType(sb, t.Elem())
	case *types.Interface:
		if t.NumMethods() == 0 {
			sb.WriteString("interface {}")
			return
		}
		sb.WriteString("interface { ")
		for i := 0; i < t.NumMethods(); i++ {
			if i > 0 {
				sb.WriteString("; ")
			}
			m := t.Method(i)
			sb.WriteString(m.Name())
			writeSig(sb, m.Type().(*types.Signature))
		}
		sb.WriteString(" }")
	case *types.Struct:
		if t.NumFields() == 0 {
			sb.WriteString("struct {}")
			return
		}
		sb.WriteString("struct { ")
		for i := 0; i < t.NumFields(); i++ {
			if i > 0 {
				sb.WriteString("; ")
			}
			f := t.Field(i)
			if !f.Embedded() {
				sb.WriteString(f.Name())
				sb.WriteString(" ")
			}
			writeType(sb, f.Type())
			if tag := t.Tag(i); tag != "" {
				fmt.Fprintf(sb, " %q", tag)
			}
		}
		sb.WriteString(" }")
	case *types.Signature:
		sb.WriteString("func")
		writeSig(sb, t)
	case *types.Tuple:
		sb.WriteString("(")
		for i := 0; i < t.Len(); i++ {
			if i > 0 {
				sb.WriteString(", ")
			}
			writeType(sb, t.At(i).Type())
		}
		sb.WriteString(")")
	default:
		sb.WriteString(t.String())
	}
}

func writeSig(sb *strings.Builder, s *types.Signature) {
	sb.WriteString("(")
	for i := 0; i < s.Params().Len(); i++ {
		if i > 0 {
			sb.WriteString(", ")
		}
		pt := s.Params().At(i).Type()
		if s.Variadic() && i == s.Params().Len()-1 {
			sb.WriteString("...")
			writeType(sb, pt.(*types.Slice).Elem())
		} else {
			writeType(sb, pt)
		}
	}
	sb.WriteString(")")
	switch s.Results().Len() {
	case 0:
	case 1:
		sb.WriteString(" ")
		writeType(sb, s.Results().At(0).Type())
	default:
		sb.WriteString(" ")
		writeType(sb, s.Results())
	}
}

// assignable reports whether a value of type from can be assigned to to.
func assignable(from, to types.Type) bool {
	if types.Identical(from, to) {
		return true
	}
	return types.AssignableTo(from, to)
}

// boxFor returns the representation of payload (of type from) when stored in
// a location of type to (interface boxing).
func boxFor(from, to types.Type, payload value) value {
	if _, ok := to.Underlying().(*types.Interface); ok {
		if _, isI := from.Underlying().(*types.Interface); isI {
			return payload
		}
		return iface{t: from, v: copyVal(from, payload)}
	}
	return copyVal(to, payload)
}

func isNilable(k reflect.Kind) bool {
	switch k {
	case reflect.Chan, reflect.Func, reflect.Interface, reflect.Map, reflect.Ptr, reflect.Slice, reflect.UnsafePointer:
		return true
	}
	return false
}

func payloadIsNil(p value) bool {
	switch p := p.(type) {
	case *value:
		return p == nil
	case []value:
		return p == nil
	case *omap:
		return p == nil
	case *channel:
		return p == nil
	case *ssa.Function:
		return p == nil
	case *closure:
		return p == nil
	case iface:
		return p.t == nil
	case nil:
		return true
	}
	return false
}

func exported(name string) bool {
	return token.IsExported(name)
}

func argRV(v value) structure { return v.(structure) }

func (e *Engine) mustValid(v structure, method string) {
	if !rvIsValid(v) {
		valueErr(method, reflect.Invalid)
	}
}

func (e *Engine) mustKind(v structure, method string, kinds ...reflect.Kind) reflect.Kind {
	k := rvKind(v)
	for _, x := range kinds {
		if k == x {
			return k
		}
	}
	valueErr(method, k)
	return k
}

func (e *Engine) mustSettable(v structure, method string) rvflag {
	e.mustValid(v, method)
	f := rvFlag(v)
	if f.ro {
		reflectPanic("reflect: %s using value obtained using unexported field", method)
	}
	if f.addr == nil {
		reflectPanic("reflect: %s using unaddressable value", method)
	}
	return f
}

func (e *Engine) mustExported(v structure, method string) {
	e.mustValid(v, method)
	if rvFlag(v).ro {
		reflectPanic("reflect: %s using value obtained using unexported field", method)
	}
}

// rvInterface implements Value.Interface().
func (e *Engine) rvInterface(v structure) value {
	e.mustValid(v, "reflect.Value.Interface")
	if rvFlag(v).ro {
		reflectPanic("reflect.Value.Interface: cannot return value obtained from unexported field or method")
	}
	t := rvType(v)
	p := e.rvLoad(v)
	if _, ok := t.Underlying().(*types.Interface); ok {
		i := p.(iface)
		return i
	}
	return iface{t: t, v: copyVal(t, p)}
}

// valueOf implements reflect.ValueOf.
func (e *Engine) valueOf(x iface) structure {
	if x.t == nil {
		return e.zeroRV()
	}
	return mkRV(x.t, x.v)
}

func (e *Engine) rvElem(v structure) structure {
	k := e.mustKind(v, "reflect.Value.Elem", reflect.Interface, reflect.Ptr)
	p := e.rvLoad(v)
	if k == reflect.Interface {
		i := p.(iface)
		if i.t == nil {
			return e.zeroRV()
		}
		r := mkRV(i.t, i.v)
		if rvFlag(v).ro {
			r[2] = rvflag{ro: true}
		}
		return r
	}
	ptr := p.(*value)
	if ptr == nil {
		return e.zeroRV()
	}
	return mkRVAddr(deref(rvType(v)), ptr, rvFlag(v).ro)
}

func (e *Engine) rvLen(v structure) int {
	k := e.mustKind(v, "reflect.Value.Len", reflect.Array, reflect.Chan, reflect.Map, reflect.Slice, reflect.String)
	p := e.rvLoad(v)
	switch k {
	case reflect.Array:
		return len(p.(array))
	case reflect.Chan:
		c := p.(*channel)
		if c == nil {
			return 0
		}
		return len(c.buf)
	case reflect.Map:
		m := p.(*omap)
		if m == nil {
			return 0
		}
		return m.len()
	case reflect.Slice:
		return len(p.([]value))
	}
	return len(strBytes(p))
}

func (e *Engine) rvCap(v structure) int {
	k := e.mustKind(v, "reflect.Value.Cap", reflect.Array, reflect.Chan, reflect.Slice)
	p := e.rvLoad(v)
	switch k {
	case reflect.Array:
		return len(p.(array))
	case reflect.Chan:
		c := p.(*channel)
		if c == nil {
			return 0
		}
		return c.cap
	}
	return cap(p.([]value))
}

func (e *Engine) rvIndex(v structure, idx value) structure {
	k := e.mustKind(v, "reflect.Value.Index", reflect.Array, reflect.Slice, reflect.String)
	t := rvType(v)
	f := rvFlag(v)
	oob := func() { reflectPanic("reflect: %s index out of range", strings.ToLower(k.String())) }
	checkIdx := func(n int) int {
		defer func() {
			if p := recover(); p != nil {
				if _, ok := p.(rtPanic); ok {
					oob()
				}
				panic(p)
			}
		}()
		return e.index(idx, n)
	}
	switch k {
	case reflect.Slice:
		s := e.rvLoad(v).([]value)
		i := checkIdx(len(s))
		return mkRVAddr(t.Underlying().(*types.Slice).Elem(), &s[i], f.ro)
	case reflect.Array:
		et := t.Underlying().(*types.Array).Elem()
		if f.addr != nil {
			a := (*f.addr).(array)
			i := checkIdx(len(a))
			return mkRVAddr(et, &a[i], f.ro)
		}
		a := v[1].(array)
		i := checkIdx(len(a))
		r := mkRV(et, copyVal(et, a[i]))
		r[2] = rvflag{ro: f.ro}
		return r
	}
	b := strBytes(e.rvLoad(v))
	if _, ok := idx.(sv); ok {
		return mkRV(types.Typ[types.Uint8], func() value {
			defer func() {
				if p := recover(); p != nil {
					if _, ok := p.(rtPanic); ok {
						oob()
					}
					panic(p)
				}
			}()
			return e.indexLoad(b, idx)
		}())
	}
	i := checkIdx(len(b))
	return mkRV(types.Typ[types.Uint8], b[i])
}

func (e *Engine) rvSlice(v structure, lo, hi, max value, three bool) structure {
	name := "reflect.Value.Slice"
	if three {
		name = "reflect.Value.Slice3"
	}
	k := rvKind(v)
	t := rvType(v)
	i := e.concreteInt(lo, 0, 1<<40)
	j := e.concreteInt(hi, 0, 1<<40)
	switch k {
	case reflect.String:
		if three {
			valueErr(name, k)
		}
		b := strBytes(e.rvLoad(v))
		if i < 0 || j < i || j > int64(len(b)) {
			reflectPanic("reflect.Value.Slice: string slice index out of bounds")
		}
		return mkRV(t, normStr(b[i:j]))
	case reflect.Slice:
		s := e.rvLoad(v).([]value)
		c := int64(cap(s))
		m := c
		if three {
			m = e.concreteInt(max, 0, 1<<40)
			if i < 0 || j < i || m < j || m > c {
				reflectPanic("reflect.Value.Slice3: slice index out of bounds")
			}
		} else if i < 0 || j < i || j > c {
			reflectPanic("reflect.Value.Slice: slice index out of bounds")
		}
		if c == 0 {
			if s == nil {
				return mkRV(t, []value(nil))
			}
			return mkRV(t, s[0:0:0])
		}
		return mkRV(t, s[i:j:m])
	case reflect.Array:
		f := rvFlag(v)
		if f.addr == nil {
			reflectPanic("%s: slice of unaddressable array", name)
		}
		a := []value((*f.addr).(array))
		c := int64(len(a))
		m := c
		if three {
			m = e.concreteInt(max, 0, 1<<40)
		}
		if i < 0 || j < i || m < j || m > c {
			reflectPanic("%s: slice index out of bounds", name)
		}
		return mkRV(types.NewSlice(t.Underlying().(*types.Array).Elem()), a[i:j:m])
	}
	valueErr(name, k)
	return nil
}

func (e *Engine) rvSet(v, x structure) {
	f := e.mustSettable(v, "reflect.Value.Set")
	e.mustExported(x, "reflect.Value.Set")
	t, xt := rvType(v), rvType(x)
	if !assignable(xt, t) {
		reflectPanic("reflect.Set: value of type %s is not assignable to type %s", typeString(xt), typeString(t))
	}
	if e.lockMon != nil {
		e.lockMon.access(e, nil, f.addr, true)
	}
	e.store(t, f.addr, boxFor(xt, t, e.rvLoad(x)))
}

// mapKeyFor converts key Value k for use with map type mt.
func (e *Engine) mapKeyFor(method string, mt *types.Map, k structure) value {
	e.mustExported(k, method)
	kt := rvType(k)
	if !assignable(kt, mt.Key()) {
		reflectPanic("%s: value of type %s is not assignable to type %s", method, typeString(kt), typeString(mt.Key()))
	}
	key := boxFor(kt, mt.Key(), e.rvLoad(k))
	if ki, ok := key.(iface); ok {
		checkHashable(ki)
	}
	return key
}

func (e *Engine) rvMapIndex(v, k structure) structure {
	e.mustKind(v, "reflect.Value.MapIndex", reflect.Map)
	mt := rvType(v).Underlying().(*types.Map)
	key := e.mapKeyFor("reflect.Value.MapIndex", mt, k)
	m := e.rvLoad(v).(*omap)
	if m == nil {
		return e.zeroRV()
	}
	if e.lockMon != nil {
		e.lockMon.accessObj(e, m, false)
	}
	en := m.find(e, key)
	if en == nil {
		return e.zeroRV()
	}
	r := mkRV(mt.Elem(), copyVal(mt.Elem(), en.v))
	if rvFlag(v).ro || rvFlag(k).ro {
		r[2] = rvflag{ro: true}
	}
	return r
}

func (e *Engine) rvSetMapIndex(v, k, x structure) {
	e.mustKind(v, "reflect.Value.SetMapIndex", reflect.Map)
	e.mustExported(v, "reflect.Value.SetMapIndex")
	mt := rvType(v).Underlying().(*types.Map)
	key := e.mapKeyFor("reflect.Value.SetMapIndex", mt, k)
	m := e.rvLoad(v).(*omap)
	if !rvIsValid(x) {
		if m != nil {
			if e.frozen != nil {
				e.checkFrozenObj(m)
			}
			m.delete(e, key)
		}
		return
	}
	e.mustExported(x, "reflect.Value.SetMapIndex")
	xt := rvType(x)
	if !assignable(xt, mt.Elem()) {
		reflectPanic("reflect.Value.SetMapIndex: value of type %s is not assignable to type %s", typeString(xt), typeString(mt.Elem()))
	}
	if m == nil {
		panic(targetPanic{iface{e.P.rtPlain, "assignment to entry in nil map"}})
	}
	if e.frozen != nil {
		e.checkFrozenObj(m)
	}
	m.insert(e, key, boxFor(xt, mt.Elem(), e.rvLoad(x)))
}

func (e *Engine) rvMapKeys(v structure) []value {
	e.mustKind(v, "reflect.Value.MapKeys", reflect.Map)
	mt := rvType(v).Underlying().(*types.Map)
	m := e.rvLoad(v).(*omap)
	out := []value{}
	if m != nil {
		e.noteNondet("map-iteration")
		ents := m.live()
		if e.permuteMaps && len(ents) > 1 && len(ents) <= 3 {
			ents = e.permute(ents)
		}
		for _, en := range ents {
			out = append(out, mkRV(mt.Key(), copyVal(mt.Key(), en.k)))
		}
	}
	return out
}

func (e *Engine) permute(ents []*mentry) []*mentry {
	out := append([]*mentry{}, ents...)
	for i := 0; i < len(out)-1; i++ {
		j := i + e.Choose(len(out)-i, "map-order")
		out[i], out[j] = out[j], out[i]
	}
	return out
}

func (e *Engine) rvField(v structure, i int) structure {
	e.mustKind(v, "reflect.Value.Field", reflect.Struct)
	st := rvType(v).Underlying().(*types.Struct)
	if i < 0 || i >= st.NumFields() {
		reflectPanic("reflect: Field index out of range")
	}
	fld := st.Field(i)
	f := rvFlag(v)
	sticky := f.ro && !f.embedOnly
	ro, embedOnly := sticky, false
	if !fld.Exported() {
		ro = true
		embedOnly = fld.Embedded() && !sticky
	}
	if f.addr != nil {
		s := (*f.addr).(structure)
		r := mkRVAddr(fld.Type(), &s[i], ro)
		r[2] = rvflag{addr: &s[i], ro: ro, embedOnly: embedOnly}
		return r
	}
	s := v[1].(structure)
	r := mkRV(fld.Type(), copyVal(fld.Type(), s[i]))
	r[2] = rvflag{ro: ro, embedOnly: embedOnly}
	return r
}

// fieldByName finds a (possibly promoted) field; returns the index path.
func fieldByName(t types.Type, name string) ([]int, *types.Var) {
	obj, index, _ := types.LookupFieldOrMethod(t, true, nil, name)
	if obj == nil {
		// unexported fields need the package; try the struct's own fields
		if st, ok := t.Underlying().(*types.Struct); ok {
			for i := 0; i < st.NumFields(); i++ {
				if st.Field(i).Name() == name {
					return []int{i}, st.Field(i)
				}
			}
		}
		return nil, nil
	}
	if v, ok := obj.(*types.Var); ok && v.IsField() {
		return index, v
	}
	return nil, nil
}

func (e *Engine) rvFieldByIndex(v structure, index []int) structure {
	for n, i := range index {
		if n > 0 {
			if rvKind(v) == reflect.Ptr && reflectKind(deref(rvType(v))) == reflect.Struct {
				if payloadIsNil(e.rvLoad(v)) {
					reflectPanic("reflect: indirection through nil pointer to embedded struct")
				}
				v = e.rvElem(v)
			}
		}
		v = e.rvField(v, i)
	}
	return v
}

// methodValue returns the bound method name of v (zero Value if absent).
func (e *Engine) rvMethodByName(v structure, name string) structure {
	e.mustValid(v, "reflect.Value.MethodByName")
	t := rvType(v)
	if !exported(name) {
		return e.zeroRV()
	}
	if _, ok := t.Underlying().(*types.Interface); ok {
		i := e.rvLoad(v).(iface)
		obj, _, _ := types.LookupFieldOrMethod(t, false, nil, name)
		fnObj, ok := obj.(*types.Func)
		if !ok {
			return e.zeroRV()
		}
		if i.t == nil {
			reflectPanic("reflect: Method on nil interface value")
		}
		sig := fnObj.Type().(*types.Signature)
		recv := i
		cl := &closure{sig: stripRecv(sig), native: func(fr *frame, args []value) value {
			var fn value
			if nf := e.nativeMethod(recv, fnObj); nf != nil {
				fn = nf
			} else {
				fn = e.lookupMethod(recv.t, fnObj)
			}
			return e.call(fr, 0, fn, append([]value{recv.v}, args...))
		}}
		return mkRV(stripRecv(sig), cl)
	}
	ms := e.P.Prog.MethodSets.MethodSet(t)
	sel := ms.Lookup(nil, name)
	if sel == nil {
		return e.zeroRV()
	}
	fn := e.P.Prog.MethodValue(sel)
	if fn == nil {
		return e.zeroRV()
	}
	recv := copyVal(t, e.rvLoad(v))
	sig := stripRecv(sel.Type().(*types.Signature))
	cl := &closure{sig: sig, native: func(fr *frame, args []value) value {
		return e.call(fr, 0, fn, append([]value{recv}, args...))
	}}
	r := mkRV(sig, cl)
	if rvFlag(v).ro {
		r[2] = rvflag{ro: true}
	}
	return r
}

func stripRecv(sig *types.Signature) *types.Signature {
	return types.NewSignatureType(nil, nil, nil, sig.Params(), sig.Results(), sig.Variadic())
}

func exportedMethods(e *Engine, t types.Type) []*types.Selection {
	ms := e.P.Prog.MethodSets.MethodSet(t)
	var out []*types.Selection
	for i := 0; i < ms.Len(); i++ {
		if ms.At(i).Obj().Exported() {
			out = append(out, ms.At(i))
		}
	}
	return out
}

// rvCall implements Value.Call / CallSlice.
func (e *Engine) rvCall(fr *frame, v structure, in []value, isSlice bool) []value {
	op := "reflect.Value.Call"
	if isSlice {
		op = "reflect.Value.CallSlice"
	}
	e.mustKind(v, op, reflect.Func)
	e.mustExported(v, op)
	fnv := e.rvLoad(v)
	if payloadIsNil(fnv) {
		reflectPanic("reflect: call of nil function")
	}
	sig := rvType(v).Underlying().(*types.Signature)
	n := sig.Params().Len()
	if isSlice {
		if !sig.Variadic() {
			reflectPanic("reflect: CallSlice of non-variadic function")
		}
		if len(in) < n {
			reflectPanic("reflect: CallSlice with too few input arguments")
		}
		if len(in) > n {
			reflectPanic("reflect: CallSlice with too many input arguments")
		}
	} else {
		if sig.Variadic() {
			n--
		}
		if len(in) < n {
			reflectPanic("reflect: Call with too few input arguments")
		}
		if !sig.Variadic() && len(in) > n {
			reflectPanic("reflect: Call with too many input arguments")
		}
	}
	for _, x := range in {
		if !rvIsValid(x.(structure)) {
			reflectPanic("reflect: %s using zero Value argument", op)
		}
	}
	for i := 0; i < n; i++ {
		xt, pt := rvType(in[i].(structure)), sig.Params().At(i).Type()
		if !assignable(xt, pt) {
			reflectPanic("reflect: %s using %s as type %s", op, typeString(xt), typeString(pt))
		}
	}
	args := make([]value, 0, sig.Params().Len())
	for i := 0; i < n; i++ {
		x := in[i].(structure)
		e.mustExported(x, op)
		args = append(args, boxFor(rvType(x), sig.Params().At(i).Type(), e.rvLoad(x)))
	}
	if !isSlice && sig.Variadic() {
		st := sig.Params().At(n).Type().(*types.Slice)
		m := len(in) - n
		var sl []value
		if m > 0 {
			sl = make([]value, m)
		}
		for i := 0; i < m; i++ {
			x := in[n+i].(structure)
			xt := rvType(x)
			if !assignable(xt, st.Elem()) {
				reflectPanic("reflect: cannot use %s as type %s in %s", typeString(xt), typeString(st.Elem()), op)
			}
			sl[i] = boxFor(xt, st.Elem(), e.rvLoad(x))
		}
		args = append(args, sl)
	}
	res := e.call(fr, 0, fnv, args)
	var out []value
	switch sig.Results().Len() {
	case 0:
	case 1:
		out = []value{mkRV(sig.Results().At(0).Type(), res)}
	default:
		for i, r := range res.(tuple) {
			out = append(out, mkRV(sig.Results().At(i).Type(), r))
		}
	}
	if out == nil {
		out = []value{}
	}
	return out
}

// rvConvert implements Value.Convert.
func (e *Engine) rvConvert(v structure, dst types.Type) structure {
	e.mustExported(v, "reflect.Value.Convert")
	src := rvType(v)
	if !convertible(src, dst) {
		reflectPanic("reflect.Value.Convert: value of type %s cannot be converted to type %s", typeString(src), typeString(dst))
	}
	p := e.rvLoad(v)
	return mkRV(dst, e.convertPayload(src, dst, p))
}

func convertible(src, dst types.Type) bool {
	if types.Identical(src, dst) {
		return true
	}
	if _, ok := dst.Underlying().(*types.Interface); ok {
		return types.AssignableTo(src, dst)
	}
	if _, ok := src.Underlying().(*types.Interface); ok {
		return false
	}
	return types.ConvertibleTo(src, dst)
}

func (e *Engine) convertPayload(src, dst types.Type, p value) value {
	if types.Identical(src, dst) {
		return copyVal(dst, p)
	}
	if _, ok := dst.Underlying().(*types.Interface); ok {
		return boxFor(src, dst, p)
	}
	us, ud := src.Underlying(), dst.Underlying()
	if types.Identical(us, ud) {
		return copyVal(dst, p)
	}
	_, sb := us.(*types.Basic)
	_, db := ud.(*types.Basic)
	if sb || db {
		return e.conv(dst, src, p)
	}
	if ps, ok := us.(*types.Pointer); ok {
		if pd, ok := ud.(*types.Pointer); ok && types.Identical(ps.Elem().Underlying(), pd.Elem().Underlying()) {
			return p
		}
	}
	if _, ok := us.(*types.Slice); ok {
		if _, ok := ud.(*types.Pointer); ok {
			return sliceToArrayPointer(dst, src, p)
		}
	}
	if types.IdenticalIgnoreTags(us, ud) {
		return copyVal(dst, p)
	}
	if cs, ok := us.(*types.Chan); ok {
		// a bidirectional channel converted to a directional type: the same channel
		if cd, ok := ud.(*types.Chan); ok && cs.Dir() == types.SendRecv && types.Identical(cs.Elem(), cd.Elem()) {
			return p
		}
	}
	panic(unsupported{fmt.Sprintf("reflect Convert %s -> %s", src, dst)})
}

// deepEqual implements reflect.DeepEqual on engine values.
func (e *Engine) deepEqual(xt types.Type, x value, yt types.Type, y value, depth int) value {
	if depth > 50 {
		panic(unsupported{"DeepEqual recursion"})
	}
	if xt == nil || yt == nil {
		return xt == nil && yt == nil
	}
	if !types.Identical(xt, yt) {
		return false
	}
	switch t := xt.Underlying().(type) {
	case *types.Basic:
		return equalsV(e, xt, x, y)
	case *types.Array:
		xa, ya := x.(array), y.(array)
		var acc value = true
		for i := range xa {
			acc = andV(e, acc, e.deepEqual(t.Elem(), xa[i], t.Elem(), ya[i], depth+1))
			if b, ok := acc.(bool); ok && !b {
				return false
			}
		}
		return acc
	case *types.Slice:
		xs, ys := x.([]value), y.([]value)
		if (xs == nil) != (ys == nil) {
			return false
		}
		if len(xs) != len(ys) {
			return false
		}
		if len(xs) > 0 && &xs[0] == &ys[0] {
			return true
		}
		var acc value = true
		for i := range xs {
			acc = andV(e, acc, e.deepEqual(t.Elem(), xs[i], t.Elem(), ys[i], depth+1))
			if b, ok := acc.(bool); ok && !b {
				return false
			}
		}
		return acc
	case *types.Interface:
		xi, yi := x.(iface), y.(iface)
		if xi.t == nil || yi.t == nil {
			return xi.t == nil && yi.t == nil
		}
		return e.deepEqual(xi.t, xi.v, yi.t, yi.v, depth+1)
	case *types.Pointer:
		xp, yp := x.(*value), y.(*value)
		if xp == yp {
			return true
		}
		if xp == nil || yp == nil {
			return false
		}
		return e.deepEqual(t.Elem(), *xp, t.Elem(), *yp, depth+1)
	case *types.Struct:
		xs, ys := x.(structure), y.(structure)
		if isReflectValueType(xt) {
			panic(unsupported{"DeepEqual on reflect.Value"})
		}
		var acc value = true
		for i := range xs {
			acc = andV(e, acc, e.deepEqual(t.Field(i).Type(), xs[i], t.Field(i).Type(), ys[i], depth+1))
			if b, ok := acc.(bool); ok && !b {
				return false
			}
		}
		return acc
	case *types.Map:
		xm, ym := x.(*omap), y.(*omap)
		if (xm == nil) != (ym == nil) {
			return false
		}
		if xm == ym {
			return true
		}
		if xm.len() != ym.len() {
			return false
		}
		var acc value = true
		for _, en := range xm.live() {
			o := ym.find(e, en.k)
			if o == nil {
				return false
			}
			acc = andV(e, acc, e.deepEqual(t.Elem(), en.v, t.Elem(), o.v, depth+1))
			if b, ok := acc.(bool); ok && !b {
				return false
			}
		}
		return acc
	case *types.Signature:
		return payloadIsNil(x) && payloadIsNil(y)
	case *types.Chan:
		return x.(*channel) == y.(*channel)
	}
	panic(unsupported{"DeepEqual on " + xt.String()})
}

// ---------------------------------------------------------------- StructField

func (e *Engine) structFieldType() *types.Named {
	return e.P.reflectPkg.Type("StructField").Type().(*types.Named)
}

func (e *Engine) mkStructField(st *types.Struct, i int, index []int) value {
	f := st.Field(i)
	pkgPath := ""
	if !f.Exported() && f.Pkg() != nil {
		pkgPath = f.Pkg().Path()
	}
	idx := make([]value, len(index))
	for j, x := range index {
		idx[j] = x
	}
	// Name, PkgPath, Type, Tag, Offset, Index, Anonymous
	return structure{f.Name(), pkgPath, e.mkType(f.Type()), st.Tag(i), uintptr(i * 8), idx, f.Embedded()}
}

// ---------------------------------------------------------------- type methods

// nativeMethod returns an engine-native implementation of an interface
// method on engine-made dynamic values (reflect.Type).
func (e *Engine) nativeMethod(recv iface, m *types.Func) value {
	rt, ok := recv.v.(rtype)
	if !ok {
		return nil
	}
	name := m.Name()
	return &closure{native: func(fr *frame, args []value) value {
		return e.typeMethod(fr, rt.t, name, args[1:])
	}}
}

func (e *Engine) typeMethod(fr *frame, t types.Type, name string, args []value) value {
	e.noteFn("ext:(reflect.Type)." + name)
	k := reflectKind(t)
	switch name {
	case "Kind":
		return uint(k)
	case "String":
		return typeString(t)
	case "Name":
		switch t := types.Unalias(t).(type) {
		case *types.Named:
			return t.Obj().Name()
		case *types.Basic:
			return t.Name()
		}
		return ""
	case "PkgPath":
		if n, ok := types.Unalias(t).(*types.Named); ok && n.Obj().Pkg() != nil {
			return n.Obj().Pkg().Path()
		}
		return ""
	case "Elem":
		switch u := t.Underlying().(type) {
		case *types.Array:
			return e.mkType(u.Elem())
		case *types.Chan:
			return e.mkType(u.Elem())
		case *types.Map:
			return e.mkType(u.Elem())
		case *types.Pointer:
			return e.mkType(u.Elem())
		case *types.Slice:
			return e.mkType(u.Elem())
		}
		reflectPanic("reflect: Elem of invalid type %s", typeString(t))
	case "Key":
		if u, ok := t.Underlying().(*types.Map); ok {
			return e.mkType(u.Key())
		}
		reflectPanic("reflect: Key of non-map type %s", typeString(t))
	case "Len":
		if u, ok := t.Underlying().(*types.Array); ok {
			return int(u.Len())
		}
		reflectPanic("reflect: Len of non-array type %s", typeString(t))
	case "ChanDir":
		if u, ok := t.Underlying().(*types.Chan); ok {
			switch u.Dir() {
			case types.SendRecv:
				return int(reflect.BothDir)
			case types.SendOnly:
				return int(reflect.SendDir)
			}
			return int(reflect.RecvDir)
		}
		reflectPanic("reflect: ChanDir of non-chan type %s", typeString(t))
	case "NumIn", "NumOut", "In", "Out", "IsVariadic":
		sig, ok := t.Underlying().(*types.Signature)
		if !ok {
			reflectPanic("reflect: %s of non-func type %s", name, typeString(t))
		}
		switch name {
		case "NumIn":
			return sig.Params().Len()
		case "NumOut":
			return sig.Results().Len()
		case "IsVariadic":
			return sig.Variadic()
		case "In":
			i := int(e.concreteInt(args[0], 0, 64))
			if i < 0 || i >= sig.Params().Len() {
				panic(rtPanic{fmt.Sprintf("runtime error: index out of range [%d] with length %d", i, sig.Params().Len())})
			}
			return e.mkType(sig.Params().At(i).Type())
		case "Out":
			i := int(e.concreteInt(args[0], 0, 64))
			if i < 0 || i >= sig.Results().Len() {
				panic(rtPanic{fmt.Sprintf("runtime error: index out of range [%d] with length %d", i, sig.Results().Len())})
			}
			return e.mkType(sig.Results().At(i).Type())
		}
	case "NumField":
		if st, ok := t.Underlying().(*types.Struct); ok {
			return st.NumFields()
		}
		reflectPanic("reflect: NumField of non-struct type %s", typeString(t))
	case "Field":
		st, ok := t.Underlying().(*types.Struct)
		if !ok {
			reflectPanic("reflect: Field of non-struct type %s", typeString(t))
		}
		i := int(e.concreteInt(args[0], 0, 1024))
		if i < 0 || i >= st.NumFields() {
			reflectPanic("reflect: Field index out of bounds")
		}
		return e.mkStructField(st, i, []int{i})
	case "FieldByName":
		if _, ok := t.Underlying().(*types.Struct); !ok {
			reflectPanic("reflect: FieldByName of non-struct type %s", typeString(t))
		}
		index, fv := fieldByName(t, args[0].(string))
		if fv == nil {
			return tuple{zero(e.structFieldType()), false}
		}
		// locate the struct that declares the field
		cur := t
		for _, i := range index[:len(index)-1] {
			ft := cur.Underlying().(*types.Struct).Field(i).Type()
			if p, ok := ft.Underlying().(*types.Pointer); ok {
				ft = p.Elem()
			}
			cur = ft
		}
		return tuple{e.mkStructField(cur.Underlying().(*types.Struct), index[len(index)-1], index), true}
	case "NumMethod":
		if it, ok := t.Underlying().(*types.Interface); ok {
			return it.NumMethods()
		}
		return len(exportedMethods(e, t))
	case "MethodByName", "Method":
		ms := exportedMethods(e, t)
		mt := e.P.reflectPkg.Type("Method").Type()
		idx := -1
		if name == "MethodByName" {
			want, ok := args[0].(string)
			if !ok {
				panic(unsupported{"MethodByName with symbolic name"})
			}
			for i, m := range ms {
				if m.Obj().Name() == want {
					idx = i
				}
			}
			if idx < 0 {
				return tuple{zero(mt), false}
			}
		} else {
			idx = int(e.concreteInt(args[0], 0, 1024))
			if idx < 0 || idx >= len(ms) {
				reflectPanic("reflect: Method index out of range")
			}
		}
		sel := ms[idx]
		sig := sel.Type().(*types.Signature)
		// Name, PkgPath, Type, Func, Index  (Func takes the receiver first)
		var params []*types.Var
		params = append(params, types.NewVar(0, nil, "", t))
		for i := 0; i < sig.Params().Len(); i++ {
			params = append(params, sig.Params().At(i))
		}
		fsig := types.NewSignatureType(nil, nil, nil, types.NewTuple(params...), sig.Results(), sig.Variadic())
		var fv value = e.zeroRV()
		if _, isI := t.Underlying().(*types.Interface); !isI {
			if fn := e.P.Prog.MethodValue(sel); fn != nil {
				fv = mkRV(fsig, fn)
			}
		}
		m := structure{sel.Obj().Name(), "", e.mkType(fsig), fv, idx}
		if name == "MethodByName" {
			return tuple{m, true}
		}
		return m
	case "ConvertibleTo":
		u := args[0].(iface)
		if u.t == nil {
			reflectPanic("reflect: nil type passed to Type.ConvertibleTo")
		}
		return convertible(t, u.v.(rtype).t)
	case "AssignableTo":
		u := args[0].(iface)
		if u.t == nil {
			reflectPanic("reflect: nil type passed to Type.AssignableTo")
		}
		return assignable(t, u.v.(rtype).t)
	case "Implements":
		u := args[0].(iface)
		if u.t == nil {
			// (anko never calls Implements; std packages do, with package-level type
			// variables the engine does not initialise: outside the model)
			panic(unsupported{"Type.Implements with a nil type (uninitialised std package variable)"})
		}
		it, ok := u.v.(rtype).t.Underlying().(*types.Interface)
		if !ok {
			reflectPanic("reflect: non-interface type passed to Type.Implements")
		}
		return types.Implements(t, it)
	case "Comparable":
		return types.Comparable(t)
	case "Bits":
		if b, ok := t.Underlying().(*types.Basic); ok && b.Info()&types.IsNumeric != 0 {
			return int(e.P.Sizes.Sizeof(t)) * 8
		}
		reflectPanic("reflect: Bits of non-arithmetic Type %s", typeString(t))
	case "Size":
		return uintptr(e.P.Sizes.Sizeof(t))
	case "Align", "FieldAlign":
		return int(e.P.Sizes.Alignof(t))
	}
	panic(unsupported{"reflect.Type." + name})
}

// ---------------------------------------------------------------- registration

func (e *Engine) rtypeArg(v value, what string) types.Type {
	i := v.(iface)
	if i.t == nil {
		reflectPanic("reflect: nil type passed to %s", what)
	}
	return i.v.(rtype).t
}

func rvSliceArg(v value) []value {
	s, _ := v.([]value)
	return s
}

func init() {
	R := func(name string, f externalFn) { externals[name] = f }
	rv := func(v structure) value { return v }

	R("reflect.ValueOf", func(fr *frame, a []value) value { return rv(fr.e.valueOf(a[0].(iface))) })
	R("reflect.TypeOf", func(fr *frame, a []value) value { return fr.e.mkType(a[0].(iface).t) })
	R("reflect.Zero", func(fr *frame, a []value) value {
		t := fr.e.rtypeArg(a[0], "reflect.Zero")
		return rv(mkRV(t, zero(t)))
	})
	R("reflect.New", func(fr *frame, a []value) value {
		t := fr.e.rtypeArg(a[0], "reflect.New")
		cell := zero(t)
		return rv(mkRV(types.NewPointer(t), &cell))
	})
	R("reflect.Indirect", func(fr *frame, a []value) value {
		v := argRV(a[0])
		if rvKind(v) != reflect.Ptr {
			return rv(v)
		}
		return rv(fr.e.rvElem(v))
	})
	R("reflect.SliceOf", func(fr *frame, a []value) value {
		return fr.e.mkType(types.NewSlice(fr.e.rtypeArg(a[0], "reflect.SliceOf")))
	})
	ptrTo := func(fr *frame, a []value) value {
		return fr.e.mkType(types.NewPointer(fr.e.rtypeArg(a[0], "reflect.PointerTo")))
	}
	R("reflect.PtrTo", ptrTo)
	R("reflect.PointerTo", ptrTo)
	R("reflect.MapOf", func(fr *frame, a []value) value {
		k := fr.e.rtypeArg(a[0], "reflect.MapOf")
		el := fr.e.rtypeArg(a[1], "reflect.MapOf")
		if !types.Comparable(k) {
			reflectPanic("reflect.MapOf: invalid key type %s", typeString(k))
		}
		return fr.e.mkType(types.NewMap(k, el))
	})
	R("reflect.ChanOf", func(fr *frame, a []value) value {
		el := fr.e.rtypeArg(a[1], "reflect.ChanOf")
		dir := types.SendRecv
		switch reflect.ChanDir(asInt64(a[0])) {
		case reflect.SendDir:
			dir = types.SendOnly
		case reflect.RecvDir:
			dir = types.RecvOnly
		case reflect.BothDir:
		default:
			reflectPanic("reflect.ChanOf: invalid dir")
		}
		return fr.e.mkType(types.NewChan(dir, el))
	})
	R("reflect.FuncOf", func(fr *frame, a []value) value {
		e := fr.e
		var in, out []*types.Var
		for _, t := range rvSliceArg(a[0]) {
			in = append(in, types.NewVar(0, nil, "", e.rtypeArg(t, "reflect.FuncOf")))
		}
		for _, t := range rvSliceArg(a[1]) {
			out = append(out, types.NewVar(0, nil, "", e.rtypeArg(t, "reflect.FuncOf")))
		}
		variadic := a[2].(bool)
		if variadic {
			if len(in) == 0 {
				reflectPanic("reflect.FuncOf: last arg of variadic func must be slice")
			}
			if _, ok := in[len(in)-1].Type().Underlying().(*types.Slice); !ok {
				reflectPanic("reflect.FuncOf: last arg of variadic func must be slice")
			}
		}
		return e.mkType(types.NewSignatureType(nil, nil, nil, types.NewTuple(in...), types.NewTuple(out...), variadic))
	})
	R("reflect.StructOf", func(fr *frame, a []value) value {
		e := fr.e
		var fields []*types.Var
		var tags []string
		seen := map[string]bool{}
		for _, f := range rvSliceArg(a[0]) {
			sf := f.(structure)
			name, _ := sf[0].(string)
			if name == "" {
				reflectPanic("reflect.StructOf: field %d has no name", len(fields))
			}
			if !token.IsIdentifier(name) {
				reflectPanic("reflect.StructOf: field %d has invalid name", len(fields))
			}
			ti := sf[2].(iface)
			if ti.t == nil {
				reflectPanic("reflect.StructOf: field %d has no type", len(fields))
			}
			pkgPath, _ := sf[1].(string)
			if !exported(name) && pkgPath == "" {
				reflectPanic("reflect.StructOf: field %q is unexported but missing PkgPath", name)
			}
			if seen[name] {
				reflectPanic("reflect.StructOf: duplicate field %s", name)
			}
			seen[name] = true
			fields = append(fields, types.NewField(0, nil, name, ti.v.(rtype).t, sf[6].(bool)))
			tag, _ := sf[3].(string)
			tags = append(tags, tag)
		}
		return e.mkType(types.NewStruct(fields, tags))
	})
	R("reflect.MakeSlice", func(fr *frame, a []value) value {
		e := fr.e
		t := e.rtypeArg(a[0], "reflect.MakeSlice")
		st, ok := t.Underlying().(*types.Slice)
		if !ok {
			reflectPanic("reflect.MakeSlice of non-slice type")
		}
		n := e.concreteSize(a[1])
		c := e.concreteSize(a[2])
		if n < 0 {
			reflectPanic("reflect.MakeSlice: negative len")
		}
		if c < 0 {
			reflectPanic("reflect.MakeSlice: negative cap")
		}
		if n > c {
			reflectPanic("reflect.MakeSlice: len > cap")
		}
		if c > e.MaxAlloc {
			panic(pathAbort{"resource", fmt.Sprintf("reflect.MakeSlice of %d elements", c)})
		}
		s := make([]value, c)
		for i := range s {
			s[i] = zero(st.Elem())
		}
		return rv(mkRV(t, s[:n]))
	})
	R("reflect.MakeMap", func(fr *frame, a []value) value {
		t := fr.e.rtypeArg(a[0], "reflect.MakeMap")
		mt, ok := t.Underlying().(*types.Map)
		if !ok {
			reflectPanic("reflect.MakeMap of non-map type")
		}
		return rv(mkRV(t, newOmap(mt.Key())))
	})
	R("reflect.MakeMapWithSize", func(fr *frame, a []value) value {
		t := fr.e.rtypeArg(a[0], "reflect.MakeMapWithSize")
		mt, ok := t.Underlying().(*types.Map)
		if !ok {
			reflectPanic("reflect.MakeMapWithSize of non-map type")
		}
		return rv(mkRV(t, newOmap(mt.Key())))
	})
	R("reflect.MakeChan", func(fr *frame, a []value) value {
		e := fr.e
		t := e.rtypeArg(a[0], "reflect.MakeChan")
		ct, ok := t.Underlying().(*types.Chan)
		if !ok {
			reflectPanic("reflect.MakeChan of non-chan type")
		}
		if ct.Dir() != types.SendRecv {
			reflectPanic("reflect.MakeChan: unidirectional channel type")
		}
		n := e.concreteSize(a[1])
		if n < 0 {
			reflectPanic("reflect.MakeChan: negative buffer size")
		}
		if n > e.MaxAlloc {
			panic(pathAbort{"resource", "reflect.MakeChan buffer"})
		}
		return rv(mkRV(t, newChannel(int(n), ct.Elem())))
	})
	R("reflect.MakeFunc", func(fr *frame, a []value) value {
		e := fr.e
		t := e.rtypeArg(a[0], "reflect.MakeFunc")
		sig, ok := t.Underlying().(*types.Signature)
		if !ok {
			reflectPanic("reflect: call of MakeFunc with non-Func type")
		}
		impl := a[1]
		cl := &closure{sig: sig, native: func(fr2 *frame, args []value) value {
			in := make([]value, len(args))
			for i, x := range args {
				in[i] = mkRV(sig.Params().At(i).Type(), x)
			}
			res := e.call(fr2, 0, impl, []value{in})
			outs := rvSliceArg(res)
			if len(outs) != sig.Results().Len() {
				reflectPanic("reflect: wrong return count from function created by MakeFunc")
			}
			vals := make([]value, len(outs))
			for i, o := range outs {
				ov := o.(structure)
				rt := sig.Results().At(i).Type()
				if !rvIsValid(ov) {
					reflectPanic("reflect: function created by MakeFunc using closure returned zero Value")
				}
				if rvFlag(ov).ro {
					reflectPanic("reflect: function created by MakeFunc using closure returned value obtained from unexported field")
				}
				if !assignable(rvType(ov), rt) {
					reflectPanic("reflect: function created by MakeFunc using closure returned wrong type: have %s for %s", typeString(rvType(ov)), typeString(rt))
				}
				vals[i] = boxFor(rvType(ov), rt, e.rvLoad(ov))
			}
			switch len(vals) {
			case 0:
				return nil
			case 1:
				return vals[0]
			}
			return tuple(vals)
		}}
		return rv(mkRV(t, cl))
	})
	R("reflect.Append", func(fr *frame, a []value) value {
		e := fr.e
		s := argRV(a[0])
		e.mustKind(s, "reflect.Append", reflect.Slice)
		e.mustExported(s, "reflect.Append")
		t := rvType(s)
		et := t.Underlying().(*types.Slice).Elem()
		cur := e.rvLoad(s).([]value)
		out := cur
		for _, x := range rvSliceArg(a[1]) {
			xv := x.(structure)
			e.mustExported(xv, "reflect.Append")
			if !assignable(rvType(xv), et) {
				reflectPanic("reflect.Set: value of type %s is not assignable to type %s", typeString(rvType(xv)), typeString(et))
			}
			if e.frozen != nil && len(out) < cap(out) {
				full := out[:cap(out)]
				e.checkFrozen(&full[len(out)])
			}
			out = append(out, boxFor(rvType(xv), et, e.rvLoad(xv)))
		}
		return rv(mkRV(t, out))
	})
	R("reflect.AppendSlice", func(fr *frame, a []value) value {
		e := fr.e
		s, t2 := argRV(a[0]), argRV(a[1])
		e.mustKind(s, "reflect.AppendSlice", reflect.Slice)
		e.mustKind(t2, "reflect.AppendSlice", reflect.Slice)
		e.mustExported(s, "reflect.AppendSlice")
		e.mustExported(t2, "reflect.AppendSlice")
		t := rvType(s)
		if !types.Identical(t.Underlying().(*types.Slice).Elem(), rvType(t2).Underlying().(*types.Slice).Elem()) {
			reflectPanic("reflect.AppendSlice: %s != %s", typeString(t), typeString(rvType(t2)))
		}
		et := t.Underlying().(*types.Slice).Elem()
		out := e.rvLoad(s).([]value)
		// (snapshot first: the operands may share storage)
		src := e.rvLoad(t2).([]value)
		snap := make([]value, len(src))
		for i, x := range src {
			snap[i] = copyVal(et, x)
		}
		for _, x := range snap {
			if e.frozen != nil && len(out) < cap(out) {
				full := out[:cap(out)]
				e.checkFrozen(&full[len(out)])
			}
			out = append(out, x)
		}
		return rv(mkRV(t, out))
	})
	R("reflect.DeepEqual", func(fr *frame, a []value) value {
		x, y := a[0].(iface), a[1].(iface)
		return fr.e.deepEqual(x.t, x.v, y.t, y.v, 0)
	})
	R("reflect.Select", func(fr *frame, a []value) value {
		e := fr.e
		var cases []selCase
		hasDefault := false
		var recvT []types.Type
		idxMap := []int{}
		for i, c := range rvSliceArg(a[0]) {
			sc := c.(structure)
			dir := reflect.SelectDir(asInt64(sc[0]))
			chv := sc[1].(structure)
			switch dir {
			case reflect.SelectDefault:
				hasDefault = true
				continue
			case reflect.SelectRecv:
				var ch *channel
				var et types.Type
				if rvIsValid(chv) {
					e.mustKind(chv, "reflect.Select", reflect.Chan)
					ch = e.rvLoad(chv).(*channel)
					et = rvType(chv).Underlying().(*types.Chan).Elem()
				}
				cases = append(cases, selCase{dir: types.RecvOnly, ch: ch})
				recvT = append(recvT, et)
			case reflect.SelectSend:
				var ch *channel
				var sendv value
				if rvIsValid(chv) {
					e.mustKind(chv, "reflect.Select", reflect.Chan)
					ch = e.rvLoad(chv).(*channel)
					et := rvType(chv).Underlying().(*types.Chan).Elem()
					sv := sc[2].(structure)
					if !rvIsValid(sv) {
						reflectPanic("reflect.Select: SendDir case missing Send value")
					}
					if !assignable(rvType(sv), et) {
						reflectPanic("reflect.Select: value of type %s is not assignable to type %s", typeString(rvType(sv)), typeString(et))
					}
					sendv = boxFor(rvType(sv), et, e.rvLoad(sv))
				}
				cases = append(cases, selCase{dir: types.SendOnly, ch: ch, send: sendv})
				recvT = append(recvT, nil)
			default:
				reflectPanic("reflect.Select: invalid Dir")
			}
			idxMap = append(idxMap, i)
		}
		chosen, recv, ok := e.doSelect(cases, hasDefault)
		if chosen < 0 {
			// default case index
			for i, c := range rvSliceArg(a[0]) {
				if reflect.SelectDir(asInt64(c.(structure)[0])) == reflect.SelectDefault {
					return tuple{i, e.zeroRV(), false}
				}
			}
		}
		var r structure = e.zeroRV()
		if cases[chosen].dir == types.RecvOnly {
			et := recvT[chosen]
			if ok {
				r = mkRV(et, recv)
			} else {
				r = mkRV(et, zero(et))
			}
		}
		return tuple{idxMap[chosen], r, ok}
	})

	// ---- Value methods
	R("(reflect.Value).IsValid", func(fr *frame, a []value) value { return rvIsValid(argRV(a[0])) })
	R("(reflect.Value).Kind", func(fr *frame, a []value) value { return uint(rvKind(argRV(a[0]))) })
	R("(reflect.Value).Type", func(fr *frame, a []value) value {
		v := argRV(a[0])
		fr.e.mustValid(v, "reflect.Value.Type")
		return fr.e.mkType(rvType(v))
	})
	R("(reflect.Value).Interface", func(fr *frame, a []value) value { return fr.e.rvInterface(argRV(a[0])) })
	R("(reflect.Value).CanInterface", func(fr *frame, a []value) value {
		v := argRV(a[0])
		if !rvIsValid(v) {
			valueErr("reflect.Value.CanInterface", reflect.Invalid)
		}
		return !rvFlag(v).ro
	})
	R("(reflect.Value).CanAddr", func(fr *frame, a []value) value {
		v := argRV(a[0])
		return rvIsValid(v) && rvFlag(v).addr != nil
	})
	R("(reflect.Value).CanSet", func(fr *frame, a []value) value {
		v := argRV(a[0])
		f := rvFlag(v)
		return rvIsValid(v) && f.addr != nil && !f.ro
	})
	R("(reflect.Value).Addr", func(fr *frame, a []value) value {
		v := argRV(a[0])
		f := rvFlag(v)
		if !rvIsValid(v) || f.addr == nil {
			reflectPanic("reflect.Value.Addr of unaddressable value")
		}
		r := mkRV(types.NewPointer(rvType(v)), f.addr)
		r[2] = rvflag{ro: f.ro}
		return rv(r)
	})
	R("(reflect.Value).IsNil", func(fr *frame, a []value) value {
		v := argRV(a[0])
		k := rvKind(v)
		if !isNilable(k) {
			valueErr("reflect.Value.IsNil", k)
		}
		return payloadIsNil(fr.e.rvLoad(v))
	})
	R("(reflect.Value).IsZero", func(fr *frame, a []value) value {
		v := argRV(a[0])
		fr.e.mustValid(v, "reflect.Value.IsZero")
		t := rvType(v)
		return fr.e.deepEqual(t, fr.e.rvLoad(v), t, zero(t), 0)
	})
	R("(reflect.Value).Elem", func(fr *frame, a []value) value { return rv(fr.e.rvElem(argRV(a[0]))) })
	R("(reflect.Value).Len", func(fr *frame, a []value) value { return fr.e.rvLen(argRV(a[0])) })
	R("(reflect.Value).Cap", func(fr *frame, a []value) value { return fr.e.rvCap(argRV(a[0])) })
	R("(reflect.Value).Index", func(fr *frame, a []value) value { return rv(fr.e.rvIndex(argRV(a[0]), a[1])) })
	R("(reflect.Value).Slice", func(fr *frame, a []value) value {
		return rv(fr.e.rvSlice(argRV(a[0]), a[1], a[2], nil, false))
	})
	R("(reflect.Value).Slice3", func(fr *frame, a []value) value {
		return rv(fr.e.rvSlice(argRV(a[0]), a[1], a[2], a[3], true))
	})
	R("(reflect.Value).Int", func(fr *frame, a []value) value {
		v := argRV(a[0])
		k := rvKind(v)
		switch k {
		case reflect.Int, reflect.Int8, reflect.Int16, reflect.Int32, reflect.Int64:
			p := fr.e.rvLoad(v)
			if s, ok := p.(sv); ok {
				return fr.e.convScalar(types.Int64, s)
			}
			return asInt64(p)
		}
		valueErr("reflect.Value.Int", k)
		return nil
	})
	R("(reflect.Value).Uint", func(fr *frame, a []value) value {
		v := argRV(a[0])
		k := rvKind(v)
		switch k {
		case reflect.Uint, reflect.Uint8, reflect.Uint16, reflect.Uint32, reflect.Uint64, reflect.Uintptr:
			p := fr.e.rvLoad(v)
			if s, ok := p.(sv); ok {
				return fr.e.convScalar(types.Uint64, s)
			}
			return uint64(asInt64(p))
		}
		valueErr("reflect.Value.Uint", k)
		return nil
	})
	R("(reflect.Value).Float", func(fr *frame, a []value) value {
		v := argRV(a[0])
		k := rvKind(v)
		switch k {
		case reflect.Float32, reflect.Float64:
			p := fr.e.rvLoad(v)
			switch p := p.(type) {
			case sv:
				return fr.e.convScalar(types.Float64, p)
			case float32:
				return float64(p)
			case float64:
				return p
			}
		}
		valueErr("reflect.Value.Float", k)
		return nil
	})
	R("(reflect.Value).Bool", func(fr *frame, a []value) value {
		v := argRV(a[0])
		if k := rvKind(v); k != reflect.Bool {
			valueErr("reflect.Value.Bool", k)
		}
		return fr.e.rvLoad(v)
	})
	R("(reflect.Value).String", func(fr *frame, a []value) value {
		v := argRV(a[0])
		k := rvKind(v)
		if k == reflect.Invalid {
			return "<invalid Value>"
		}
		if k == reflect.String {
			return fr.e.rvLoad(v)
		}
		return "<" + typeString(rvType(v)) + " Value>"
	})
	R("(reflect.Value).Bytes", func(fr *frame, a []value) value {
		v := argRV(a[0])
		fr.e.mustKind(v, "reflect.Value.Bytes", reflect.Slice)
		return fr.e.rvLoad(v)
	})
	R("(reflect.Value).Set", func(fr *frame, a []value) value { fr.e.rvSet(argRV(a[0]), argRV(a[1])); return nil })
	setScalar := func(name string, ok func(reflect.Kind) bool) externalFn {
		return func(fr *frame, a []value) value {
			e := fr.e
			v := argRV(a[0])
			f := e.mustSettable(v, "reflect.Value."+name)
			k := rvKind(v)
			if !ok(k) {
				valueErr("reflect.Value."+name, k)
			}
			t := rvType(v)
			var x value = a[1]
			if b, isB := t.Underlying().(*types.Basic); isB {
				switch xv := x.(type) {
				case sv:
					x = e.convScalar(b.Kind(), xv)
				case string, symstr, bool:
				default:
					var src types.Type = types.Typ[types.Int64]
					switch xv.(type) {
					case uint64:
						src = types.Typ[types.Uint64]
					case float64:
						src = types.Typ[types.Float64]
					}
					x = e.conv(t, src, x)
				}
			}
			e.store(t, f.addr, x)
			return nil
		}
	}
	R("(reflect.Value).SetString", setScalar("SetString", func(k reflect.Kind) bool { return k == reflect.String }))
	R("(reflect.Value).SetBool", setScalar("SetBool", func(k reflect.Kind) bool { return k == reflect.Bool }))
	R("(reflect.Value).SetInt", setScalar("SetInt", func(k reflect.Kind) bool { return k >= reflect.Int && k <= reflect.Int64 }))
	R("(reflect.Value).SetUint", setScalar("SetUint", func(k reflect.Kind) bool { return k >= reflect.Uint && k <= reflect.Uintptr }))
	R("(reflect.Value).SetFloat", setScalar("SetFloat", func(k reflect.Kind) bool { return k == reflect.Float32 || k == reflect.Float64 }))
	R("(reflect.Value).SetLen", func(fr *frame, a []value) value {
		e := fr.e
		v := argRV(a[0])
		f := e.mustSettable(v, "reflect.Value.SetLen")
		e.mustKind(v, "reflect.Value.SetLen", reflect.Slice)
		s := (*f.addr).([]value)
		n := e.concreteInt(a[1], 0, 1<<40)
		if n < 0 || n > int64(cap(s)) {
			reflectPanic("reflect: slice length out of range in SetLen")
		}
		*f.addr = s[:n]
		return nil
	})
	R("(reflect.Value).MapIndex", func(fr *frame, a []value) value { return rv(fr.e.rvMapIndex(argRV(a[0]), argRV(a[1]))) })
	R("(reflect.Value).SetMapIndex", func(fr *frame, a []value) value {
		fr.e.rvSetMapIndex(argRV(a[0]), argRV(a[1]), argRV(a[2]))
		return nil
	})
	R("(reflect.Value).MapKeys", func(fr *frame, a []value) value { return fr.e.rvMapKeys(argRV(a[0])) })
	R("(reflect.Value).MapRange", func(fr *frame, a []value) value {
		e := fr.e
		v := argRV(a[0])
		e.mustKind(v, "reflect.Value.MapRange", reflect.Map)
		m := e.rvLoad(v).(*omap)
		it := &mapRangeIter{mt: rvType(v).Underlying().(*types.Map), i: -1, ro: rvFlag(v).ro}
		if m != nil {
			e.noteNondet("map-iteration")
			it.snap = m.live()
			if e.permuteMaps && len(it.snap) > 1 && len(it.snap) <= 3 {
				it.snap = e.permute(it.snap)
			}
		}
		var cell value = it
		return &cell
	})
	R("(*reflect.MapIter).Next", func(fr *frame, a []value) value {
		it := (*a[0].(*value)).(*mapRangeIter)
		for {
			it.i++
			if it.i >= len(it.snap) {
				return false
			}
			if !it.snap[it.i].deleted {
				return true
			}
		}
	})
	R("(*reflect.MapIter).Key", func(fr *frame, a []value) value {
		it := (*a[0].(*value)).(*mapRangeIter)
		if it.i < 0 || it.i >= len(it.snap) {
			reflectPanic("MapIter.Key called before Next")
		}
		return rv(mkRV(it.mt.Key(), copyVal(it.mt.Key(), it.snap[it.i].k)))
	})
	R("(*reflect.MapIter).Value", func(fr *frame, a []value) value {
		it := (*a[0].(*value)).(*mapRangeIter)
		if it.i < 0 || it.i >= len(it.snap) {
			reflectPanic("MapIter.Value called before Next")
		}
		return rv(mkRV(it.mt.Elem(), copyVal(it.mt.Elem(), it.snap[it.i].v)))
	})
	R("(reflect.Value).NumField", func(fr *frame, a []value) value {
		v := argRV(a[0])
		fr.e.mustKind(v, "reflect.Value.NumField", reflect.Struct)
		return rvType(v).Underlying().(*types.Struct).NumFields()
	})
	R("(reflect.Value).Field", func(fr *frame, a []value) value {
		return rv(fr.e.rvField(argRV(a[0]), int(fr.e.concreteInt(a[1], 0, 1024))))
	})
	R("(reflect.Value).FieldByName", func(fr *frame, a []value) value {
		e := fr.e
		v := argRV(a[0])
		e.mustKind(v, "reflect.Value.FieldByName", reflect.Struct)
		name, ok := a[1].(string)
		if !ok {
			panic(unsupported{"FieldByName with symbolic name"})
		}
		index, fv := fieldByName(rvType(v), name)
		if fv == nil {
			return rv(e.zeroRV())
		}
		return rv(e.rvFieldByIndex(v, index))
	})
	R("(reflect.Value).FieldByIndex", func(fr *frame, a []value) value {
		var idx []int
		for _, x := range rvSliceArg(a[1]) {
			idx = append(idx, int(asInt64(x)))
		}
		return rv(fr.e.rvFieldByIndex(argRV(a[0]), idx))
	})
	R("(reflect.Value).NumMethod", func(fr *frame, a []value) value {
		v := argRV(a[0])
		fr.e.mustValid(v, "reflect.Value.NumMethod")
		return len(exportedMethods(fr.e, rvType(v)))
	})
	R("(reflect.Value).FieldByIndexErr", func(fr *frame, a []value) value {
		e := fr.e
		v := argRV(a[0])
		e.mustKind(v, "reflect.Value.FieldByIndexErr", reflect.Struct)
		var idx []int
		for _, x := range a[1].([]value) {
			idx = append(idx, int(e.concreteInt(x, 0, 1<<20)))
		}
		// the error case of the real function: a nil pointer to an embedded struct on the way
		cur := v
		for n, i := range idx {
			if n > 0 && rvKind(cur) == reflect.Ptr && reflectKind(deref(rvType(cur))) == reflect.Struct {
				if payloadIsNil(e.rvLoad(cur)) {
					return tuple{rv(e.zeroRV()), e.newError("reflect: indirection through nil pointer to embedded struct field " + typeString(deref(rvType(cur))))}
				}
				cur = e.rvElem(cur)
			}
			cur = e.rvField(cur, i)
		}
		return tuple{rv(cur), iface{}}
	})
	R("(reflect.Value).MethodByName", func(fr *frame, a []value) value {
		name, ok := a[1].(string)
		if !ok {
			panic(unsupported{"MethodByName with symbolic name"})
		}
		return rv(fr.e.rvMethodByName(argRV(a[0]), name))
	})
	R("(reflect.Value).Method", func(fr *frame, a []value) value {
		e := fr.e
		v := argRV(a[0])
		e.mustValid(v, "reflect.Value.Method")
		ms := exportedMethods(e, rvType(v))
		i := int(e.concreteInt(a[1], 0, 1024))
		if i < 0 || i >= len(ms) {
			reflectPanic("reflect: Method index out of range")
		}
		return rv(e.rvMethodByName(v, ms[i].Obj().Name()))
	})
	R("(reflect.Value).Call", func(fr *frame, a []value) value {
		return fr.e.rvCall(fr, argRV(a[0]), rvSliceArg(a[1]), false)
	})
	R("(reflect.Value).CallSlice", func(fr *frame, a []value) value {
		return fr.e.rvCall(fr, argRV(a[0]), rvSliceArg(a[1]), true)
	})
	R("(reflect.Value).Convert", func(fr *frame, a []value) value {
		return rv(fr.e.rvConvert(argRV(a[0]), fr.e.rtypeArg(a[1], "reflect.Value.Convert")))
	})
	R("(reflect.Value).CanConvert", func(fr *frame, a []value) value {
		return convertible(rvType(argRV(a[0])), fr.e.rtypeArg(a[1], "reflect.Value.CanConvert"))
	})
	R("(reflect.Value).Comparable", func(fr *frame, a []value) value {
		v := argRV(a[0])
		if !rvIsValid(v) {
			return true
		}
		return fr.e.comparableV(rvType(v), fr.e.rvLoad(v))
	})
	R("(reflect.Value).Close", func(fr *frame, a []value) value {
		e := fr.e
		v := argRV(a[0])
		e.mustKind(v, "reflect.Value.Close", reflect.Chan)
		e.mustExported(v, "reflect.Value.Close")
		if rvType(v).Underlying().(*types.Chan).Dir() == types.RecvOnly {
			reflectPanic("reflect: close of receive-only channel")
		}
		e.chanClose(e.rvLoad(v).(*channel))
		return nil
	})
	R("(reflect.Value).Send", func(fr *frame, a []value) value {
		e := fr.e
		v, x := argRV(a[0]), argRV(a[1])
		e.mustKind(v, "reflect.Value.Send", reflect.Chan)
		et := rvType(v).Underlying().(*types.Chan).Elem()
		e.mustExported(x, "reflect.Value.Send")
		if !assignable(rvType(x), et) {
			reflectPanic("reflect.Value.Send: value of type %s is not assignable to type %s", typeString(rvType(x)), typeString(et))
		}
		e.schedPoint("send") // (another goroutine may act between a preceding check - Len() < Cap() - and this send)
		e.chanSend(e.rvLoad(v).(*channel), boxFor(rvType(x), et, e.rvLoad(x)))
		return nil
	})
	R("(reflect.Value).Recv", func(fr *frame, a []value) value {
		e := fr.e
		v := argRV(a[0])
		e.mustKind(v, "reflect.Value.Recv", reflect.Chan)
		et := rvType(v).Underlying().(*types.Chan).Elem()
		x, ok := e.chanRecv(e.rvLoad(v).(*channel))
		if !ok {
			return tuple{mkRV(et, zero(et)), false}
		}
		return tuple{mkRV(et, x), true}
	})
	R("(reflect.Value).TryRecv", func(fr *frame, a []value) value {
		e := fr.e
		v := argRV(a[0])
		e.mustKind(v, "reflect.Value.TryRecv", reflect.Chan)
		e.schedPoint("recv") // (another goroutine may act between a preceding check and this attempt)
		et := rvType(v).Underlying().(*types.Chan).Elem()
		ch := e.rvLoad(v).(*channel)
		if ch == nil || !ch.recvReady() {
			return tuple{e.zeroRV(), false}
		}
		x, ok := ch.take()
		if !ok {
			return tuple{mkRV(et, zero(et)), false}
		}
		return tuple{mkRV(et, x), true}
	})
	R("(reflect.Value).TrySend", func(fr *frame, a []value) value {
		e := fr.e
		v, x := argRV(a[0]), argRV(a[1])
		e.mustKind(v, "reflect.Value.TrySend", reflect.Chan)
		e.schedPoint("send")
		et := rvType(v).Underlying().(*types.Chan).Elem()
		if !assignable(rvType(x), et) {
			reflectPanic("reflect.Value.TrySend: value of type %s is not assignable to type %s", typeString(rvType(x)), typeString(et))
		}
		ch := e.rvLoad(v).(*channel)
		if ch == nil {
			return false
		}
		if ch.closed {
			panic(targetPanic{iface{e.P.rtPlain, "send on closed channel"}})
		}
		if !ch.sendReady() {
			return false
		}
		val := boxFor(rvType(x), et, e.rvLoad(x))
		if ch.cap > 0 {
			ch.buf = append(ch.buf, val)
		} else {
			ch.pending = append(ch.pending, &sendItem{v: val})
		}
		return true
	})
	R("(reflect.Value).Pointer", func(fr *frame, a []value) value {
		e := fr.e
		v := argRV(a[0])
		e.mustKind(v, "reflect.Value.Pointer", reflect.Chan, reflect.Func, reflect.Map, reflect.Ptr, reflect.Slice, reflect.UnsafePointer)
		e.noteNondet("address")
		switch p := e.rvLoad(v).(type) {
		case *value:
			if p == nil {
				return uintptr(0)
			}
			return uintptr(e.addrOf(p))
		}
		if payloadIsNil(e.rvLoad(v)) {
			return uintptr(0)
		}
		switch p := e.rvLoad(v).(type) {
		case []value:
			// the address of the first element (cap 0: a fixed non-nil address, as in Go)
			if cap(p) > 0 {
				return uintptr(e.addrOf(&p[:1][0]))
			}
			return uintptr(0xc000100000)
		case *omap:
			if e.mapAddrs == nil {
				e.mapAddrs = map[*omap]int{}
			}
			if _, ok := e.mapAddrs[p]; !ok {
				e.mapAddrs[p] = 0xc000200000 + 64*len(e.mapAddrs)
			}
			return uintptr(e.mapAddrs[p])
		}
		return uintptr(0xc000100000)
	})
	R("(reflect.Value).UnsafePointer", func(fr *frame, a []value) value {
		panic(unsupported{"reflect.Value.UnsafePointer"})
	})
	R("(reflect.Kind).String", func(fr *frame, a []value) value {
		return reflect.Kind(asInt64(a[0])).String()
	})
	R("(reflect.ChanDir).String", func(fr *frame, a []value) value {
		return reflect.ChanDir(asInt64(a[0])).String()
	})
}

type mapRangeIter struct {
	mt   *types.Map
	snap []*mentry
	i    int
	ro   bool
}

// comparableV implements Value.Comparable (dynamic for interfaces).
func (e *Engine) comparableV(t types.Type, p value) bool {
	switch u := t.Underlying().(type) {
	case *types.Interface:
		i := p.(iface)
		if i.t == nil {
			return true
		}
		return e.comparableV(i.t, i.v)
	case *types.Slice, *types.Map, *types.Signature:
		return false
	case *types.Array:
		for _, x := range p.(array) {
			if !e.comparableV(u.Elem(), x) {
				return false
			}
		}
		return true
	case *types.Struct:
		for i, x := range p.(structure) {
			if !e.comparableV(u.Field(i).Type(), x) {
				return false
			}
		}
		return true
	}
	return true
}
