package engine

// Front end: load /repo (with the harness overlay) and build SSA.  The
// encoding is regenerated from the current source on every run.

import (
	"crypto/sha256"
	"fmt"
	"go/types"
	"os"
	"path/filepath"
	"sort"
	"strings"

	"golang.org/x/tools/go/packages"
	"golang.org/x/tools/go/ssa"
	"golang.org/x/tools/go/ssa/ssautil"
)

type LoadConfig struct {
	Repo       string            // /repo
	HarnessDir string            // /verif/harness
	GenDir     string            // generated harness support (optional)
	Patterns   []string          // package patterns relative to the module, e.g. ./vm
	Extra      map[string][]byte // extra overlay files
}

// Overlay builds the overlay map: harness/<pkg>/*.go -> repo/<pkg>/zz_verif_*.go,
// harness/zzverif -> repo/zzverif.
func Overlay(repo, harnessDir string, native bool) (map[string][]byte, error) {
	ov := map[string][]byte{}
	err := filepath.Walk(harnessDir, func(path string, info os.FileInfo, err error) error {
		if err != nil {
			return err
		}
		if info.IsDir() || !strings.HasSuffix(path, ".go") {
			return nil
		}
		rel, _ := filepath.Rel(harnessDir, path)
		dir := filepath.Dir(rel)
		base := filepath.Base(rel)
		data, err := os.ReadFile(path)
		if err != nil {
			return err
		}
		if dir == "zzverif" {
			ov[filepath.Join(repo, "zzverif", base)] = data
			return nil
		}
		if dir == "main" {
			dir = "."
		}
		if strings.HasSuffix(base, "_test.go") {
			if !native {
				return nil
			}
			ov[filepath.Join(repo, dir, "zz_verif_"+base)] = data
			return nil
		}
		ov[filepath.Join(repo, dir, "zz_verif_"+base)] = data
		return nil
	})
	return ov, err
}

func Load(cfg LoadConfig) (*Program, error) {
	ov, err := Overlay(cfg.Repo, cfg.HarnessDir, false)
	if err != nil {
		return nil, err
	}
	if cfg.GenDir != "" {
		if _, err := os.Stat(cfg.GenDir); err == nil {
			ov2, err := Overlay(cfg.Repo, cfg.GenDir, false)
			if err != nil {
				return nil, err
			}
			for k, v := range ov2 {
				ov[strings.Replace(k, "zz_verif_", "zz_verif_gen_", 1)] = v
			}
		}
	}
	for k, v := range cfg.Extra {
		ov[k] = v
	}
	pcfg := &packages.Config{
		Mode: packages.NeedName | packages.NeedFiles | packages.NeedCompiledGoFiles | packages.NeedImports |
			packages.NeedDeps | packages.NeedTypes | packages.NeedSyntax | packages.NeedTypesInfo | packages.NeedTypesSizes | packages.NeedModule,
		Dir:     cfg.Repo,
		Env:     append(os.Environ(), "GOFLAGS=-mod=mod", "GOPROXY=off", "GOSUMDB=off", "GOTOOLCHAIN=local", "CGO_ENABLED=0"),
		Overlay: ov,
	}
	pkgs, err := packages.Load(pcfg, cfg.Patterns...)
	if err != nil {
		return nil, err
	}
	var errs []string
	packages.Visit(pkgs, nil, func(p *packages.Package) {
		for _, e := range p.Errors {
			errs = append(errs, e.Error())
		}
	})
	if len(errs) > 0 {
		return nil, fmt.Errorf("load errors:\n%s", strings.Join(errs, "\n"))
	}
	prog, spkgs := ssautil.AllPackages(pkgs, ssa.InstantiateGenerics)
	prog.Build()
	p := &Program{Prog: prog, fnInfos: map[*ssa.Function]*fnInfo{}, MainPkgs: map[string]*ssa.Package{}}
	for i, sp := range spkgs {
		if sp != nil {
			p.Pkgs = append(p.Pkgs, sp)
			p.MainPkgs[pkgs[i].PkgPath] = sp
		}
	}
	if len(pkgs) > 0 && pkgs[0].TypesSizes != nil {
		p.Sizes = pkgs[0].TypesSizes
	} else {
		p.Sizes = types.SizesFor("gc", "amd64")
	}
	rt := prog.ImportedPackage("runtime")
	if rt == nil {
		return nil, fmt.Errorf("SSA program does not include package runtime")
	}
	p.rtErrString = rt.Type("errorString").Object().Type()
	p.rtPlain = rt.Type("plainError").Object().Type()
	if ep := prog.ImportedPackage("errors"); ep != nil {
		p.errorString = types.NewPointer(ep.Type("errorString").Object().Type())
	}
	if rp := prog.ImportedPackage("reflect"); rp != nil {
		p.reflectPkg = rp
		p.rtypePtrT = types.NewPointer(rp.Type("rtype").Object().Type())
	}
	p.InitAllow = func(path string) bool {
		if strings.HasPrefix(path, "github.com/mattn/anko") {
			return true
		}
		switch path {
		case "context", "strings", "bytes", "sort", "unicode/utf8", "io", "math", "strconv", "regexp/syntax", "regexp", "flag":
			return true
		}
		return false
	}
	return p, nil
}

func (p *Program) rtErrorPlain() types.Type { return p.rtPlain }

// FileHashes returns the SHA-256 of every source file that contributed a
// function in fns (function names as in Stats.Fns).
func (p *Program) FileHashes(fns map[string]int, repo string) map[string]string {
	files := map[string]bool{}
	for _, pkg := range p.Prog.AllPackages() {
		for _, m := range pkg.Members {
			fn, ok := m.(*ssa.Function)
			if !ok {
				continue
			}
			if fns[fn.String()] > 0 {
				files[p.Prog.Fset.Position(fn.Pos()).Filename] = true
			}
		}
	}
	// methods and closures: fall back on scanning all functions
	for fn := range ssautil.AllFunctions(p.Prog) {
		if fns[fn.String()] > 0 && fn.Pos().IsValid() {
			files[p.Prog.Fset.Position(fn.Pos()).Filename] = true
		}
	}
	out := map[string]string{}
	var names []string
	for f := range files {
		if strings.HasPrefix(f, repo) && !strings.Contains(f, "zz_verif_") && !strings.Contains(f, "/zzverif/") {
			names = append(names, f)
		}
	}
	sort.Strings(names)
	for _, f := range names {
		data, err := os.ReadFile(f)
		if err != nil {
			continue
		}
		out[strings.TrimPrefix(f, repo+"/")] = fmt.Sprintf("%x", sha256.Sum256(data))
	}
	return out
}
