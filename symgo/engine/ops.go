// Copyright 2013 The Go Authors. All rights reserved.
// Use of this source code is governed by a BSD-style
// license that can be found in the LICENSE file.

// Portions derived from golang.org/x/tools/go/ssa/interp (BSD-style licence,
// Copyright 2013 The Go Authors).

package engine

import (
	"bytes"
	"fmt"
	"go/constant"
	"go/token"
	"go/types"
	"os"
	"unicode/utf8"
	"unsafe"

	"golang.org/x/tools/go/ssa"
)

// constValue returns the value of the constant with the
// dynamic type tag appropriate for c.Type().
func constValue(c *ssa.Const) value {
	if c.Value == nil {
		return zero(c.Type()) // typed zero
	}
	// c is not a type parameter so it's underlying type is basic.

	if t, ok := c.Type().Underlying().(*types.Basic); ok {
		// TODO(adonovan): eliminate untyped constants from SSA form.
		switch t.Kind() {
		case types.Bool, types.UntypedBool:
			return constant.BoolVal(c.Value)
		case types.Int, types.UntypedInt:
			// Assume sizeof(int) is same on host and target.
			return int(c.Int64())
		case types.Int8:
			return int8(c.Int64())
		case types.Int16:
			return int16(c.Int64())
		case types.Int32, types.UntypedRune:
			return int32(c.Int64())
		case types.Int64:
			return c.Int64()
		case types.Uint:
			// Assume sizeof(uint) is same on host and target.
			return uint(c.Uint64())
		case types.Uint8:
			return uint8(c.Uint64())
		case types.Uint16:
			return uint16(c.Uint64())
		case types.Uint32:
			return uint32(c.Uint64())
		case types.Uint64:
			return c.Uint64()
		case types.Uintptr:
			// Assume sizeof(uintptr) is same on host and target.
			return uintptr(c.Uint64())
		case types.Float32:
			return float32(c.Float64())
		case types.Float64, types.UntypedFloat:
			return c.Float64()
		case types.Complex64:
			return complex64(c.Complex128())
		case types.Complex128, types.UntypedComplex:
			return c.Complex128()
		case types.String, types.UntypedString:
			if c.Value.Kind() == constant.String {
				return constant.StringVal(c.Value)
			}
			return string(rune(c.Int64()))
		}
	}

	panic(fmt.Sprintf("constValue: %s", c))
}

// fitsInt returns true if x fits in type int according to sizes.
func fitsInt(x int64, sizes types.Sizes) bool {
	intSize := sizes.Sizeof(types.Typ[types.Int])
	if intSize < sizes.Sizeof(types.Typ[types.Int64]) {
		maxInt := int64(1)<<((intSize*8)-1) - 1
		minInt := -int64(1) << ((intSize * 8) - 1)
		return minInt <= x && x <= maxInt
	}
	return true
}

// asInt64 converts x, which must be an integer, to an int64.
//
// Callers that need a value directly usable as an int should combine this with fitsInt().
func asInt64(x value) int64 {
	switch x := x.(type) {
	case int:
		return int64(x)
	case int8:
		return int64(x)
	case int16:
		return int64(x)
	case int32:
		return int64(x)
	case int64:
		return x
	case uint:
		return int64(x)
	case uint8:
		return int64(x)
	case uint16:
		return int64(x)
	case uint32:
		return int64(x)
	case uint64:
		return int64(x)
	case uintptr:
		return int64(x)
	}
	panic(fmt.Sprintf("cannot convert %T to int64", x))
}

// asUint64 converts x, which must be an unsigned integer, to a uint64
// suitable for use as a bitwise shift count.
func asUint64(x value) uint64 {
	switch x := x.(type) {
	case uint:
		return uint64(x)
	case uint8:
		return uint64(x)
	case uint16:
		return uint64(x)
	case uint32:
		return uint64(x)
	case uint64:
		return x
	case uintptr:
		return uint64(x)
	}
	panic(fmt.Sprintf("cannot convert %T to uint64", x))
}

// asUnsigned returns the value of x, which must be an integer type, as its equivalent unsigned type,
// and returns true if x is non-negative.
func asUnsigned(x value) (value, bool) {
	switch x := x.(type) {
	case int:
		return uint(x), x >= 0
	case int8:
		return uint8(x), x >= 0
	case int16:
		return uint16(x), x >= 0
	case int32:
		return uint32(x), x >= 0
	case int64:
		return uint64(x), x >= 0
	case uint, uint8, uint32, uint64, uintptr:
		return x, true
	}
	panic(fmt.Sprintf("cannot convert %T to unsigned", x))
}

// slice returns x[lo:hi:max].  Any of lo, hi and max may be nil.
func (e *Engine) slice(t types.Type, x, lo, hi, max value) value {
	var Len, Cap int
	switch x := x.(type) {
	case string:
		Len = len(x)
		Cap = Len
	case symstr:
		Len = len(x.b)
		Cap = Len
	case []value:
		Len = len(x)
		Cap = cap(x)
	case *value: // *array
		if x == nil {
			panic(rtPanic{"runtime error: invalid memory address or nil pointer dereference"})
		}
		a := (*x).(array)
		Len = len(a)
		Cap = cap(a)
	}
	l := int64(0)
	if lo != nil {
		l = e.concreteInt(lo, 0, int64(Cap))
	}
	h := int64(Len)
	if hi != nil {
		h = e.concreteInt(hi, 0, int64(Cap))
	}
	m := int64(Cap)
	if max != nil {
		m = e.concreteInt(max, 0, int64(Cap))
	}
	if l < 0 || h < l || m < h || m > int64(Cap) {
		panic(rtPanic{fmt.Sprintf("runtime error: slice bounds out of range [%d:%d:%d] with capacity %d", l, h, m, Cap)})
	}
	switch x := x.(type) {
	case string:
		return x[l:h]
	case symstr:
		return normStr(x.b[l:h])
	case []value:
		return x[l:h:m]
	case *value: // *array
		a := (*x).(array)
		return []value(a)[l:h:m]
	}
	panic(fmt.Sprintf("slice: unexpected X type: %T", x))
}

// lookup returns x[idx] where x is a map.
func (e *Engine) lookup(instr *ssa.Lookup, x, idx value) value {
	m, ok := x.(*omap)
	if !ok {
		panic(fmt.Sprintf("unexpected x type in Lookup: %T", x))
	}
	var v value
	found := false
	if k, isI := idx.(iface); isI {
		checkHashable(k)
	}
	if m != nil {
		if e.lockMon != nil {
			e.lockMon.accessObj(e, m, false)
		}
		if en := m.find(e, idx); en != nil {
			v, found = en.v, true
		}
	}
	if !found {
		v = zero(instr.X.Type().Underlying().(*types.Map).Elem())
	} else {
		v = copyVal(instr.X.Type().Underlying().(*types.Map).Elem(), v)
	}
	if instr.CommaOk {
		v = tuple{v, found}
	}
	return v
}

// binop implements all arithmetic and logical binary operators for
// numeric datatypes and strings.  Both operands must have identical
// dynamic type.
func (e *Engine) binop(op token.Token, t types.Type, x, y value) value {
	if isSym(x) || isSym(y) {
		return e.symBinop(op, x, y)
	}
	switch op {
	case token.QUO, token.REM:
		if k, ok := scalarKind(y); ok && !isFloatKind(k) {
			if asInt64(y) == 0 {
				panic(rtPanic{"runtime error: integer divide by zero"})
			}
		}
	case token.SHL, token.SHR:
		if k, ok := scalarKind(y); ok && isSigned(k) && asInt64(y) < 0 {
			panic(rtPanic{"runtime error: negative shift amount"})
		}
	}
	switch op {
	case token.ADD:
		switch x.(type) {
		case int:
			return x.(int) + y.(int)
		case int8:
			return x.(int8) + y.(int8)
		case int16:
			return x.(int16) + y.(int16)
		case int32:
			return x.(int32) + y.(int32)
		case int64:
			return x.(int64) + y.(int64)
		case uint:
			return x.(uint) + y.(uint)
		case uint8:
			return x.(uint8) + y.(uint8)
		case uint16:
			return x.(uint16) + y.(uint16)
		case uint32:
			return x.(uint32) + y.(uint32)
		case uint64:
			return x.(uint64) + y.(uint64)
		case uintptr:
			return x.(uintptr) + y.(uintptr)
		case float32:
			return x.(float32) + y.(float32)
		case float64:
			return x.(float64) + y.(float64)
		case complex64:
			return x.(complex64) + y.(complex64)
		case complex128:
			return x.(complex128) + y.(complex128)
		case string:
			return x.(string) + y.(string)
		}

	case token.SUB:
		switch x.(type) {
		case int:
			return x.(int) - y.(int)
		case int8:
			return x.(int8) - y.(int8)
		case int16:
			return x.(int16) - y.(int16)
		case int32:
			return x.(int32) - y.(int32)
		case int64:
			return x.(int64) - y.(int64)
		case uint:
			return x.(uint) - y.(uint)
		case uint8:
			return x.(uint8) - y.(uint8)
		case uint16:
			return x.(uint16) - y.(uint16)
		case uint32:
			return x.(uint32) - y.(uint32)
		case uint64:
			return x.(uint64) - y.(uint64)
		case uintptr:
			return x.(uintptr) - y.(uintptr)
		case float32:
			return x.(float32) - y.(float32)
		case float64:
			return x.(float64) - y.(float64)
		case complex64:
			return x.(complex64) - y.(complex64)
		case complex128:
			return x.(complex128) - y.(complex128)
		}

	case token.MUL:
		switch x.(type) {
		case int:
			return x.(int) * y.(int)
		case int8:
			return x.(int8) * y.(int8)
		case int16:
			return x.(int16) * y.(int16)
		case int32:
			return x.(int32) * y.(int32)
		case int64:
			return x.(int64) * y.(int64)
		case uint:
			return x.(uint) * y.(uint)
		case uint8:
			return x.(uint8) * y.(uint8)
		case uint16:
			return x.(uint16) * y.(uint16)
		case uint32:
			return x.(uint32) * y.(uint32)
		case uint64:
			return x.(uint64) * y.(uint64)
		case uintptr:
			return x.(uintptr) * y.(uintptr)
		case float32:
			return x.(float32) * y.(float32)
		case float64:
			return x.(float64) * y.(float64)
		case complex64:
			return x.(complex64) * y.(complex64)
		case complex128:
			return x.(complex128) * y.(complex128)
		}

	case token.QUO:
		switch x.(type) {
		case int:
			return x.(int) / y.(int)
		case int8:
			return x.(int8) / y.(int8)
		case int16:
			return x.(int16) / y.(int16)
		case int32:
			return x.(int32) / y.(int32)
		case int64:
			return x.(int64) / y.(int64)
		case uint:
			return x.(uint) / y.(uint)
		case uint8:
			return x.(uint8) / y.(uint8)
		case uint16:
			return x.(uint16) / y.(uint16)
		case uint32:
			return x.(uint32) / y.(uint32)
		case uint64:
			return x.(uint64) / y.(uint64)
		case uintptr:
			return x.(uintptr) / y.(uintptr)
		case float32:
			return x.(float32) / y.(float32)
		case float64:
			return x.(float64) / y.(float64)
		case complex64:
			return x.(complex64) / y.(complex64)
		case complex128:
			return x.(complex128) / y.(complex128)
		}

	case token.REM:
		switch x.(type) {
		case int:
			return x.(int) % y.(int)
		case int8:
			return x.(int8) % y.(int8)
		case int16:
			return x.(int16) % y.(int16)
		case int32:
			return x.(int32) % y.(int32)
		case int64:
			return x.(int64) % y.(int64)
		case uint:
			return x.(uint) % y.(uint)
		case uint8:
			return x.(uint8) % y.(uint8)
		case uint16:
			return x.(uint16) % y.(uint16)
		case uint32:
			return x.(uint32) % y.(uint32)
		case uint64:
			return x.(uint64) % y.(uint64)
		case uintptr:
			return x.(uintptr) % y.(uintptr)
		}

	case token.AND:
		switch x.(type) {
		case int:
			return x.(int) & y.(int)
		case int8:
			return x.(int8) & y.(int8)
		case int16:
			return x.(int16) & y.(int16)
		case int32:
			return x.(int32) & y.(int32)
		case int64:
			return x.(int64) & y.(int64)
		case uint:
			return x.(uint) & y.(uint)
		case uint8:
			return x.(uint8) & y.(uint8)
		case uint16:
			return x.(uint16) & y.(uint16)
		case uint32:
			return x.(uint32) & y.(uint32)
		case uint64:
			return x.(uint64) & y.(uint64)
		case uintptr:
			return x.(uintptr) & y.(uintptr)
		}

	case token.OR:
		switch x.(type) {
		case int:
			return x.(int) | y.(int)
		case int8:
			return x.(int8) | y.(int8)
		case int16:
			return x.(int16) | y.(int16)
		case int32:
			return x.(int32) | y.(int32)
		case int64:
			return x.(int64) | y.(int64)
		case uint:
			return x.(uint) | y.(uint)
		case uint8:
			return x.(uint8) | y.(uint8)
		case uint16:
			return x.(uint16) | y.(uint16)
		case uint32:
			return x.(uint32) | y.(uint32)
		case uint64:
			return x.(uint64) | y.(uint64)
		case uintptr:
			return x.(uintptr) | y.(uintptr)
		}

	case token.XOR:
		switch x.(type) {
		case int:
			return x.(int) ^ y.(int)
		case int8:
			return x.(int8) ^ y.(int8)
		case int16:
			return x.(int16) ^ y.(int16)
		case int32:
			return x.(int32) ^ y.(int32)
		case int64:
			return x.(int64) ^ y.(int64)
		case uint:
			return x.(uint) ^ y.(uint)
		case uint8:
			return x.(uint8) ^ y.(uint8)
		case uint16:
			return x.(uint16) ^ y.(uint16)
		case uint32:
			return x.(uint32) ^ y.(uint32)
		case uint64:
			return x.(uint64) ^ y.(uint64)
		case uintptr:
			return x.(uintptr) ^ y.(uintptr)
		}

	case token.AND_NOT:
		switch x.(type) {
		case int:
			return x.(int) &^ y.(int)
		case int8:
			return x.(int8) &^ y.(int8)
		case int16:
			return x.(int16) &^ y.(int16)
		case int32:
			return x.(int32) &^ y.(int32)
		case int64:
			return x.(int64) &^ y.(int64)
		case uint:
			return x.(uint) &^ y.(uint)
		case uint8:
			return x.(uint8) &^ y.(uint8)
		case uint16:
			return x.(uint16) &^ y.(uint16)
		case uint32:
			return x.(uint32) &^ y.(uint32)
		case uint64:
			return x.(uint64) &^ y.(uint64)
		case uintptr:
			return x.(uintptr) &^ y.(uintptr)
		}

	case token.SHL:
		u, ok := asUnsigned(y)
		if !ok {
			panic(rtPanic{"runtime error: negative shift amount"})
		}
		y := asUint64(u)
		switch x.(type) {
		case int:
			return x.(int) << y
		case int8:
			return x.(int8) << y
		case int16:
			return x.(int16) << y
		case int32:
			return x.(int32) << y
		case int64:
			return x.(int64) << y
		case uint:
			return x.(uint) << y
		case uint8:
			return x.(uint8) << y
		case uint16:
			return x.(uint16) << y
		case uint32:
			return x.(uint32) << y
		case uint64:
			return x.(uint64) << y
		case uintptr:
			return x.(uintptr) << y
		}

	case token.SHR:
		u, ok := asUnsigned(y)
		if !ok {
			panic(rtPanic{"runtime error: negative shift amount"})
		}
		y := asUint64(u)
		switch x.(type) {
		case int:
			return x.(int) >> y
		case int8:
			return x.(int8) >> y
		case int16:
			return x.(int16) >> y
		case int32:
			return x.(int32) >> y
		case int64:
			return x.(int64) >> y
		case uint:
			return x.(uint) >> y
		case uint8:
			return x.(uint8) >> y
		case uint16:
			return x.(uint16) >> y
		case uint32:
			return x.(uint32) >> y
		case uint64:
			return x.(uint64) >> y
		case uintptr:
			return x.(uintptr) >> y
		}

	case token.LSS:
		switch x.(type) {
		case int:
			return x.(int) < y.(int)
		case int8:
			return x.(int8) < y.(int8)
		case int16:
			return x.(int16) < y.(int16)
		case int32:
			return x.(int32) < y.(int32)
		case int64:
			return x.(int64) < y.(int64)
		case uint:
			return x.(uint) < y.(uint)
		case uint8:
			return x.(uint8) < y.(uint8)
		case uint16:
			return x.(uint16) < y.(uint16)
		case uint32:
			return x.(uint32) < y.(uint32)
		case uint64:
			return x.(uint64) < y.(uint64)
		case uintptr:
			return x.(uintptr) < y.(uintptr)
		case float32:
			return x.(float32) < y.(float32)
		case float64:
			return x.(float64) < y.(float64)
		case string:
			return x.(string) < y.(string)
		}

	case token.LEQ:
		switch x.(type) {
		case int:
			return x.(int) <= y.(int)
		case int8:
			return x.(int8) <= y.(int8)
		case int16:
			return x.(int16) <= y.(int16)
		case int32:
			return x.(int32) <= y.(int32)
		case int64:
			return x.(int64) <= y.(int64)
		case uint:
			return x.(uint) <= y.(uint)
		case uint8:
			return x.(uint8) <= y.(uint8)
		case uint16:
			return x.(uint16) <= y.(uint16)
		case uint32:
			return x.(uint32) <= y.(uint32)
		case uint64:
			return x.(uint64) <= y.(uint64)
		case uintptr:
			return x.(uintptr) <= y.(uintptr)
		case float32:
			return x.(float32) <= y.(float32)
		case float64:
			return x.(float64) <= y.(float64)
		case string:
			return x.(string) <= y.(string)
		}

	case token.EQL:
		return e.eqnil(t, x, y)

	case token.NEQ:
		return e.notV(e.eqnil(t, x, y))

	case token.GTR:
		switch x.(type) {
		case int:
			return x.(int) > y.(int)
		case int8:
			return x.(int8) > y.(int8)
		case int16:
			return x.(int16) > y.(int16)
		case int32:
			return x.(int32) > y.(int32)
		case int64:
			return x.(int64) > y.(int64)
		case uint:
			return x.(uint) > y.(uint)
		case uint8:
			return x.(uint8) > y.(uint8)
		case uint16:
			return x.(uint16) > y.(uint16)
		case uint32:
			return x.(uint32) > y.(uint32)
		case uint64:
			return x.(uint64) > y.(uint64)
		case uintptr:
			return x.(uintptr) > y.(uintptr)
		case float32:
			return x.(float32) > y.(float32)
		case float64:
			return x.(float64) > y.(float64)
		case string:
			return x.(string) > y.(string)
		}

	case token.GEQ:
		switch x.(type) {
		case int:
			return x.(int) >= y.(int)
		case int8:
			return x.(int8) >= y.(int8)
		case int16:
			return x.(int16) >= y.(int16)
		case int32:
			return x.(int32) >= y.(int32)
		case int64:
			return x.(int64) >= y.(int64)
		case uint:
			return x.(uint) >= y.(uint)
		case uint8:
			return x.(uint8) >= y.(uint8)
		case uint16:
			return x.(uint16) >= y.(uint16)
		case uint32:
			return x.(uint32) >= y.(uint32)
		case uint64:
			return x.(uint64) >= y.(uint64)
		case uintptr:
			return x.(uintptr) >= y.(uintptr)
		case float32:
			return x.(float32) >= y.(float32)
		case float64:
			return x.(float64) >= y.(float64)
		case string:
			return x.(string) >= y.(string)
		}
	}
	panic(fmt.Sprintf("invalid binary op: %T %s %T", x, op, y))
}

// eqnil returns the comparison x == y using the equivalence relation
// appropriate for type t.
func (e *Engine) eqnil(t types.Type, x, y value) value {
	switch t.Underlying().(type) {
	case *types.Map, *types.Signature, *types.Slice:
		return isNilRef(x) == isNilRef(y) && (isNilRef(x) || sameRef(x, y))
	}
	return equalsV(e, t, x, y)
}

func sameRef(x, y value) bool {
	// only reachable through nil comparisons in well-typed programs
	return false
}

func isNilRef(x value) bool {
	switch x := x.(type) {
	case *omap:
		return x == nil
	case *ssa.Function:
		return x == nil
	case *closure:
		return x == nil
	case []value:
		return x == nil
	case *ssa.Builtin:
		return x == nil
	}
	panic(fmt.Sprintf("isNilRef: illegal dynamic type: %T", x))
}

func (e *Engine) unop(fr *frame, instr *ssa.UnOp, x value) value {
	if s, ok := x.(sv); ok {
		return e.symUnop(instr.Op, s)
	}
	switch instr.Op {
	case token.ARROW: // receive
		v, ok := e.chanRecv(x.(*channel))
		if !ok {
			v = zero(instr.X.Type().Underlying().(*types.Chan).Elem())
		}
		if instr.CommaOk {
			v = tuple{v, ok}
		}
		return v
	case token.SUB:
		switch x := x.(type) {
		case int:
			return -x
		case int8:
			return -x
		case int16:
			return -x
		case int32:
			return -x
		case int64:
			return -x
		case uint:
			return -x
		case uint8:
			return -x
		case uint16:
			return -x
		case uint32:
			return -x
		case uint64:
			return -x
		case uintptr:
			return -x
		case float32:
			return -x
		case float64:
			return -x
		case complex64:
			return -x
		case complex128:
			return -x
		}
	case token.MUL:
		if sp, ok := x.(*symptr); ok {
			return e.mergeLoad(sp)
		}
		p := x.(*value)
		if p == nil {
			panic(rtPanic{"runtime error: invalid memory address or nil pointer dereference"})
		}
		if e.lockMon != nil {
			e.lockMon.access(e, fr, p, false)
		}
		return load(deref(instr.X.Type()), p)
	case token.NOT:
		return !x.(bool)
	case token.XOR:
		switch x := x.(type) {
		case int:
			return ^x
		case int8:
			return ^x
		case int16:
			return ^x
		case int32:
			return ^x
		case int64:
			return ^x
		case uint:
			return ^x
		case uint8:
			return ^x
		case uint16:
			return ^x
		case uint32:
			return ^x
		case uint64:
			return ^x
		case uintptr:
			return ^x
		}
	}
	panic(fmt.Sprintf("invalid unary op %s %T", instr.Op, x))
}

// typeAssert checks whether dynamic type of itf is instr.AssertedType.
func (e *Engine) typeAssert(instr *ssa.TypeAssert, itf iface) value {
	var v value
	err := ""
	if itf.t == nil {
		err = fmt.Sprintf("interface conversion: interface is nil, not %s", instr.AssertedType)
	} else if idst, ok := instr.AssertedType.Underlying().(*types.Interface); ok {
		v = itf
		err = e.checkInterface(idst, itf)
	} else if types.Identical(itf.t, instr.AssertedType) {
		v = itf.v // extract value
	} else {
		err = fmt.Sprintf("interface conversion: interface is %s, not %s", itf.t, instr.AssertedType)
	}
	if err != "" {
		if !instr.CommaOk {
			panic(rtPanic{err})
		}
		return tuple{zero(instr.AssertedType), false}
	}
	if instr.CommaOk {
		return tuple{v, true}
	}
	return v
}

// callBuiltin interprets a call to builtin fn with arguments args.
func (e *Engine) callBuiltin(caller *frame, callpos token.Pos, fn *ssa.Builtin, args []value) value {
	switch fn.Name() {
	case "append":
		if len(args) == 1 {
			return args[0]
		}
		arg0 := args[0].([]value)
		var extra []value
		switch s := args[1].(type) {
		case string, symstr:
			extra = strBytes(s)
		case []value:
			extra = s
		}
		if len(extra) == 0 {
			return arg0
		}
		if e.frozen != nil && len(arg0)+len(extra) <= cap(arg0) {
			full := arg0[:cap(arg0)]
			e.checkFrozen(&full[len(arg0)])
		}
		if int64(len(arg0)+len(extra)) > e.MaxAlloc {
			panic(pathAbort{"resource", "append beyond allocation bound"})
		}
		elemT := fn.Type().(*types.Signature).Params().At(0).Type().Underlying().(*types.Slice).Elem()
		// the appended elements are the ones extra held when the operation
		// started, also when both operands share storage (memmove semantics)
		snap := make([]value, len(extra))
		for i, x := range extra {
			snap[i] = copyVal(elemT, x)
		}
		return append(arg0, snap...)

	case "copy": // copy([]T, []T) int or copy([]byte, string) int
		var src []value
		switch s := args[1].(type) {
		case string, symstr:
			src = strBytes(s)
		case []value:
			src = s
		}
		dst := args[0].([]value)
		n := len(dst)
		if len(src) < n {
			n = len(src)
		}
		if e.frozen != nil && n > 0 {
			e.checkFrozen(&dst[0])
		}
		elemT := fn.Type().(*types.Signature).Params().At(0).Type().Underlying().(*types.Slice).Elem()
		tmp := make([]value, n)
		for i := 0; i < n; i++ {
			tmp[i] = copyVal(elemT, src[i])
		}
		copy(dst, tmp)
		return n

	case "close": // close(chan T)
		e.chanClose(args[0].(*channel))
		return nil

	case "delete": // delete(map[K]value, K)
		m := args[0].(*omap)
		if m != nil {
			if e.frozen != nil {
				e.checkFrozenObj(m)
			}
			if e.lockMon != nil {
				e.lockMon.accessObj(e, m, true)
			}
			if k, ok := args[1].(iface); ok {
				checkHashable(k)
			}
			m.delete(e, args[1])
		}
		return nil

	case "clear":
		switch m := args[0].(type) {
		case *omap:
			if m != nil {
				for _, en := range m.live() {
					m.delete(e, en.k)
				}
			}
		default:
			panic(unsupported{"clear of non-map"})
		}
		return nil

	case "print", "println": // print(any, ...)
		ln := fn.Name() == "println"
		var buf bytes.Buffer
		for i, arg := range args {
			if i > 0 && ln {
				buf.WriteRune(' ')
			}
			buf.WriteString(toString(arg))
		}
		if ln {
			buf.WriteRune('\n')
		}
		if os.Getenv("SYMGO_DEBUG") != "" {
			os.Stderr.Write(buf.Bytes())
		}
		return nil

	case "len":
		switch x := args[0].(type) {
		case string:
			return len(x)
		case symstr:
			return len(x.b)
		case array:
			return len(x)
		case *value:
			return len((*x).(array))
		case []value:
			return len(x)
		case *omap:
			if x == nil {
				return 0
			}
			if e.lockMon != nil {
				e.lockMon.accessObj(e, x, false)
			}
			return x.len()
		case *channel:
			if x == nil {
				return 0
			}
			return len(x.buf)
		default:
			panic(fmt.Sprintf("len: illegal operand: %T", x))
		}

	case "cap":
		switch x := args[0].(type) {
		case array:
			return cap(x)
		case *value:
			return cap((*x).(array))
		case []value:
			return cap(x)
		case *channel:
			if x == nil {
				return 0
			}
			return x.cap
		default:
			panic(fmt.Sprintf("cap: illegal operand: %T", x))
		}

	case "min":
		return foldLeft(func(a, b value) value { return e.minmax(a, b, true) }, args)
	case "max":
		return foldLeft(func(a, b value) value { return e.minmax(a, b, false) }, args)

	case "panic":
		panic(targetPanic{args[0]})

	case "recover":
		return doRecover(caller)

	case "ssa:wrapnilchk":
		recv := args[0]
		if recv.(*value) == nil {
			panic(rtPanic{fmt.Sprintf("value method (%s).%s called using nil *%s pointer", toString(args[1]), toString(args[2]), toString(args[1]))})
		}
		return recv

	case "ssa:deferstack":
		return &caller.defers
	}

	panic(unsupported{"unknown built-in: " + fn.Name()})
}

func (e *Engine) minmax(a, b value, isMin bool) value {
	if isSym(a) || isSym(b) {
		lt := e.symBinop(token.LSS, a, b)
		c := e.toTerm(lt)
		k, _ := scalarKind(a)
		if isMin {
			return e.fromTerm(e.tt.Ite(c, e.toTerm(a), e.toTerm(b)), k)
		}
		return e.fromTerm(e.tt.Ite(c, e.toTerm(b), e.toTerm(a)), k)
	}
	if isMin {
		return e.cmin(a, b)
	}
	return e.cmax(a, b)
}

func (e *Engine) rangeIter(x value, t types.Type) iter {
	switch x := x.(type) {
	case *omap:
		if x == nil {
			return &omapIter{}
		}
		e.noteNondet("map-iteration")
		if e.lockMon != nil {
			e.lockMon.accessObj(e, x, false)
		}
		return &omapIter{m: x, snap: x.live()}
	case string, symstr:
		return &stringIter{b: strBytes(x), e: e}
	}
	panic(fmt.Sprintf("cannot range over %T", x))
}

func decodeRune(b []byte) (rune, int) {
	return utf8.DecodeRune(b)
}

// widen widens a basic typed value x to the widest type of its
// category, one of:
//
//	bool, int64, uint64, float64, complex128, string.
//
// This is inefficient but reduces the size of the cross-product of
// cases we have to consider.
func widen(x value) value {
	switch y := x.(type) {
	case bool, int64, uint64, float64, complex128, string, unsafe.Pointer:
		return x
	case int:
		return int64(y)
	case int8:
		return int64(y)
	case int16:
		return int64(y)
	case int32:
		return int64(y)
	case uint:
		return uint64(y)
	case uint8:
		return uint64(y)
	case uint16:
		return uint64(y)
	case uint32:
		return uint64(y)
	case uintptr:
		return uint64(y)
	case float32:
		return float64(y)
	case complex64:
		return complex128(y)
	}
	panic(fmt.Sprintf("cannot widen %T", x))
}

// conv converts the value x of type t_src to type t_dst and returns
// the result.
// Possible cases are described with the ssa.Convert operator.
func (e *Engine) conv(t_dst, t_src types.Type, x value) value {
	ut_src := t_src.Underlying()
	ut_dst := t_dst.Underlying()
	if s, ok := x.(sv); ok {
		if bd, ok := ut_dst.(*types.Basic); ok {
			if bd.Kind() == types.String {
				// string(rune) of a symbolic integer: UTF-8 by length class
				return normStr(e.utf8Encode(s))
			}
			return e.convScalar(bd.Kind(), s)
		}
		panic(unsupported{"conversion of symbolic scalar to " + t_dst.String()})
	}
	if s, ok := x.(symstr); ok {
		switch ut_dst := ut_dst.(type) {
		case *types.Slice:
			res := make([]value, len(s.b))
			switch ut_dst.Elem().Underlying().(*types.Basic).Kind() {
			case types.Rune:
				for i, c := range s.b {
					if cs, ok := c.(sv); ok {
						e.assumeASCII(cs)
						res[i] = e.convScalar(types.Int32, cs)
					} else {
						if c.(uint8) >= 0x80 {
							panic(unsupported{"non-ASCII byte in symbolic string"})
						}
						res[i] = int32(c.(uint8))
					}
				}
				return res
			case types.Byte:
				copy(res, s.b)
				return res
			}
		case *types.Basic:
			if ut_dst.Kind() == types.String {
				return s
			}
		}
		panic(unsupported{"conversion of symbolic string to " + t_dst.String()})
	}

	// Destination type is not an "untyped" type.
	if b, ok := ut_dst.(*types.Basic); ok && b.Info()&types.IsUntyped != 0 {
		panic("oops: conversion to 'untyped' type: " + b.String())
	}

	// Nor is it an interface type.
	if _, ok := ut_dst.(*types.Interface); ok {
		if _, ok := ut_src.(*types.Interface); ok {
			panic("oops: Convert should be ChangeInterface")
		} else {
			panic("oops: Convert should be MakeInterface")
		}
	}

	// Remaining conversions:
	//    + untyped string/number/bool constant to a specific
	//      representation.
	//    + conversions between non-complex numeric types.
	//    + conversions between complex numeric types.
	//    + integer/[]byte/[]rune -> string.
	//    + string -> []byte/[]rune.
	//
	// All are treated the same: first we extract the value to the
	// widest representation (int64, uint64, float64, complex128,
	// or string), then we convert it to the desired type.

	switch ut_src := ut_src.(type) {
	case *types.Pointer:
		switch ut_dst := ut_dst.(type) {
		case *types.Basic:
			// *value to unsafe.Pointer?
			if ut_dst.Kind() == types.UnsafePointer {
				return unsafe.Pointer(x.(*value))
			}
		}

	case *types.Slice:
		// []byte or []rune -> string
		switch ut_src.Elem().Underlying().(*types.Basic).Kind() {
		case types.Byte:
			x := x.([]value)
			return normStr(append([]value{}, x...))

		case types.Rune:
			x := x.([]value)
			anySym := false
			for i := range x {
				if _, ok := x[i].(sv); ok {
					anySym = true
				}
			}
			if anySym {
				var out []value
				for i := range x {
					switch c := x[i].(type) {
					case sv:
						out = append(out, e.utf8Encode(c)...)
					case int32:
						for _, b := range []byte(string(c)) {
							out = append(out, b)
						}
					}
				}
				return normStr(out)
			}
			r := make([]rune, 0, len(x))
			for i := range x {
				r = append(r, x[i].(rune))
			}
			return string(r)
		}

	case *types.Basic:
		x = widen(x)

		// integer -> string?
		if ut_src.Info()&types.IsInteger != 0 {
			if ut_dst, ok := ut_dst.(*types.Basic); ok && ut_dst.Kind() == types.String {
				switch xi := x.(type) {
				case int64:
					if xi < 0 || xi > 0x10FFFF {
						return "\uFFFD"
					}
					return string(rune(xi))
				case uint64:
					if xi > 0x10FFFF {
						return "\uFFFD"
					}
					return string(rune(xi))
				}
			}
		}

		// string -> []rune, []byte or string?
		if s, ok := x.(string); ok {
			switch ut_dst := ut_dst.(type) {
			case *types.Slice:
				var res []value
				switch ut_dst.Elem().Underlying().(*types.Basic).Kind() {
				case types.Rune:
					for _, r := range []rune(s) {
						res = append(res, r)
					}
					return res
				case types.Byte:
					for _, b := range []byte(s) {
						res = append(res, b)
					}
					return res
				}
			case *types.Basic:
				if ut_dst.Kind() == types.String {
					return x.(string)
				}
			}
			break // fail: no other conversions for string
		}

		// unsafe.Pointer -> *value
		if ut_src.Kind() == types.UnsafePointer {
			// TODO(adonovan): this is wrong and cannot
			// really be fixed with the current design.
			//
			// return (*value)(x.(unsafe.Pointer))
			// creates a new pointer of a different
			// type but the underlying interface value
			// knows its "true" type and so cannot be
			// meaningfully used through the new pointer.
			//
			// To make this work, the interpreter needs to
			// simulate the memory layout of a real
			// compiled implementation.
			//
			// To at least preserve type-safety, we'll
			// just return the zero value of the
			// destination type.
			//
			// symgo: the cell is kept (nil stays nil); load() knows the one
			// pun it can model (string over the bytes of a slice) and reports
			// every other one as unsupported instead of a nil dereference
			// that the real program does not have.
			if up, ok := x.(unsafe.Pointer); ok && up != nil {
				if _, isPtr := ut_dst.(*types.Pointer); isPtr {
					return (*value)(up)
				}
			}
			return zero(t_dst)
		}

		// Conversions between complex numeric types?
		if ut_src.Info()&types.IsComplex != 0 {
			switch ut_dst.(*types.Basic).Kind() {
			case types.Complex64:
				return complex64(x.(complex128))
			case types.Complex128:
				return x.(complex128)
			}
			break // fail: no other conversions for complex
		}

		// Conversions between non-complex numeric types?
		if ut_src.Info()&types.IsNumeric != 0 {
			kind := ut_dst.(*types.Basic).Kind()
			switch x := x.(type) {
			case int64: // signed integer -> numeric?
				switch kind {
				case types.Int:
					return int(x)
				case types.Int8:
					return int8(x)
				case types.Int16:
					return int16(x)
				case types.Int32:
					return int32(x)
				case types.Int64:
					return int64(x)
				case types.Uint:
					return uint(x)
				case types.Uint8:
					return uint8(x)
				case types.Uint16:
					return uint16(x)
				case types.Uint32:
					return uint32(x)
				case types.Uint64:
					return uint64(x)
				case types.Uintptr:
					return uintptr(x)
				case types.Float32:
					return float32(x)
				case types.Float64:
					return float64(x)
				}

			case uint64: // unsigned integer -> numeric?
				switch kind {
				case types.Int:
					return int(x)
				case types.Int8:
					return int8(x)
				case types.Int16:
					return int16(x)
				case types.Int32:
					return int32(x)
				case types.Int64:
					return int64(x)
				case types.Uint:
					return uint(x)
				case types.Uint8:
					return uint8(x)
				case types.Uint16:
					return uint16(x)
				case types.Uint32:
					return uint32(x)
				case types.Uint64:
					return uint64(x)
				case types.Uintptr:
					return uintptr(x)
				case types.Float32:
					return float32(x)
				case types.Float64:
					return float64(x)
				}

			case float64: // floating point -> numeric?
				switch kind {
				case types.Int:
					return int(x)
				case types.Int8:
					return int8(x)
				case types.Int16:
					return int16(x)
				case types.Int32:
					return int32(x)
				case types.Int64:
					return int64(x)
				case types.Uint:
					return uint(x)
				case types.Uint8:
					return uint8(x)
				case types.Uint16:
					return uint16(x)
				case types.Uint32:
					return uint32(x)
				case types.Uint64:
					return uint64(x)
				case types.Uintptr:
					return uintptr(x)
				case types.Float32:
					return float32(x)
				case types.Float64:
					return float64(x)
				}
			}
		}
	}

	panic(unsupported{fmt.Sprintf("unsupported conversion: %s  -> %s, dynamic type %T", t_src, t_dst, x)})
}

// sliceToArrayPointer converts the value x of type slice to type t_dst
// a pointer to array and returns the result.
func sliceToArrayPointer(t_dst, t_src types.Type, x value) value {
	if _, ok := t_src.Underlying().(*types.Slice); ok {
		if ptr, ok := t_dst.Underlying().(*types.Pointer); ok {
			if arr, ok := ptr.Elem().Underlying().(*types.Array); ok {
				x := x.([]value)
				if arr.Len() > int64(len(x)) {
					panic("array length is greater than slice length")
				}
				if x == nil {
					return zero(t_dst)
				}
				v := value(array(x[:arr.Len()]))
				return &v
			}
		}
	}

	panic(unsupported{fmt.Sprintf("unsupported conversion: %s  -> %s, dynamic type %T", t_src, t_dst, x)})
}

// checkInterface checks that the method set of x implements the
// interface itype.
// On success it returns "", on failure, an error message.
func (e *Engine) checkInterface(itype *types.Interface, x iface) string {
	if meth, _ := types.MissingMethod(x.t, itype, true); meth != nil {
		return fmt.Sprintf("interface conversion: %v is not %v: missing method %s",
			x.t, itype, meth.Name())
	}
	return "" // ok
}

func foldLeft(op func(value, value) value, args []value) value {
	x := args[0]
	for _, arg := range args[1:] {
		x = op(x, arg)
	}
	return x
}

func (e *Engine) cmin(x, y value) value {
	switch x := x.(type) {
	case float32:
		return fmin(x, y.(float32))
	case float64:
		return fmin(x, y.(float64))
	}
	if e.binop(token.LSS, nil, y, x).(bool) {
		return y
	}
	return x
}

func (e *Engine) cmax(x, y value) value {
	switch x := x.(type) {
	case float32:
		return fmax(x, y.(float32))
	case float64:
		return fmax(x, y.(float64))
	}
	if e.binop(token.GTR, nil, y, x).(bool) {
		return y
	}
	return x
}

// copied from $GOROOT/src/runtime/minmax.go

type floaty interface{ ~float32 | ~float64 }

func fmin[F floaty](x, y F) F {
	if y != y || y < x {
		return y
	}
	if x != x || x < y || x != 0 {
		return x
	}
	// x and y are both ±0
	// if either is -0, return -0; else return +0
	return forbits(x, y)
}

func fmax[F floaty](x, y F) F {
	if y != y || y > x {
		return y
	}
	if x != x || x > y || x != 0 {
		return x
	}
	// x and y are both ±0
	// if both are -0, return -0; else return +0
	return fandbits(x, y)
}

func forbits[F floaty](x, y F) F {
	switch unsafe.Sizeof(x) {
	case 4:
		*(*uint32)(unsafe.Pointer(&x)) |= *(*uint32)(unsafe.Pointer(&y))
	case 8:
		*(*uint64)(unsafe.Pointer(&x)) |= *(*uint64)(unsafe.Pointer(&y))
	}
	return x
}

func fandbits[F floaty](x, y F) F {
	switch unsafe.Sizeof(x) {
	case 4:
		*(*uint32)(unsafe.Pointer(&x)) &= *(*uint32)(unsafe.Pointer(&y))
	case 8:
		*(*uint64)(unsafe.Pointer(&x)) &= *(*uint64)(unsafe.Pointer(&y))
	}
	return x
}
