package engine

// Environment stubs: std-library functions that are not interpreted from
// their SSA (assembly, unsafe, runtime, or simply cheaper natively), the
// harness intrinsics of package zzverif, fmt, sync, sync/atomic.

import (
	"errors"
	"fmt"
	"go/token"
	"go/types"
	"math"
	"math/bits"
	"path/filepath"
	"reflect"
	"sort"
	"strconv"
	"strings"
	"unicode"
	"unicode/utf8"
)

type externalFn func(fr *frame, args []value) value

// Key strings are from Function.String().
var externals = make(map[string]externalFn)

// natives are pure functions over basic types, strings and slices of them,
// called through real reflection when every argument is concrete.
var natives = map[string]interface{}{
	"strings.HasPrefix":              strings.HasPrefix,
	"strings.HasSuffix":              strings.HasSuffix,
	"strings.Contains":               strings.Contains,
	"strings.ContainsRune":           strings.ContainsRune,
	"strings.ContainsAny":            strings.ContainsAny,
	"strings.Index":                  strings.Index,
	"strings.IndexByte":              strings.IndexByte,
	"strings.IndexRune":              strings.IndexRune,
	"strings.IndexAny":               strings.IndexAny,
	"strings.LastIndex":              strings.LastIndex,
	"strings.LastIndexByte":          strings.LastIndexByte,
	"strings.Repeat":                 strings.Repeat,
	"strings.ToLower":                strings.ToLower,
	"strings.ToUpper":                strings.ToUpper,
	"strings.TrimSpace":              strings.TrimSpace,
	"strings.Trim":                   strings.Trim,
	"strings.TrimLeft":               strings.TrimLeft,
	"strings.TrimRight":              strings.TrimRight,
	"strings.TrimPrefix":             strings.TrimPrefix,
	"strings.TrimSuffix":             strings.TrimSuffix,
	"strings.Split":                  strings.Split,
	"strings.SplitN":                 strings.SplitN,
	"strings.Join":                   strings.Join,
	"strings.Replace":                strings.Replace,
	"strings.ReplaceAll":             strings.ReplaceAll,
	"strings.Count":                  strings.Count,
	"strings.EqualFold":              strings.EqualFold,
	"strings.Fields":                 strings.Fields,
	"strings.Title":                  strings.Title,
	"strings.Compare":                strings.Compare,
	"strconv.ParseInt":               strconv.ParseInt,
	"strconv.ParseUint":              strconv.ParseUint,
	"strconv.ParseFloat":             strconv.ParseFloat,
	"strconv.ParseBool":              strconv.ParseBool,
	"strconv.Atoi":                   strconv.Atoi,
	"strconv.Itoa":                   strconv.Itoa,
	"strconv.FormatInt":              strconv.FormatInt,
	"strconv.FormatUint":             strconv.FormatUint,
	"strconv.FormatFloat":            strconv.FormatFloat,
	"strconv.FormatBool":             strconv.FormatBool,
	"strconv.Quote":                  strconv.Quote,
	"strconv.Unquote":                strconv.Unquote,
	"unicode.IsLetter":               unicode.IsLetter,
	"unicode.IsDigit":                unicode.IsDigit,
	"unicode.IsSpace":                unicode.IsSpace,
	"unicode.IsUpper":                unicode.IsUpper,
	"unicode.IsLower":                unicode.IsLower,
	"unicode.IsPunct":                unicode.IsPunct,
	"unicode.IsControl":              unicode.IsControl,
	"unicode.IsNumber":               unicode.IsNumber,
	"unicode.IsPrint":                unicode.IsPrint,
	"unicode.ToLower":                unicode.ToLower,
	"unicode.ToUpper":                unicode.ToUpper,
	"unicode/utf8.RuneLen":           utf8.RuneLen,
	"unicode/utf8.ValidString":       utf8.ValidString,
	"unicode/utf8.RuneCountInString": utf8.RuneCountInString,
	"unicode/utf8.ValidRune":         utf8.ValidRune,
	"math.Abs":                       math.Abs,
	"math.Floor":                     math.Floor,
	"math.Ceil":                      math.Ceil,
	"math.Trunc":                     math.Trunc,
	"math.Sqrt":                      math.Sqrt,
	"math.Pow":                       math.Pow,
	"math.Mod":                       math.Mod,
	"math.Log":                       math.Log,
	"math.Exp":                       math.Exp,
	"math.Inf":                       math.Inf,
	"math.NaN":                       math.NaN,
	"math.IsInf":                     math.IsInf,
	"math.Signbit":                   math.Signbit,
	"math.Copysign":                  math.Copysign,
	"math.Max":                       math.Max,
	"math.Min":                       math.Min,
	"math/bits.Len64":                bits.Len64,
	"math/bits.LeadingZeros64":       bits.LeadingZeros64,
	"math/bits.TrailingZeros64":      bits.TrailingZeros64,
	"math/bits.TrailingZeros":        bits.TrailingZeros,
	"path/filepath.Base":             filepath.Base,
	"path/filepath.Ext":              filepath.Ext,
}

// std functions whose SSA body is interpreted when an argument is symbolic
var interpretWhenSymbolic = map[string]bool{
	"strconv.ParseInt": true, "strconv.ParseUint": true, "strconv.Atoi": true, "strconv.ParseBool": true,
	"strings.TrimSpace": true, "strings.ToLower": true, "strings.ToUpper": true, "strings.Compare": true,
	"strings.TrimPrefix": true, "strings.TrimSuffix": true, "strings.EqualFold": true,
}

var errorIface = reflect.TypeOf((*error)(nil)).Elem()

// toNativeArg converts an engine value to a real Go value of type t.
func toNativeArg(v value, t reflect.Type) (reflect.Value, bool) {
	switch t.Kind() {
	case reflect.Bool, reflect.Int, reflect.Int8, reflect.Int16, reflect.Int32, reflect.Int64,
		reflect.Uint, reflect.Uint8, reflect.Uint16, reflect.Uint32, reflect.Uint64, reflect.Uintptr,
		reflect.Float32, reflect.Float64, reflect.String:
		if isSym(v) {
			return reflect.Value{}, false
		}
		rv := reflect.ValueOf(v)
		if !rv.IsValid() || !rv.Type().ConvertibleTo(t) || rv.Kind() != t.Kind() {
			return reflect.Value{}, false
		}
		return rv.Convert(t), true
	case reflect.Slice:
		s, ok := v.([]value)
		if !ok {
			return reflect.Value{}, false
		}
		out := reflect.MakeSlice(t, len(s), len(s))
		if s == nil {
			out = reflect.Zero(t)
		}
		for i, x := range s {
			e, ok := toNativeArg(x, t.Elem())
			if !ok {
				return reflect.Value{}, false
			}
			out.Index(i).Set(e)
		}
		return out, true
	}
	return reflect.Value{}, false
}

func (e *Engine) fromNative(rv reflect.Value) value {
	t := rv.Type()
	switch t.Kind() {
	case reflect.Bool:
		return rv.Bool()
	case reflect.Int:
		return int(rv.Int())
	case reflect.Int8:
		return int8(rv.Int())
	case reflect.Int16:
		return int16(rv.Int())
	case reflect.Int32:
		return int32(rv.Int())
	case reflect.Int64:
		return rv.Int()
	case reflect.Uint:
		return uint(rv.Uint())
	case reflect.Uint8:
		return uint8(rv.Uint())
	case reflect.Uint16:
		return uint16(rv.Uint())
	case reflect.Uint32:
		return uint32(rv.Uint())
	case reflect.Uint64:
		return rv.Uint()
	case reflect.Uintptr:
		return uintptr(rv.Uint())
	case reflect.Float32:
		return float32(rv.Float())
	case reflect.Float64:
		return rv.Float()
	case reflect.String:
		return rv.String()
	case reflect.Slice:
		if rv.IsNil() {
			return []value(nil)
		}
		out := make([]value, rv.Len())
		for i := range out {
			out[i] = e.fromNative(rv.Index(i))
		}
		return out
	case reflect.Interface:
		if t == errorIface {
			if rv.IsNil() {
				return iface{}
			}
			return e.newError(rv.Interface().(error).Error())
		}
	}
	panic(unsupported{"fromNative " + t.String()})
}

// newError builds an engine error value (*errors.errorString).
func (e *Engine) newError(msg string) value {
	var cell value = structure{msg}
	return iface{t: e.P.errorString, v: &cell}
}

func (e *Engine) callNative(name string, f interface{}, args []value) value {
	fv := reflect.ValueOf(f)
	ft := fv.Type()
	in := make([]reflect.Value, len(args))
	for i, a := range args {
		var pt reflect.Type
		if ft.IsVariadic() && i >= ft.NumIn()-1 {
			pt = ft.In(ft.NumIn() - 1)
		} else {
			pt = ft.In(i)
		}
		rv, ok := toNativeArg(a, pt)
		if !ok {
			if isSym(a) {
				return e.symNative(name, args)
			}
			panic(unsupported{fmt.Sprintf("native %s: argument %d (%T)", name, i, a)})
		}
		in[i] = rv
	}
	if name == "strings.Repeat" {
		n := in[1].Int()
		if n < 0 {
			panic(targetPanic{iface{types.Typ[types.String], "strings: negative Repeat count"}})
		}
		if int64(in[0].Len())*n > e.MaxAlloc {
			panic(pathAbort{"resource", "strings.Repeat beyond allocation bound"})
		}
	}
	var out []reflect.Value
	if ft.IsVariadic() {
		out = fv.CallSlice(in)
	} else {
		out = fv.Call(in)
	}
	switch len(out) {
	case 0:
		return nil
	case 1:
		return e.fromNative(out[0])
	}
	t := make(tuple, len(out))
	for i, o := range out {
		t[i] = e.fromNative(o)
	}
	return t
}

// symNative handles the few natives that accept symbolic arguments.
func (e *Engine) symNative(name string, args []value) value {
	tt := e.tt
	switch name {
	case "unicode.IsLetter", "unicode.IsDigit", "unicode.IsSpace", "unicode.IsUpper", "unicode.IsLower":
		r := args[0].(sv)
		w := r.t.S.Width()
		ascii := tt.BVCmp("bvult", r.t, tt.BVConst(w, 0x80))
		in := func(lo, hi rune) *Term {
			return tt.And(tt.BVCmp("bvule", tt.BVConst(w, uint64(lo)), r.t), tt.BVCmp("bvule", r.t, tt.BVConst(w, uint64(hi))))
		}
		if !e.fork(ascii) {
			// beyond ASCII: the predicate is membership in the real range table
			// of package unicode (the tables of the Go release the engine is
			// built with), as a disjunction of ranges with their strides
			if !e.fork(tt.BVCmp("bvult", r.t, tt.BVConst(w, 0x110000))) {
				panic(unsupported{name + " on a symbolic rune outside 0..0x10FFFF"})
			}
			var tab *unicode.RangeTable
			switch name {
			case "unicode.IsLetter":
				tab = unicode.Letter
			case "unicode.IsDigit":
				tab = unicode.Digit
			case "unicode.IsUpper":
				tab = unicode.Upper
			case "unicode.IsLower":
				tab = unicode.Lower
			case "unicode.IsSpace":
				tab = unicode.White_Space
			}
			f := tt.Bool(false)
			add := func(lo, hi, stride uint32) {
				if lo < 0x80 {
					if hi < 0x80 {
						return
					}
					lo += (0x80 - lo + stride - 1) / stride * stride
				}
				c := in(rune(lo), rune(hi))
				if stride > 1 && lo != hi {
					d := tt.BVBin("bvsub", r.t, tt.BVConst(w, uint64(lo)))
					c = tt.And(c, tt.Eq(tt.BVBin("bvurem", d, tt.BVConst(w, uint64(stride))), tt.BVConst(w, 0)))
				}
				f = tt.Or(f, c)
			}
			for _, x := range tab.R16 {
				add(uint32(x.Lo), uint32(x.Hi), uint32(x.Stride))
			}
			for _, x := range tab.R32 {
				add(x.Lo, x.Hi, x.Stride)
			}
			return e.fromTerm(f, types.Bool)
		}
		var f *Term
		switch name {
		case "unicode.IsLetter":
			f = tt.Or(in('a', 'z'), in('A', 'Z'))
		case "unicode.IsDigit":
			f = in('0', '9')
		case "unicode.IsUpper":
			f = in('A', 'Z')
		case "unicode.IsLower":
			f = in('a', 'z')
		case "unicode.IsSpace":
			f = tt.Or(in('\t', '\r'), tt.Eq(r.t, tt.BVConst(w, ' ')))
		}
		return e.fromTerm(f, types.Bool)
	case "strings.Repeat":
		if n, ok := args[1].(int); ok {
			if n < 0 {
				panic(targetPanic{iface{types.Typ[types.String], "strings: negative Repeat count"}})
			}
			b := strBytes(args[0])
			if int64(len(b)*n) > e.MaxAlloc {
				panic(pathAbort{"resource", "strings.Repeat beyond allocation bound"})
			}
			var out []value
			for i := 0; i < n; i++ {
				out = append(out, b...)
			}
			return normStr(out)
		}
	case "strings.Count":
		if sep, ok := args[1].(string); ok && len(sep) == 1 {
			// number of occurrences of one byte: a branch-free sum
			acc := tt.BVConst(64, 0)
			for _, c := range strBytes(args[0]) {
				acc = tt.BVBin("bvadd", acc, tt.Ite(tt.Eq(e.toTerm(c), tt.BVConst(8, uint64(sep[0]))), tt.BVConst(64, 1), tt.BVConst(64, 0)))
			}
			return e.fromTerm(acc, types.Int)
		}
	case "strings.IndexByte", "strings.Index", "strings.Contains", "strings.ContainsRune", "strings.IndexRune":
		var c value
		switch x := args[1].(type) {
		case string:
			if len(x) == 1 {
				c = x[0]
			}
		case uint8:
			c = x
		case int32:
			if x >= 0 && x < 0x80 {
				c = uint8(x)
			}
		case sv:
			if x.k == types.Uint8 {
				c = x
			} else if x.k == types.Int32 {
				e.assumeASCII(x)
				c = e.convScalar(types.Uint8, x)
			}
		}
		if c != nil {
			idx := -1
			for i, b := range strBytes(args[0]) {
				if e.fork(tt.Eq(e.toTerm(b), e.toTerm(c))) {
					idx = i
					break
				}
			}
			if strings.HasPrefix(name, "strings.Contains") {
				return idx >= 0
			}
			return idx
		}
	case "strings.HasSuffix":
		s, p := strBytes(args[0]), strBytes(args[1])
		if len(p) > len(s) {
			return false
		}
		return symStrEq(e, symstr{s[len(s)-len(p):]}, symstr{p})
	case "strings.HasPrefix":
		s, p := strBytes(args[0]), strBytes(args[1])
		if len(p) > len(s) {
			return false
		}
		return symStrEq(e, symstr{s[:len(p)]}, symstr{p})
	case "math.Abs":
		x := args[0].(sv)
		neg := tt.FPCmp("fp.lt", x.t, tt.F64Const(0))
		_ = neg
		// |x| clears the sign bit; expressed with fp.neg under an ite on the sign
		isNeg := tt.Or(tt.FPCmp("fp.lt", x.t, tt.F64Const(0)), tt.Eq(x.t, tt.F64Const(math.Copysign(0, -1))))
		return e.fromTerm(tt.Ite(isNeg, tt.FPNeg(x.t), x.t), types.Float64)
	}
	panic(unsupported{"symbolic argument to " + name})
}

func init() {
	for name, f := range natives {
		name, f := name, f
		externals[name] = func(fr *frame, args []value) value {
			if interpretWhenSymbolic[name] && fr.fn != nil && fr.fn.Blocks != nil {
				for _, a := range args {
					if isSym(a) {
						// the real std-library code is executed on the symbolic operand
						return fr.e.callSSAx(fr.caller, 0, fr.fn, args, nil, true)
					}
				}
			}
			return fr.e.callNative(name, f, args)
		}
	}
	ext := map[string]externalFn{
		"math.Float64bits": func(fr *frame, args []value) value {
			if s, ok := args[0].(sv); ok {
				return fr.e.floatBits(s)
			}
			return math.Float64bits(args[0].(float64))
		},
		"math.Float64frombits": func(fr *frame, args []value) value {
			if s, ok := args[0].(sv); ok {
				return fr.e.fromTerm(fr.e.tt.FPFromBits(s.t), types.Float64)
			}
			return math.Float64frombits(args[0].(uint64))
		},
		"math.Float32bits": func(fr *frame, args []value) value {
			if s, ok := args[0].(sv); ok {
				return fr.e.floatBits(s)
			}
			return math.Float32bits(args[0].(float32))
		},
		"math.Float32frombits": func(fr *frame, args []value) value {
			if s, ok := args[0].(sv); ok {
				return fr.e.fromTerm(fr.e.tt.FPFromBits(s.t), types.Float32)
			}
			return math.Float32frombits(args[0].(uint32))
		},
		"math.IsNaN": func(fr *frame, args []value) value {
			if s, ok := args[0].(sv); ok {
				return fr.e.fromTerm(fr.e.tt.FPIsNaN(s.t), types.Bool)
			}
			return math.IsNaN(args[0].(float64))
		},
		"os.Exit": func(fr *frame, args []value) value {
			panic(exitPanic(asInt64(args[0])))
		},
		"runtime.Gosched": func(fr *frame, args []value) value {
			fr.e.schedPoint("Gosched")
			return nil
		},
		"runtime.GC":           func(fr *frame, args []value) value { return nil },
		"runtime.KeepAlive":    func(fr *frame, args []value) value { return nil },
		"runtime.SetFinalizer": func(fr *frame, args []value) value { return nil },
		"time.Sleep": func(fr *frame, args []value) value {
			fr.e.schedPoint("Sleep")
			return nil
		},
		"sort.Strings": func(fr *frame, args []value) value {
			x := args[0].([]value)
			sort.SliceStable(x, func(i, j int) bool { return x[i].(string) < x[j].(string) })
			return nil
		},
		"sort.Ints": func(fr *frame, args []value) value {
			x := args[0].([]value)
			sort.SliceStable(x, func(i, j int) bool { return x[i].(int) < x[j].(int) })
			return nil
		},
		"bytes.Equal": func(fr *frame, args []value) value {
			a, b := args[0].([]value), args[1].([]value)
			return equalsV(fr.e, types.Typ[types.String], normStr(a), normStr(b))
		},
		"internal/bytealg.IndexByteString": func(fr *frame, args []value) value {
			return strings.IndexByte(args[0].(string), args[1].(byte))
		},
		"internal/bytealg.IndexByte": func(fr *frame, args []value) value {
			b := args[0].([]value)
			for i, c := range b {
				if c == args[1] {
					return i
				}
			}
			return -1
		},
		"internal/bytealg.CountString": func(fr *frame, args []value) value {
			return strings.Count(args[0].(string), string([]byte{args[1].(byte)}))
		},
		"internal/bytealg.MakeNoZero": func(fr *frame, args []value) value {
			n := asInt64(args[0])
			s := make([]value, n)
			for i := range s {
				s[i] = uint8(0)
			}
			return s
		},
		"internal/stringslite.HasPrefix": func(fr *frame, args []value) value {
			if isSym(args[0]) || isSym(args[1]) {
				return fr.e.symNative("strings.HasPrefix", args)
			}
			return strings.HasPrefix(args[0].(string), args[1].(string))
		},
		"internal/stringslite.HasSuffix": func(fr *frame, args []value) value {
			if isSym(args[0]) || isSym(args[1]) {
				return fr.e.symNative("strings.HasSuffix", args)
			}
			return strings.HasSuffix(args[0].(string), args[1].(string))
		},
		"internal/stringslite.Index": func(fr *frame, args []value) value {
			if isSym(args[0]) || isSym(args[1]) {
				return fr.e.symNative("strings.Index", args)
			}
			return strings.Index(args[0].(string), args[1].(string))
		},
		"internal/stringslite.IndexByte": func(fr *frame, args []value) value {
			if isSym(args[0]) || isSym(args[1]) {
				return fr.e.symNative("strings.IndexByte", args)
			}
			return strings.IndexByte(args[0].(string), args[1].(byte))
		},
		"unicode/utf8.DecodeRuneInString": func(fr *frame, args []value) value {
			switch s := args[0].(type) {
			case string:
				r, n := utf8.DecodeRuneInString(s)
				return tuple{r, n}
			case symstr:
				if len(s.b) == 0 {
					return tuple{utf8.RuneError, 0}
				}
				if c, ok := s.b[0].(sv); ok {
					fr.e.assumeASCII(c)
					return tuple{fr.e.convScalar(types.Int32, c), 1}
				}
				var buf []byte
				for _, c := range s.b {
					u, ok := c.(uint8)
					if !ok || len(buf) >= 4 {
						break
					}
					buf = append(buf, u)
				}
				r, n := utf8.DecodeRune(buf)
				return tuple{r, n}
			}
			panic(unsupported{"DecodeRuneInString"})
		},
		"unicode/utf8.EncodeRune": func(fr *frame, args []value) value {
			p := args[0].([]value)
			if s, ok := args[1].(sv); ok {
				fr.e.assumeASCII(s)
				p[0] = fr.e.convScalar(types.Uint8, s)
				return 1
			}
			var buf [4]byte
			n := utf8.EncodeRune(buf[:], args[1].(rune))
			for i := 0; i < n; i++ {
				p[i] = buf[i]
			}
			return n
		},
		"unicode/utf8.AppendRune": func(fr *frame, args []value) value {
			p := args[0].([]value)
			if s, ok := args[1].(sv); ok {
				fr.e.assumeASCII(s)
				return append(p, fr.e.convScalar(types.Uint8, s))
			}
			for _, b := range utf8.AppendRune(nil, args[1].(rune)) {
				p = append(p, b)
			}
			return p
		},
		"internal/stringslite.Clone": func(fr *frame, args []value) value { return args[0] },
		"strings.Clone":              func(fr *frame, args []value) value { return args[0] },
		"os.ReadFile":                extReadFile,
		"io/ioutil.ReadFile":         extReadFile,
		"errors.New": func(fr *frame, args []value) value {
			if s, ok := args[0].(string); ok {
				return fr.e.newError(s)
			}
			var cell value = structure{args[0]}
			return iface{t: fr.e.P.errorString, v: &cell}
		},
		// sync
		// sync/atomic on integers: plain loads and stores of the cell (one goroutine
		// runs at a time; the call is a schedule point like a lock operation is not
		// needed for the frame argument) - through the write barrier, so a counter
		// kept in a package-level variable is seen as the shared state it is
		// context.WithCancel & co.: the channel-only model in package zzverif (interpreted from its SSA)
		"context.WithCancel":   func(fr *frame, args []value) value { return fr.e.ctxModel(fr, args[:1]) },
		"context.WithTimeout":  func(fr *frame, args []value) value { return fr.e.ctxModel(fr, args[:1]) },
		"context.WithDeadline": func(fr *frame, args []value) value { return fr.e.ctxModel(fr, args[:1]) },
		"sync/atomic.AddInt64":   func(fr *frame, args []value) value { return fr.e.atomicAdd(args, types.Typ[types.Int64]) },
		"sync/atomic.AddInt32":   func(fr *frame, args []value) value { return fr.e.atomicAdd(args, types.Typ[types.Int32]) },
		"sync/atomic.AddUint64":  func(fr *frame, args []value) value { return fr.e.atomicAdd(args, types.Typ[types.Uint64]) },
		"sync/atomic.AddUint32":  func(fr *frame, args []value) value { return fr.e.atomicAdd(args, types.Typ[types.Uint32]) },
		"sync/atomic.LoadInt64":  func(fr *frame, args []value) value { return *args[0].(*value) },
		"sync/atomic.LoadInt32":  func(fr *frame, args []value) value { return *args[0].(*value) },
		"sync/atomic.LoadUint64": func(fr *frame, args []value) value { return *args[0].(*value) },
		"sync/atomic.LoadUint32": func(fr *frame, args []value) value { return *args[0].(*value) },
		"sync/atomic.StoreInt64": func(fr *frame, args []value) value {
			fr.e.store(types.Typ[types.Int64], args[0].(*value), args[1])
			return nil
		},
		"sync/atomic.StoreInt32": func(fr *frame, args []value) value {
			fr.e.store(types.Typ[types.Int32], args[0].(*value), args[1])
			return nil
		},
		"sync/atomic.StoreUint64": func(fr *frame, args []value) value {
			fr.e.store(types.Typ[types.Uint64], args[0].(*value), args[1])
			return nil
		},
		"sync/atomic.StoreUint32": func(fr *frame, args []value) value {
			fr.e.store(types.Typ[types.Uint32], args[0].(*value), args[1])
			return nil
		},
		"(*sync.Mutex).Lock":      func(fr *frame, args []value) value { fr.e.mutexLock(args[0].(*value)); return nil },
		"(*sync.Mutex).Unlock":    func(fr *frame, args []value) value { fr.e.mutexUnlock(args[0].(*value)); return nil },
		"(*sync.RWMutex).Lock":    func(fr *frame, args []value) value { fr.e.mutexLock(args[0].(*value)); return nil },
		"(*sync.RWMutex).Unlock":  func(fr *frame, args []value) value { fr.e.mutexUnlock(args[0].(*value)); return nil },
		"(*sync.RWMutex).RLock":   func(fr *frame, args []value) value { fr.e.mutexRLock(args[0].(*value)); return nil },
		"(*sync.RWMutex).RUnlock": func(fr *frame, args []value) value { fr.e.mutexRUnlock(args[0].(*value)); return nil },
		"(*sync.WaitGroup).Add": func(fr *frame, args []value) value {
			w := fr.e.waitgroup(args[0].(*value))
			w.n += asInt64(args[1])
			if w.n < 0 {
				panic(targetPanic{iface{types.Typ[types.String], "sync: negative WaitGroup counter"}})
			}
			return nil
		},
		"(*sync.WaitGroup).Done": func(fr *frame, args []value) value {
			w := fr.e.waitgroup(args[0].(*value))
			w.n--
			if w.n < 0 {
				panic(targetPanic{iface{types.Typ[types.String], "sync: negative WaitGroup counter"}})
			}
			fr.e.schedPoint("Done")
			return nil
		},
		"(*sync.WaitGroup).Wait": func(fr *frame, args []value) value {
			w := fr.e.waitgroup(args[0].(*value))
			fr.e.block("WaitGroup.Wait", func() bool { return w.n == 0 })
			return nil
		},
		"(*sync.Map).Load": func(fr *frame, args []value) value {
			m := fr.e.syncMap(args[0].(*value))
			if en := m.find(fr.e, args[1]); en != nil {
				return tuple{en.v, true}
			}
			return tuple{iface{}, false}
		},
		"(*sync.Map).Store": func(fr *frame, args []value) value {
			fr.e.syncMapWrite(args[0].(*value))
			fr.e.syncMap(args[0].(*value)).insert(fr.e, args[1], args[2])
			return nil
		},
		"(*sync.Map).LoadOrStore": func(fr *frame, args []value) value {
			m := fr.e.syncMap(args[0].(*value))
			if en := m.find(fr.e, args[1]); en != nil {
				return tuple{en.v, true}
			}
			fr.e.syncMapWrite(args[0].(*value))
			m.insert(fr.e, args[1], args[2])
			return tuple{args[2], false}
		},
		"(*sync.Map).Delete": func(fr *frame, args []value) value {
			fr.e.syncMapWrite(args[0].(*value))
			fr.e.syncMap(args[0].(*value)).delete(fr.e, args[1])
			return nil
		},
		"(*sync.Map).Range": func(fr *frame, args []value) value {
			for _, en := range fr.e.syncMap(args[0].(*value)).live() {
				r := fr.e.call(fr, 0, args[1], []value{en.k, en.v})
				if b, ok := r.(bool); ok && !b {
					break
				}
			}
			return nil
		},
		// sync.Pool model: a LIFO free list per Pool (the most eager reuse the real
		// per-P caches allow): Get hands back the item most recently Put, else New()
		"(*sync.Pool).Get": func(fr *frame, args []value) value {
			e := fr.e
			p := args[0].(*value)
			if l := e.syncPools[p]; len(l) > 0 {
				x := l[len(l)-1]
				e.syncPools[p] = l[:len(l)-1]
				return x
			}
			if st, ok := (*p).(structure); ok && len(st) > 0 {
				if newFn := st[len(st)-1]; newFn != nil && !payloadIsNil(newFn) {
					return e.call(fr, 0, newFn, nil)
				}
			}
			return iface{}
		},
		"(*sync.Pool).Put": func(fr *frame, args []value) value {
			e := fr.e
			p := args[0].(*value)
			if e.syncPools == nil {
				e.syncPools = map[*value][]value{}
			}
			if x, ok := args[1].(iface); ok && x.t == nil {
				return nil
			}
			e.syncPools[p] = append(e.syncPools[p], args[1])
			return nil
		},
		"(*sync.Once).Do": func(fr *frame, args []value) value {
			w := fr.e.waitgroup(args[0].(*value))
			if w.n == 0 {
				w.n = 1
				fr.e.call(fr, 0, args[1], nil)
			}
			return nil
		},
	}
	for k, v := range ext {
		externals[k] = v
	}
	initFmt()
	initZZ()
}

type wgState struct{ n int64 }

func (e *Engine) waitgroup(p *value) *wgState {
	if e.wgs == nil {
		e.wgs = map[*value]*wgState{}
	}
	w := e.wgs[p]
	if w == nil {
		w = &wgState{}
		e.wgs[p] = w
	}
	return w
}

// floatBits returns the IEEE bits of a symbolic float.
func (e *Engine) floatBits(s sv) value {
	k := types.Uint64
	if s.k == types.Float32 {
		k = types.Uint32
	}
	if s.t.Op == "fp.frombits" {
		return e.fromTerm(s.t.Args[0], k)
	}
	// fresh bit-vector b with to_fp(b) = s (NaN payload left free); one per term
	if b, ok := e.fbCache[s.t]; ok {
		return sv{b, k}
	}
	if e.fbCache == nil {
		e.fbCache = map[*Term]*Term{}
	}
	b := e.freshVar("fb", BV(kindWidth(s.k)))
	e.fbCache[s.t] = b
	e.addPC(e.tt.Eq(e.tt.FPFromBits(b), s.t))
	return sv{b, k}
}

// ---------------------------------------------------------------- fmt

// fmtArg converts an engine value into something real fmt can print with
// the same text the target would produce.
func (e *Engine) fmtArg(v value) interface{} {
	switch v := v.(type) {
	case iface:
		if v.t == nil {
			return nil
		}
		if isReflectValueType(v.t) {
			rv := v.v.(structure)
			if !rvIsValid(rv) {
				return "<invalid reflect.Value>"
			}
			return e.fmtTyped(rvType(rv), e.rvLoad(rv))
		}
		if _, ok := v.v.(rtype); ok {
			return typeString(v.v.(rtype).t)
		}
		if s, ok := e.errorString(v); ok {
			return errors.New(s)
		}
		if s, ok := e.stringerString(v); ok {
			return stringerWrap(s)
		}
		return e.fmtTyped(v.t, v.v)
	}
	return e.fmtTyped(nil, v)
}

type stringerWrap string

func (s stringerWrap) String() string { return string(s) }

type opaqueFmt string

func (o opaqueFmt) Format(f fmt.State, c rune) { f.Write([]byte(string(o))) }

func (e *Engine) fmtTyped(t types.Type, v value) interface{} {
	switch v := v.(type) {
	case bool, int, int8, int16, int32, int64, uint, uint8, uint16, uint32, uint64, uintptr, float32, float64, string, complex64, complex128:
		return v
	case sv:
		e.opaque++
		return opaqueFmt("<symbolic>")
	case symstr:
		e.opaque++
		return opaqueFmt("<symbolic string>")
	case iface:
		return e.fmtArg(v)
	case []value:
		if bt, ok := t.(*types.Slice); ok {
			if b, ok := bt.Elem().Underlying().(*types.Basic); ok && b.Kind() == types.Uint8 {
				if s, ok := normStr(v).(string); ok {
					return []byte(s)
				}
			}
		}
		out := make([]interface{}, len(v))
		var et types.Type
		if t != nil {
			if st, ok := t.Underlying().(*types.Slice); ok {
				et = st.Elem()
			}
		}
		for i, x := range v {
			out[i] = e.fmtTyped(et, x)
		}
		return out
	case array:
		out := make([]interface{}, len(v))
		for i, x := range v {
			out[i] = e.fmtTyped(nil, x)
		}
		return out
	case *omap:
		out := map[interface{}]interface{}{}
		if v != nil {
			for _, en := range v.live() {
				k := e.fmtTyped(nil, en.k)
				if !reflect.TypeOf(k).Comparable() {
					k = fmt.Sprint(k)
				}
				out[k] = e.fmtTyped(nil, en.v)
			}
		}
		return out
	case *value:
		if v == nil {
			return (*int)(nil)
		}
		return opaqueFmt(fmt.Sprintf("0xc%09x", e.addrOf(v)))
	case rtype:
		return opaqueFmt(typeString(v.t))
	case structure:
		if t != nil && isReflectValueType(t) {
			if !rvIsValid(v) {
				return opaqueFmt("<invalid reflect.Value>")
			}
			return e.fmtTyped(rvType(v), e.rvLoad(v))
		}
		out := make([]interface{}, len(v))
		for i, x := range v {
			out[i] = e.fmtTyped(nil, x)
		}
		return structFmt(out)
	case nil:
		return nil
	case *closure, *channel:
		return opaqueFmt("0xc000012345")
	}
	return opaqueFmt(fmt.Sprintf("<%T>", v))
}

type structFmt []interface{}

func (s structFmt) Format(f fmt.State, c rune) {
	f.Write([]byte("{"))
	for i, x := range s {
		if i > 0 {
			f.Write([]byte(" "))
		}
		fmt.Fprintf(f, "%"+string(c), x)
	}
	f.Write([]byte("}"))
}

func (e *Engine) addrOf(p *value) int {
	if e.addrs == nil {
		e.addrs = map[*value]int{}
	}
	if a, ok := e.addrs[p]; ok {
		return a
	}
	a := len(e.addrs)*16 + 0x1000
	e.addrs[p] = a
	return a
}

// errorString calls Error() on an engine error value.
func (e *Engine) errorString(v iface) (string, bool) {
	return e.callStringMethod(v, "Error")
}

func (e *Engine) stringerString(v iface) (string, bool) {
	return e.callStringMethod(v, "String")
}

func (e *Engine) callStringMethod(v iface, name string) (string, bool) {
	if v.t == nil {
		return "", false
	}
	ms := e.P.Prog.MethodSets.MethodSet(v.t)
	sel := ms.Lookup(nil, name)
	if sel == nil {
		// unexported package? try all
		for i := 0; i < ms.Len(); i++ {
			if ms.At(i).Obj().Name() == name {
				sel = ms.At(i)
				break
			}
		}
	}
	if sel == nil {
		return "", false
	}
	sig := sel.Type().(*types.Signature)
	if sig.Params().Len() != 0 || sig.Results().Len() != 1 {
		return "", false
	}
	if b, ok := sig.Results().At(0).Type().Underlying().(*types.Basic); !ok || b.Kind() != types.String {
		return "", false
	}
	fn := e.P.Prog.MethodValue(sel)
	if fn == nil {
		return "", false
	}
	if p, ok := v.v.(*value); ok && p == nil {
		return "<nil>", true
	}
	r := e.call(nil, 0, fn, []value{v.v})
	switch r := r.(type) {
	case string:
		return r, true
	case symstr:
		e.opaque++
		return "<symbolic string>", true
	}
	return "", false
}

func (e *Engine) sprintf(format value, args []value) string {
	f, ok := format.(string)
	if !ok {
		e.opaque++
		return "<symbolic format>"
	}
	as := make([]interface{}, len(args))
	for i, a := range args {
		as[i] = e.fmtArg(a)
	}
	return fmt.Sprintf(f, as...)
}

func (e *Engine) sprint(args []value, ln bool) string {
	as := make([]interface{}, len(args))
	for i, a := range args {
		as[i] = e.fmtArg(a)
	}
	if ln {
		return fmt.Sprintln(as...)
	}
	return fmt.Sprint(as...)
}

func initFmt() {
	externals["fmt.Sprintf"] = func(fr *frame, args []value) value {
		return fr.e.sprintf(args[0], args[1].([]value))
	}
	externals["fmt.Errorf"] = func(fr *frame, args []value) value {
		return fr.e.newError(fr.e.sprintf(args[0], args[1].([]value)))
	}
	externals["fmt.Sprint"] = func(fr *frame, args []value) value {
		return fr.e.sprint(args[0].([]value), false)
	}
	externals["fmt.Sprintln"] = func(fr *frame, args []value) value {
		return fr.e.sprint(args[0].([]value), true)
	}
	out := func(fr *frame, s string) value {
		fr.e.stdout = append(fr.e.stdout, s)
		return tuple{len(s), iface{}}
	}
	externals["fmt.Printf"] = func(fr *frame, args []value) value {
		return out(fr, fr.e.sprintf(args[0], args[1].([]value)))
	}
	externals["fmt.Print"] = func(fr *frame, args []value) value {
		return out(fr, fr.e.sprint(args[0].([]value), false))
	}
	externals["fmt.Println"] = func(fr *frame, args []value) value {
		return out(fr, fr.e.sprint(args[0].([]value), true))
	}
	externals["fmt.Fprintf"] = func(fr *frame, args []value) value {
		return out(fr, fr.e.sprintf(args[1], args[2].([]value)))
	}
	externals["fmt.Fprintln"] = func(fr *frame, args []value) value {
		return out(fr, fr.e.sprint(args[1].([]value), true))
	}
	externals["fmt.Fprint"] = func(fr *frame, args []value) value {
		return out(fr, fr.e.sprint(args[1].([]value), false))
	}
}

// extReadFile: the harness's virtual files (zzverif.SetFile); anything else
// does not exist.
func extReadFile(fr *frame, args []value) value {
	name, _ := args[0].(string)
	if content, ok := fr.e.files[name]; ok {
		b := make([]value, len(content))
		for i := 0; i < len(content); i++ {
			b[i] = content[i]
		}
		return tuple{b, iface{}}
	}
	return tuple{[]value(nil), fr.e.newError("open " + name + ": no such file or directory")}
}

// sync.Map model: an insertion-ordered map keyed by the Map's address.  A
// write to a sync.Map that is frozen (a package-level memo) is a frozen-write.
func (e *Engine) syncMap(p *value) *omap {
	if e.syncMaps == nil {
		e.syncMaps = map[*value]*omap{}
	}
	m := e.syncMaps[p]
	if m == nil {
		m = newOmap(types.NewInterfaceType(nil, nil))
		e.syncMaps[p] = m
	}
	return m
}

func (e *Engine) syncMapWrite(p *value) {
	if e.frozen != nil {
		e.checkFrozen(p)
	}
}

func (e *Engine) atomicAdd(args []value, t types.Type) value {
	p := args[0].(*value)
	if p == nil {
		panic(rtPanic{"runtime error: invalid memory address or nil pointer dereference"})
	}
	n := e.binop(token.ADD, t, *p, args[1])
	e.store(t, p, n)
	return n
}

func (e *Engine) ctxModel(fr *frame, args []value) value {
	for _, p := range e.P.Prog.AllPackages() {
		if strings.HasSuffix(p.Pkg.Path(), "/zzverif") {
			if fn := p.Func("WithCancel"); fn != nil {
				return e.callSSA(fr, token.NoPos, fn, args, nil)
			}
		}
	}
	panic(unsupported{"context.WithCancel: no model (package zzverif is not part of the program)"})
}
