package engine

// Terms: the symbolic scalar language handed to the SMT solvers.
//
// Sorts are Bool, bit-vectors of width 1..64 (plus wider ones used only by
// reference arithmetic in harness oracles), Float32 and Float64.  Constant
// folding happens in the constructors, so concrete executions never build
// terms that reach a solver.

import (
	"fmt"
	"math"
	"math/big"
	"strings"
)

type Sort int

const (
	SBool Sort = 0
	// 1..4096: bit-vector of that width
	SF32 Sort = 10032
	SF64 Sort = 10064
)

func BV(w int) Sort { return Sort(w) }

func (s Sort) IsBV() bool { return s >= 1 && s < 10000 }
func (s Sort) Width() int {
	switch s {
	case SF32:
		return 32
	case SF64:
		return 64
	}
	return int(s)
}
func (s Sort) SMT() string {
	switch {
	case s == SBool:
		return "Bool"
	case s == SF32:
		return "(_ FloatingPoint 8 24)"
	case s == SF64:
		return "(_ FloatingPoint 11 53)"
	}
	return fmt.Sprintf("(_ BitVec %d)", int(s))
}

type Term struct {
	Op   string // SMT operator, or "var", "const"
	S    Sort
	Args []*Term
	// const payload: for Bool 0/1; for BV<=64 the bits; floats: IEEE bits
	C uint64
	// wide constants (BV > 64)
	Big *big.Int
	// var name
	Name string
	// indexed-operator parameters (extract hi lo, zero_extend n, ...)
	P1, P2 int
	id     int
	key    string
}

func (t *Term) IsConst() bool { return t.Op == "const" }

// ---------------------------------------------------------------- construction

type TermTable struct {
	m    map[string]*Term
	next int
}

func NewTermTable() *TermTable { return &TermTable{m: map[string]*Term{}} }

func (tt *TermTable) intern(t *Term) *Term {
	var sb strings.Builder
	sb.WriteString(t.Op)
	fmt.Fprintf(&sb, ":%d:%d:%d:%x:%s", int(t.S), t.P1, t.P2, t.C, t.Name)
	if t.Big != nil {
		sb.WriteString(t.Big.Text(16))
	}
	for _, a := range t.Args {
		fmt.Fprintf(&sb, ",%d", a.id)
	}
	k := sb.String()
	if old, ok := tt.m[k]; ok {
		return old
	}
	tt.next++
	t.id = tt.next
	t.key = k
	tt.m[k] = t
	return t
}

func mask(w int) uint64 {
	if w >= 64 {
		return ^uint64(0)
	}
	return (uint64(1) << uint(w)) - 1
}

func (tt *TermTable) Bool(b bool) *Term {
	c := uint64(0)
	if b {
		c = 1
	}
	return tt.intern(&Term{Op: "const", S: SBool, C: c})
}

func (tt *TermTable) BVConst(w int, v uint64) *Term {
	if w > 64 {
		return tt.BigConst(w, new(big.Int).SetUint64(v))
	}
	return tt.intern(&Term{Op: "const", S: BV(w), C: v & mask(w)})
}

func (tt *TermTable) BigConst(w int, v *big.Int) *Term {
	m := new(big.Int).Lsh(big.NewInt(1), uint(w))
	x := new(big.Int).Mod(v, m)
	if w <= 64 {
		return tt.BVConst(w, x.Uint64())
	}
	return tt.intern(&Term{Op: "const", S: BV(w), Big: x})
}

func (tt *TermTable) F64Const(f float64) *Term {
	return tt.intern(&Term{Op: "const", S: SF64, C: math.Float64bits(f)})
}
func (tt *TermTable) F32Const(f float32) *Term {
	return tt.intern(&Term{Op: "const", S: SF32, C: uint64(math.Float32bits(f))})
}

func (tt *TermTable) Var(name string, s Sort) *Term {
	return tt.intern(&Term{Op: "var", S: s, Name: name})
}

func (t *Term) BoolVal() bool { return t.C != 0 }

func (t *Term) F64() float64 { return math.Float64frombits(t.C) }
func (t *Term) F32() float32 { return math.Float32frombits(uint32(t.C)) }

func sext(v uint64, w int) int64 {
	if w >= 64 {
		return int64(v)
	}
	sh := uint(64 - w)
	return int64(v<<sh) >> sh
}

func (t *Term) bigVal() *big.Int {
	if t.Big != nil {
		return t.Big
	}
	return new(big.Int).SetUint64(t.C)
}

func allConst(args ...*Term) bool {
	for _, a := range args {
		if !a.IsConst() {
			return false
		}
	}
	return true
}

// Not
func (tt *TermTable) Not(a *Term) *Term {
	if a.IsConst() {
		return tt.Bool(!a.BoolVal())
	}
	if a.Op == "not" {
		return a.Args[0]
	}
	return tt.intern(&Term{Op: "not", S: SBool, Args: []*Term{a}})
}

func (tt *TermTable) And(a, b *Term) *Term {
	if a.IsConst() {
		if a.BoolVal() {
			return b
		}
		return a
	}
	if b.IsConst() {
		if b.BoolVal() {
			return a
		}
		return b
	}
	if a == b {
		return a
	}
	return tt.intern(&Term{Op: "and", S: SBool, Args: []*Term{a, b}})
}

func (tt *TermTable) Or(a, b *Term) *Term {
	if a.IsConst() {
		if a.BoolVal() {
			return a
		}
		return b
	}
	if b.IsConst() {
		if b.BoolVal() {
			return b
		}
		return a
	}
	if a == b {
		return a
	}
	return tt.intern(&Term{Op: "or", S: SBool, Args: []*Term{a, b}})
}

func (tt *TermTable) Ite(c, a, b *Term) *Term {
	if c.IsConst() {
		if c.BoolVal() {
			return a
		}
		return b
	}
	if a == b {
		return a
	}
	if a.S == SBool && a.IsConst() && b.IsConst() {
		if a.BoolVal() && !b.BoolVal() {
			return c
		}
		if !a.BoolVal() && b.BoolVal() {
			return tt.Not(c)
		}
	}
	return tt.intern(&Term{Op: "ite", S: a.S, Args: []*Term{c, a, b}})
}

// Eq is structural equality of sort values ("=" in SMT-LIB).  For floats
// this is bit identity (NaN = NaN); use FPEq for IEEE equality.
func (tt *TermTable) Eq(a, b *Term) *Term {
	if a.S != b.S {
		panic(fmt.Sprintf("Eq sort mismatch %v %v", a.S, b.S))
	}
	if a == b {
		return tt.Bool(true)
	}
	if allConst(a, b) {
		if a.S == SF64 || a.S == SF32 {
			// all NaNs are one value in SMT-LIB
			an, bn := isNaNBits(a), isNaNBits(b)
			if an || bn {
				return tt.Bool(an && bn)
			}
		}
		if a.Big != nil || b.Big != nil {
			return tt.Bool(a.bigVal().Cmp(b.bigVal()) == 0)
		}
		return tt.Bool(a.C == b.C)
	}
	if a.S == SBool {
		if a.IsConst() {
			if a.BoolVal() {
				return b
			}
			return tt.Not(b)
		}
		if b.IsConst() {
			if b.BoolVal() {
				return a
			}
			return tt.Not(a)
		}
	}
	if a.id > b.id {
		a, b = b, a
	}
	return tt.intern(&Term{Op: "=", S: SBool, Args: []*Term{a, b}})
}

func isNaNBits(t *Term) bool {
	if t.S == SF64 {
		return math.IsNaN(t.F64())
	}
	return t.F32() != t.F32()
}

// BVBin builds a binary bit-vector operator (result sort = operand sort).
func (tt *TermTable) BVBin(op string, a, b *Term) *Term {
	if a.S != b.S || !a.S.IsBV() {
		panic(fmt.Sprintf("BVBin %s sort mismatch %v %v", op, a.S, b.S))
	}
	w := a.S.Width()
	if allConst(a, b) {
		if w > 64 {
			return tt.bigBin(op, w, a, b)
		}
		x, y := a.C, b.C
		var r uint64
		switch op {
		case "bvadd":
			r = x + y
		case "bvsub":
			r = x - y
		case "bvmul":
			r = x * y
		case "bvand":
			r = x & y
		case "bvor":
			r = x | y
		case "bvxor":
			r = x ^ y
		case "bvudiv":
			if y == 0 {
				r = mask(w)
			} else {
				r = x / y
			}
		case "bvurem":
			if y == 0 {
				r = x
			} else {
				r = x % y
			}
		case "bvsdiv":
			sx, sy := sext(x, w), sext(y, w)
			if sy == 0 {
				if sx >= 0 {
					r = mask(w)
				} else {
					r = 1
				}
			} else if sy == -1 {
				r = uint64(-sx)
			} else {
				r = uint64(sx / sy)
			}
		case "bvsrem":
			sx, sy := sext(x, w), sext(y, w)
			if sy == 0 {
				r = x
			} else if sy == -1 {
				r = 0
			} else {
				r = uint64(sx % sy)
			}
		case "bvshl":
			if y >= uint64(w) {
				r = 0
			} else {
				r = x << y
			}
		case "bvlshr":
			if y >= uint64(w) {
				r = 0
			} else {
				r = x >> y
			}
		case "bvashr":
			sx := sext(x, w)
			if y >= uint64(w) {
				if sx < 0 {
					r = mask(w)
				} else {
					r = 0
				}
			} else {
				r = uint64(sx >> y)
			}
		default:
			panic("BVBin const fold: " + op)
		}
		return tt.BVConst(w, r)
	}
	// light algebra
	switch op {
	case "bvadd", "bvor", "bvxor":
		if a.IsConst() && a.Big == nil && a.C == 0 {
			return b
		}
		if b.IsConst() && b.Big == nil && b.C == 0 {
			return a
		}
	case "bvsub", "bvshl", "bvlshr", "bvashr":
		if b.IsConst() && b.Big == nil && b.C == 0 {
			return a
		}
	}
	return tt.intern(&Term{Op: op, S: a.S, Args: []*Term{a, b}})
}

func (tt *TermTable) bigBin(op string, w int, a, b *Term) *Term {
	x, y := a.bigVal(), b.bigVal()
	r := new(big.Int)
	switch op {
	case "bvadd":
		r.Add(x, y)
	case "bvsub":
		r.Sub(x, y)
	case "bvmul":
		r.Mul(x, y)
	case "bvand":
		r.And(x, y)
	case "bvor":
		r.Or(x, y)
	case "bvxor":
		r.Xor(x, y)
	default:
		return tt.intern(&Term{Op: op, S: a.S, Args: []*Term{a, b}})
	}
	return tt.BigConst(w, r)
}

func (tt *TermTable) BVNot(a *Term) *Term {
	if a.IsConst() && a.Big == nil {
		return tt.BVConst(a.S.Width(), ^a.C)
	}
	return tt.intern(&Term{Op: "bvnot", S: a.S, Args: []*Term{a}})
}

func (tt *TermTable) BVNeg(a *Term) *Term {
	if a.IsConst() && a.Big == nil {
		return tt.BVConst(a.S.Width(), -a.C)
	}
	return tt.intern(&Term{Op: "bvneg", S: a.S, Args: []*Term{a}})
}

// BVCmp: bvult bvule bvslt bvsle (and the derived gt/ge by swapping).
func (tt *TermTable) BVCmp(op string, a, b *Term) *Term {
	if a.S != b.S || !a.S.IsBV() {
		panic(fmt.Sprintf("BVCmp %s sort mismatch %v %v", op, a.S, b.S))
	}
	switch op {
	case "bvugt":
		return tt.BVCmp("bvult", b, a)
	case "bvuge":
		return tt.BVCmp("bvule", b, a)
	case "bvsgt":
		return tt.BVCmp("bvslt", b, a)
	case "bvsge":
		return tt.BVCmp("bvsle", b, a)
	}
	w := a.S.Width()
	if allConst(a, b) {
		if w > 64 {
			x, y := a.bigVal(), b.bigVal()
			half := new(big.Int).Lsh(big.NewInt(1), uint(w-1))
			full := new(big.Int).Lsh(big.NewInt(1), uint(w))
			sx, sy := new(big.Int).Set(x), new(big.Int).Set(y)
			if sx.Cmp(half) >= 0 {
				sx.Sub(sx, full)
			}
			if sy.Cmp(half) >= 0 {
				sy.Sub(sy, full)
			}
			switch op {
			case "bvult":
				return tt.Bool(x.Cmp(y) < 0)
			case "bvule":
				return tt.Bool(x.Cmp(y) <= 0)
			case "bvslt":
				return tt.Bool(sx.Cmp(sy) < 0)
			case "bvsle":
				return tt.Bool(sx.Cmp(sy) <= 0)
			}
		}
		switch op {
		case "bvult":
			return tt.Bool(a.C < b.C)
		case "bvule":
			return tt.Bool(a.C <= b.C)
		case "bvslt":
			return tt.Bool(sext(a.C, w) < sext(b.C, w))
		case "bvsle":
			return tt.Bool(sext(a.C, w) <= sext(b.C, w))
		}
	}
	if a == b {
		return tt.Bool(op == "bvule" || op == "bvsle")
	}
	return tt.intern(&Term{Op: op, S: SBool, Args: []*Term{a, b}})
}

func (tt *TermTable) Extract(hi, lo int, a *Term) *Term {
	w := hi - lo + 1
	if lo == 0 && w == a.S.Width() {
		return a
	}
	if a.IsConst() {
		if a.Big != nil {
			return tt.BigConst(w, new(big.Int).Rsh(a.Big, uint(lo)))
		}
		return tt.BVConst(w, a.C>>uint(lo))
	}
	if (a.Op == "zero_extend" || a.Op == "sign_extend") && lo == 0 {
		in := a.Args[0]
		if w == in.S.Width() {
			return in
		}
		if w < in.S.Width() {
			return tt.Extract(hi, 0, in)
		}
	}
	return tt.intern(&Term{Op: "extract", S: BV(w), Args: []*Term{a}, P1: hi, P2: lo})
}

func (tt *TermTable) ZeroExt(n int, a *Term) *Term {
	if n == 0 {
		return a
	}
	w := a.S.Width() + n
	if a.IsConst() {
		if w > 64 {
			return tt.BigConst(w, a.bigVal())
		}
		return tt.BVConst(w, a.C)
	}
	return tt.intern(&Term{Op: "zero_extend", S: BV(w), Args: []*Term{a}, P1: n})
}

func (tt *TermTable) SignExt(n int, a *Term) *Term {
	if n == 0 {
		return a
	}
	w0 := a.S.Width()
	w := w0 + n
	if a.IsConst() && a.Big == nil {
		sv := sext(a.C, w0)
		if w > 64 {
			return tt.BigConst(w, big.NewInt(sv))
		}
		return tt.BVConst(w, uint64(sv))
	}
	return tt.intern(&Term{Op: "sign_extend", S: BV(w), Args: []*Term{a}, P1: n})
}

func (tt *TermTable) Concat(a, b *Term) *Term {
	w := a.S.Width() + b.S.Width()
	if allConst(a, b) && w <= 64 {
		return tt.BVConst(w, a.C<<uint(b.S.Width())|b.C)
	}
	return tt.intern(&Term{Op: "concat", S: BV(w), Args: []*Term{a, b}})
}

// ---------------------------------------------------------------- floats

func (tt *TermTable) fconst(s Sort, f float64) *Term {
	if s == SF32 {
		return tt.F32Const(float32(f))
	}
	return tt.F64Const(f)
}

func (t *Term) fval() float64 {
	if t.S == SF32 {
		return float64(t.F32())
	}
	return t.F64()
}

func (tt *TermTable) FPBin(op string, a, b *Term) *Term {
	if a.S != b.S {
		panic("FPBin sort mismatch")
	}
	if allConst(a, b) {
		if a.S == SF32 {
			x, y := a.F32(), b.F32()
			var r float32
			switch op {
			case "fp.add":
				r = x + y
			case "fp.sub":
				r = x - y
			case "fp.mul":
				r = x * y
			case "fp.div":
				r = x / y
			}
			return tt.F32Const(r)
		}
		x, y := a.F64(), b.F64()
		var r float64
		switch op {
		case "fp.add":
			r = x + y
		case "fp.sub":
			r = x - y
		case "fp.mul":
			r = x * y
		case "fp.div":
			r = x / y
		}
		return tt.F64Const(r)
	}
	return tt.intern(&Term{Op: op, S: a.S, Args: []*Term{a, b}})
}

func (tt *TermTable) FPNeg(a *Term) *Term {
	if a.IsConst() {
		if a.S == SF32 {
			return tt.F32Const(-a.F32())
		}
		return tt.F64Const(-a.F64())
	}
	return tt.intern(&Term{Op: "fp.neg", S: a.S, Args: []*Term{a}})
}

// FPCmp: fp.eq fp.lt fp.leq fp.gt fp.geq
func (tt *TermTable) FPCmp(op string, a, b *Term) *Term {
	if allConst(a, b) {
		x, y := a.fval(), b.fval()
		switch op {
		case "fp.eq":
			return tt.Bool(x == y)
		case "fp.lt":
			return tt.Bool(x < y)
		case "fp.leq":
			return tt.Bool(x <= y)
		case "fp.gt":
			return tt.Bool(x > y)
		case "fp.geq":
			return tt.Bool(x >= y)
		}
	}
	if r := tt.fpCmpIntConst(op, a, b); r != nil {
		return r
	}
	return tt.intern(&Term{Op: op, S: SBool, Args: []*Term{a, b}})
}

// fpCmpIntConst rewrites a comparison between float64(int x) and a float
// constant into an exact integer comparison: RNE conversion is monotone, so
// {x : conv(x) < c} is an initial segment whose end is found by binary search
// with the host's (IEEE, RNE) conversion.
func (tt *TermTable) fpCmpIntConst(op string, a, b *Term) *Term {
	swap := map[string]string{"fp.lt": "fp.gt", "fp.gt": "fp.lt", "fp.leq": "fp.geq", "fp.geq": "fp.leq", "fp.eq": "fp.eq"}
	if a.IsConst() && !b.IsConst() {
		a, b = b, a
		op = swap[op]
	}
	if !b.IsConst() || b.S != SF64 || a.S != SF64 {
		return nil
	}
	if a.Op != "fp.from_sbv" && a.Op != "fp.from_ubv" {
		return nil
	}
	x := a.Args[0]
	w := x.S.Width()
	if w > 64 {
		return nil
	}
	c := b.F64()
	if c != c {
		return tt.Bool(false)
	}
	signed := a.Op == "fp.from_sbv"
	// domain as big ints: [lo, hi]
	var lo, hi *big.Int
	if signed {
		lo = new(big.Int).Neg(new(big.Int).Lsh(big.NewInt(1), uint(w-1)))
		hi = new(big.Int).Sub(new(big.Int).Lsh(big.NewInt(1), uint(w-1)), big.NewInt(1))
	} else {
		lo = big.NewInt(0)
		hi = new(big.Int).Sub(new(big.Int).Lsh(big.NewInt(1), uint(w)), big.NewInt(1))
	}
	conv := func(v *big.Int) float64 {
		if signed {
			return float64(v.Int64())
		}
		return float64(v.Uint64())
	}
	// threshold: least v in [lo,hi] with pred(conv(v)); hi+1 if none
	thr := func(pred func(float64) bool) *big.Int {
		l, h := new(big.Int).Set(lo), new(big.Int).Add(hi, big.NewInt(1))
		for l.Cmp(h) < 0 {
			m := new(big.Int).Add(l, h)
			m.Rsh(m, 1) // floor for non-negative sums; adjust for negatives
			if new(big.Int).Add(l, h).Sign() < 0 && new(big.Int).Add(l, h).Bit(0) == 1 {
				// Rsh on negative big.Int rounds toward -inf already
			}
			if pred(conv(m)) {
				h = m
			} else {
				l = new(big.Int).Add(m, big.NewInt(1))
			}
		}
		return l
	}
	tge := thr(func(f float64) bool { return f >= c })
	tgt := thr(func(f float64) bool { return f > c })
	top := new(big.Int).Add(hi, big.NewInt(1))
	// x < T
	less := func(T *big.Int) *Term {
		if T.Cmp(top) >= 0 {
			return tt.Bool(true)
		}
		if T.Cmp(lo) <= 0 {
			return tt.Bool(false)
		}
		k := tt.BigConst(w, T)
		if signed {
			return tt.BVCmp("bvslt", x, k)
		}
		return tt.BVCmp("bvult", x, k)
	}
	switch op {
	case "fp.lt":
		return less(tge)
	case "fp.leq":
		return less(tgt)
	case "fp.geq":
		return tt.Not(less(tge))
	case "fp.gt":
		return tt.Not(less(tgt))
	case "fp.eq":
		return tt.And(tt.Not(less(tge)), less(tgt))
	}
	return nil
}

func (tt *TermTable) FPIsNaN(a *Term) *Term {
	if a.IsConst() {
		return tt.Bool(isNaNBits(a))
	}
	return tt.intern(&Term{Op: "fp.isNaN", S: SBool, Args: []*Term{a}})
}

// FPFromBits reinterprets a bit-vector as a float of the same width.
func (tt *TermTable) FPFromBits(a *Term) *Term {
	s := SF64
	if a.S.Width() == 32 {
		s = SF32
	}
	if a.IsConst() {
		return tt.intern(&Term{Op: "const", S: s, C: a.C})
	}
	return tt.intern(&Term{Op: "fp.frombits", S: s, Args: []*Term{a}})
}

// FPFromInt converts a signed/unsigned bit-vector to a float (RNE).
func (tt *TermTable) FPFromInt(s Sort, a *Term, signed bool) *Term {
	if a.IsConst() && a.Big == nil {
		var f float64
		if signed {
			f = float64(sext(a.C, a.S.Width()))
			if s == SF32 {
				return tt.F32Const(float32(sext(a.C, a.S.Width())))
			}
		} else {
			f = float64(a.C)
			if s == SF32 {
				return tt.F32Const(float32(a.C))
			}
		}
		return tt.F64Const(f)
	}
	op := "fp.from_sbv"
	if !signed {
		op = "fp.from_ubv"
	}
	return tt.intern(&Term{Op: op, S: s, Args: []*Term{a}})
}

// FPToFP converts between float widths (RNE).
func (tt *TermTable) FPToFP(s Sort, a *Term) *Term {
	if a.S == s {
		return a
	}
	if a.IsConst() {
		if s == SF32 {
			return tt.F32Const(float32(a.F64()))
		}
		return tt.F64Const(float64(a.F32()))
	}
	return tt.intern(&Term{Op: "fp.to_fp", S: s, Args: []*Term{a}})
}

// FPToInt converts a float to a w-bit integer with Go/amd64 semantics:
// truncation toward zero; NaN and out-of-range give 0x80..0 for signed
// 64/32-bit targets.  The guarded form is built by the caller (sym.go);
// this is the raw SMT operator (unspecified outside the range).
func (tt *TermTable) FPToIntRaw(w int, a *Term, signed bool) *Term {
	op := "fp.to_sbv"
	if !signed {
		op = "fp.to_ubv"
	}
	return tt.intern(&Term{Op: op, S: BV(w), Args: []*Term{a}, P1: w})
}

// ---------------------------------------------------------------- printing

// SMT renders t in SMT-LIB2 with let-bindings for shared subterms.
func (t *Term) SMT() string {
	// count references
	refs := map[*Term]int{}
	var walk func(x *Term)
	walk = func(x *Term) {
		refs[x]++
		if refs[x] > 1 {
			return
		}
		for _, a := range x.Args {
			walk(a)
		}
	}
	walk(t)
	names := map[*Term]string{}
	var lets []string
	var pr func(x *Term, top bool) string
	pr = func(x *Term, top bool) string {
		if n, ok := names[x]; ok {
			return n
		}
		var s string
		switch x.Op {
		case "const":
			s = constSMT(x)
		case "var":
			s = x.Name
		default:
			var parts []string
			for _, a := range x.Args {
				parts = append(parts, pr(a, false))
			}
			s = "(" + opSMT(x) + " " + strings.Join(parts, " ") + ")"
		}
		if !top && refs[x] > 1 && len(x.Args) > 0 {
			n := fmt.Sprintf("?t%d", x.id)
			names[x] = n
			lets = append(lets, fmt.Sprintf("(let ((%s %s)) ", n, s))
			return n
		}
		return s
	}
	body := pr(t, true)
	if len(lets) == 0 {
		return body
	}
	return strings.Join(lets, "") + body + strings.Repeat(")", len(lets))
}

func constSMT(x *Term) string {
	switch {
	case x.S == SBool:
		if x.C != 0 {
			return "true"
		}
		return "false"
	case x.S == SF64:
		return fmt.Sprintf("((_ to_fp 11 53) #x%016x)", x.C)
	case x.S == SF32:
		return fmt.Sprintf("((_ to_fp 8 24) #x%08x)", x.C)
	}
	w := x.S.Width()
	if x.Big != nil {
		return fmt.Sprintf("(_ bv%s %d)", x.Big.String(), w)
	}
	if w%4 == 0 {
		return fmt.Sprintf("#x%0*x", w/4, x.C)
	}
	return fmt.Sprintf("#b%0*b", w, x.C)
}

func fpParams(s Sort) string {
	if s == SF32 {
		return "8 24"
	}
	return "11 53"
}

func opSMT(x *Term) string {
	switch x.Op {
	case "extract":
		return fmt.Sprintf("(_ extract %d %d)", x.P1, x.P2)
	case "zero_extend":
		return fmt.Sprintf("(_ zero_extend %d)", x.P1)
	case "sign_extend":
		return fmt.Sprintf("(_ sign_extend %d)", x.P1)
	case "fp.add", "fp.sub", "fp.mul", "fp.div":
		return x.Op + " RNE"
	case "fp.frombits":
		return fmt.Sprintf("(_ to_fp %s)", fpParams(x.S))
	case "fp.from_sbv":
		return fmt.Sprintf("(_ to_fp %s) RNE", fpParams(x.S))
	case "fp.from_ubv":
		return fmt.Sprintf("(_ to_fp_unsigned %s) RNE", fpParams(x.S))
	case "fp.to_fp":
		return fmt.Sprintf("(_ to_fp %s) RNE", fpParams(x.S))
	case "fp.to_sbv":
		return fmt.Sprintf("(_ fp.to_sbv %d) RTZ", x.P1)
	case "fp.to_ubv":
		return fmt.Sprintf("(_ fp.to_ubv %d) RTZ", x.P1)
	}
	return x.Op
}

// Vars collects the free variables of the terms.
func Vars(ts ...*Term) []*Term {
	seen := map[*Term]bool{}
	var out []*Term
	var walk func(x *Term)
	walk = func(x *Term) {
		if seen[x] {
			return
		}
		seen[x] = true
		if x.Op == "var" {
			out = append(out, x)
		}
		for _, a := range x.Args {
			walk(a)
		}
	}
	for _, t := range ts {
		walk(t)
	}
	return out
}
