package engine

// Path exploration by stateless re-execution.  A path is identified by its
// vector of decisions; the harness is re-run from its entry for every path.

import (
	"fmt"
	"go/types"
	"math/big"
	"os"
	"sort"
	"strings"
	"time"

	"golang.org/x/tools/go/ssa"
)

type Decision struct {
	Choice int  `json:"c"`
	N      int  `json:"n"`
	Forced bool `json:"f,omitempty"`
	Kind   byte `json:"k,omitempty"` // 'b' branch, 'c' choose, 'a' assume, 'v' concretised value
	Val    uint64 `json:"v,omitempty"`
}

// Answer is one nondeterministic primitive answered on a path.
type Answer struct {
	Fn   string `json:"fn"`
	Var  string `json:"var,omitempty"`
	Bits int    `json:"bits,omitempty"`
	Val  string `json:"v,omitempty"` // filled from the model: hex, or decimal for Choose
}

type AssertSite struct {
	ID         string
	Reached    int
	Discharged int // unsat or concretely true
	Violated   int
	Unknown    int
}

type Violation struct {
	Harness   string     `json:"harness"`
	AssertID  string     `json:"assert"`
	Msg       string     `json:"msg,omitempty"`
	Decisions []Decision `json:"decisions"`
	Answers   []Answer   `json:"answers"`
	Trace     []string   `json:"trace,omitempty"`
	Notes     []string   `json:"notes,omitempty"`
}

type PathResult struct {
	Status     string // ok, assume, unwound, unsupported, resource, deadlock, crash
	Msg        string
	Decisions  []Decision
	Violations []Violation
}

var dumpN int

// Engine is the per-worker interpreter state.
type Engine struct {
	P      *Program
	tt     *TermTable
	solver *Solver
	alt    *Solver
	// path state
	pc        []*Term
	prefix    []Decision
	pos       int
	trace     []Decision
	model     Model
	modelOK   bool
	nvar      int
	answers   []Answer
	steps     int64
	depth     int
	initDepth int
	globals   map[*ssa.Global]*value
	inited    map[*ssa.Package]bool
	frozen    map[*value]string
	frozenObj map[interface{}]string
	newAlts   [][]Decision
	violations []Violation
	events    []string
	probes    []value
	notes     []string
	harness   string
	// goroutines
	gors     []*gor
	cur      *gor
	abortAll bool
	draining bool
	schedExplore bool
	ledger   []string
	// config
	Budget   int64
	MaxDepth int
	MaxAlloc int64
	MaxForks int
	// stats
	Stats    *Stats
	fnSeen   map[string]int
	nondetUsed map[string]int
	mutexes  map[*value]*mutexState
	lockMon  *lockMonitor
	ctxPolls int
	opaque   int
	cutUnknown bool
	gorAbort       *pathAbort
	gorUnsupported *unsupported
	gorCrashes     []string
	killAck        chan struct{}
	deadlock       bool
	switches       int
	MaxSwitches    int
	selectExplore  bool
	permuteMaps    bool
	WantWitness    bool // set by the driver per path: keep this path, if it passes, for the native cross-check
	mapAddrs       map[*omap]int
	wgs            map[*value]*wgState
	addrs          map[*value]int
	stdout         []string
	unwinding      bool
	panicWhere     string
	Input          string
	Outputs        []string
	fbCache        map[*Term]*Term
	unwindViolation string
	freezeGlobalValues bool
	schedOnlyChan      bool
	deadlockViolation  string
	files              map[string]string
	syncMaps           map[*value]*omap
	syncPools          map[*value][]value
}

type Stats struct {
	Paths        int
	ByStatus     map[string]int
	Forks        int
	SolverCalls  int
	SolverSat    int
	SolverUnsat  int
	SolverUnknown int
	SolverTime   time.Duration
	AltCalls     int
	AltDecided   int
	CutUnknown   int
	Decisions    int
	Asserts      map[string]*AssertSite
	Fns          map[string]int
	Intrinsics   map[string]int
	Samples      []string
	Witnesses    []Violation // passing paths with a model of their inputs: replayed natively as a cross-check of the encoding
	okSeen       int
	Unsupported  map[string]int
	MaxSteps     int64
	Steps        int64
}

func NewStats() *Stats {
	return &Stats{ByStatus: map[string]int{}, Asserts: map[string]*AssertSite{}, Fns: map[string]int{}, Intrinsics: map[string]int{}, Unsupported: map[string]int{}}
}

func (s *Stats) Merge(o *Stats) {
	s.Paths += o.Paths
	for k, v := range o.ByStatus {
		s.ByStatus[k] += v
	}
	s.Forks += o.Forks
	s.SolverCalls += o.SolverCalls
	s.SolverSat += o.SolverSat
	s.SolverUnsat += o.SolverUnsat
	s.SolverUnknown += o.SolverUnknown
	s.SolverTime += o.SolverTime
	s.AltCalls += o.AltCalls
	s.AltDecided += o.AltDecided
	s.CutUnknown += o.CutUnknown
	s.Decisions += o.Decisions
	for k, v := range o.Asserts {
		a := s.Asserts[k]
		if a == nil {
			a = &AssertSite{ID: k}
			s.Asserts[k] = a
		}
		a.Reached += v.Reached
		a.Discharged += v.Discharged
		a.Violated += v.Violated
		a.Unknown += v.Unknown
	}
	for k, v := range o.Fns {
		s.Fns[k] += v
	}
	for k, v := range o.Intrinsics {
		s.Intrinsics[k] += v
	}
	for k, v := range o.Unsupported {
		s.Unsupported[k] += v
	}
	if len(s.Samples) < 8 {
		s.Samples = append(s.Samples, o.Samples...)
		if len(s.Samples) > 8 {
			s.Samples = s.Samples[:8]
		}
	}
	if len(s.Witnesses) < MaxWitnesses {
		s.Witnesses = append(s.Witnesses, o.Witnesses...)
		if len(s.Witnesses) > MaxWitnesses {
			s.Witnesses = s.Witnesses[:MaxWitnesses]
		}
	}
	if o.MaxSteps > s.MaxSteps {
		s.MaxSteps = o.MaxSteps
	}
	s.Steps += o.Steps
}

// MaxWitnesses: passing paths kept per harness (per worker before merging).
const MaxWitnesses = 12

func NewEngine(p *Program, solverKind string, timeoutMs int) *Engine {
	e := &Engine{P: p, tt: NewTermTable(), Budget: 5_000_000, MaxDepth: 400, MaxAlloc: 1 << 20, MaxForks: 100000}
	e.solver = NewSolver(solverKind, timeoutMs)
	e.Stats = NewStats()
	return e
}

func (e *Engine) Close() {
	e.solver.Close()
	if e.alt != nil {
		e.alt.Close()
	}
}

func (e *Engine) resetPath(prefix []Decision) {
	e.pc = nil
	e.prefix = prefix
	e.pos = 0
	e.trace = nil
	e.model = nil
	e.modelOK = false
	e.nvar = 0
	e.answers = nil
	e.steps = 0
	e.depth = 0
	e.globals = map[*ssa.Global]*value{}
	e.inited = map[*ssa.Package]bool{}
	e.frozen = nil
	e.frozenObj = nil
	e.newAlts = nil
	e.violations = nil
	e.events = nil
	e.probes = nil
	e.notes = nil
	e.gors = nil
	e.cur = nil
	e.abortAll = false
	e.draining = false
	e.schedExplore = false
	e.ledger = nil
	e.fnSeen = map[string]int{}
	e.mutexes = map[*value]*mutexState{}
	e.lockMon = nil
	e.ctxPolls = 0
	e.opaque = 0
	e.gorAbort, e.gorUnsupported, e.gorCrashes = nil, nil, nil
	e.deadlock = false
	e.switches = 0
	e.MaxSwitches = 0
	e.selectExplore, e.permuteMaps = false, false
	e.wgs, e.addrs, e.stdout = nil, nil, nil
	e.mapAddrs = nil
	e.nondetUsed = nil
	e.unwinding, e.panicWhere = false, ""
	e.Outputs = nil
	e.fbCache = nil
	e.unwindViolation = ""
	e.schedOnlyChan = false
	e.deadlockViolation = ""
	e.files = nil
	e.syncMaps = nil
	e.syncPools = nil
	e.MaxForks = 100000
	// fresh term table per path keeps memory bounded; variable names are
	// deterministic per path so solver declarations can be reused.
	e.tt = NewTermTable()
}

// ---------------------------------------------------------------- solver glue

func (e *Engine) check(extra *Term, wantModel bool) (string, Model) {
	as := append(append([]*Term{}, e.pc...), extra)
	if extra == nil {
		as = as[:len(as)-1]
	}
	t0 := time.Now()
	full := e.solver.TimeoutM
	quick := 1500
	if quick > full {
		quick = full
	}
	e.solver.TimeoutM = quick
	res, m := e.solver.CheckMode(as, wantModel, false)
	e.solver.TimeoutM = full
	if res != "sat" && res != "unsat" {
		// portfolio: cvc5 with bit-vectors as integers, then z3 with the full timeout
		if e.alt == nil {
			e.alt = NewSolver("cvc5-int", 3000)
		}
		// (a model is always asked for: a sat answer of this back end is only taken
		// when the engine's own evaluator confirms that the model satisfies every
		// assertion - bit-vectors-as-integers next to floating point has produced
		// models that do not; the candidates died in the native replay, but an
		// unconfirmed candidate ends the check with exit 2)
		res, m = e.alt.Check(as, true)
		e.Stats.AltCalls++
		if res == "sat" && !e.modelSatisfies(as, m) {
			res = "unknown"
		}
		if res == "sat" || res == "unsat" {
			e.Stats.AltDecided++
		} else {
			res, m = e.solver.Check(as, wantModel)
		}
	}
	if d := time.Since(t0); d > 2*time.Second && os.Getenv("SYMGO_SLOW") != "" {
		x := ""
		if extra != nil {
			x = extra.SMT()
			if len(x) > 600 {
				x = x[:600]
			}
		}
		fmt.Fprintf(os.Stderr, "SLOW %.1fs %s %s pc=%d extra=%s\n", d.Seconds(), res, e.harness, len(e.pc), x)
		if dir := os.Getenv("SYMGO_DUMP"); dir != "" {
			var sb strings.Builder
			for _, v := range Vars(as...) {
				fmt.Fprintf(&sb, "(declare-const %s %s)\n", v.Name, v.S.SMT())
			}
			for _, a := range as {
				fmt.Fprintf(&sb, "(assert %s)\n", a.SMT())
			}
			sb.WriteString("(check-sat)\n")
			dumpN++
			os.WriteFile(fmt.Sprintf("%s/q%d-%s.smt2", dir, dumpN, res), []byte(sb.String()), 0o644)
		}
	}
	e.Stats.SolverTime += time.Since(t0)
	e.Stats.SolverCalls++
	switch res {
	case "sat":
		e.Stats.SolverSat++
	case "unsat":
		e.Stats.SolverUnsat++
	default:
		e.Stats.SolverUnknown++
	}
	return res, m
}

// modelSatisfies reports whether no assertion evaluates to false under m
// (an assertion the evaluator cannot reduce to a constant counts as satisfied).
func (e *Engine) modelSatisfies(as []*Term, m Model) bool {
	if m == nil {
		return false
	}
	for _, a := range as {
		if r := e.evalModel(a, m); r.IsConst() && !r.BoolVal() {
			return false
		}
	}
	return true
}

// evalModel evaluates t under model m (unassigned variables are 0).
func (e *Engine) evalModel(t *Term, m Model) *Term {
	memo := map[*Term]*Term{}
	var ev func(x *Term) *Term
	ev = func(x *Term) *Term {
		if r, ok := memo[x]; ok {
			return r
		}
		var r *Term
		switch x.Op {
		case "const":
			r = x
		case "var":
			v := m[x.Name]
			if v == nil {
				v = new(big.Int)
			}
			if x.S == SBool {
				r = e.tt.Bool(v.Sign() != 0)
			} else {
				r = e.tt.BigConst(x.S.Width(), v)
			}
		default:
			args := make([]*Term, len(x.Args))
			for i, a := range x.Args {
				args[i] = ev(a)
			}
			r = e.rebuild(x, args)
		}
		memo[x] = r
		return r
	}
	return ev(t)
}

func (e *Engine) rebuild(x *Term, a []*Term) *Term {
	tt := e.tt
	switch x.Op {
	case "not":
		return tt.Not(a[0])
	case "and":
		return tt.And(a[0], a[1])
	case "or":
		return tt.Or(a[0], a[1])
	case "ite":
		return tt.Ite(a[0], a[1], a[2])
	case "=":
		return tt.Eq(a[0], a[1])
	case "bvadd", "bvsub", "bvmul", "bvand", "bvor", "bvxor", "bvudiv", "bvurem", "bvsdiv", "bvsrem", "bvshl", "bvlshr", "bvashr":
		return tt.BVBin(x.Op, a[0], a[1])
	case "bvnot":
		return tt.BVNot(a[0])
	case "bvneg":
		return tt.BVNeg(a[0])
	case "bvult", "bvule", "bvslt", "bvsle":
		return tt.BVCmp(x.Op, a[0], a[1])
	case "extract":
		return tt.Extract(x.P1, x.P2, a[0])
	case "zero_extend":
		return tt.ZeroExt(x.P1, a[0])
	case "sign_extend":
		return tt.SignExt(x.P1, a[0])
	case "concat":
		return tt.Concat(a[0], a[1])
	case "fp.add", "fp.sub", "fp.mul", "fp.div":
		return tt.FPBin(x.Op, a[0], a[1])
	case "fp.neg":
		return tt.FPNeg(a[0])
	case "fp.eq", "fp.lt", "fp.leq", "fp.gt", "fp.geq":
		return tt.FPCmp(x.Op, a[0], a[1])
	case "fp.isNaN":
		return tt.FPIsNaN(a[0])
	case "fp.frombits":
		return tt.FPFromBits(a[0])
	case "fp.from_sbv":
		return tt.FPFromInt(x.S, a[0], true)
	case "fp.from_ubv":
		return tt.FPFromInt(x.S, a[0], false)
	case "fp.to_fp":
		return tt.FPToFP(x.S, a[0])
	case "fp.to_sbv", "fp.to_ubv":
		if a[0].IsConst() {
			return foldFPToInt(tt, x.P1, a[0], x.Op == "fp.to_sbv")
		}
		return tt.FPToIntRaw(x.P1, a[0], x.Op == "fp.to_sbv")
	}
	panic("rebuild: " + x.Op)
}

func foldFPToInt(tt *TermTable, w int, a *Term, signed bool) *Term {
	f := a.fval()
	if f != f || f > 1e300 || f < -1e300 {
		return tt.BVConst(w, 0)
	}
	bf := new(big.Float).SetFloat64(f)
	bi, _ := bf.Int(nil)
	return tt.BigConst(w, bi)
}

// addPC appends a constraint to the path condition.
func (e *Engine) addPC(c *Term) {
	if c.IsConst() {
		if !c.BoolVal() {
			panic(pathAbort{"assume", "false path condition"})
		}
		return
	}
	e.pc = append(e.pc, c)
	if e.modelOK {
		r := e.evalModel(c, e.model)
		if !(r.IsConst() && r.BoolVal()) {
			e.modelOK = false
		}
	}
}

// ---------------------------------------------------------------- forking

func (e *Engine) replay() (Decision, bool) {
	if e.pos < len(e.prefix) {
		d := e.prefix[e.pos]
		e.pos++
		e.trace = append(e.trace, d)
		return d, true
	}
	return Decision{}, false
}

// fork decides a symbolic branch condition.
func (e *Engine) fork(c *Term) bool {
	if c.IsConst() {
		return c.BoolVal()
	}
	e.Stats.Forks++
	if len(e.trace) > e.MaxForks {
		panic(pathAbort{"unwound", "fork budget exceeded"})
	}
	nc := e.tt.Not(c)
	if d, ok := e.replay(); ok {
		if d.Kind != 'b' {
			panic(unsupported{"nondeterministic replay: expected branch decision"})
		}
		if !d.Forced {
			if d.Choice == 1 {
				e.addPC(c)
			} else {
				e.addPC(nc)
			}
		}
		return d.Choice == 1
	}
	// syntactic shortcut: already in the path condition
	for _, p := range e.pc {
		if p == c {
			e.trace = append(e.trace, Decision{Choice: 1, N: 2, Forced: true, Kind: 'b'})
			e.pos++
			return true
		}
		if p == nc {
			e.trace = append(e.trace, Decision{Choice: 0, N: 2, Forced: true, Kind: 'b'})
			e.pos++
			return false
		}
	}
	var tOK, fOK string
	var tM, fM Model
	if e.modelOK {
		r := e.evalModel(c, e.model)
		if r.IsConst() {
			if r.BoolVal() {
				tOK, tM = "sat", e.model
			} else {
				fOK, fM = "sat", e.model
			}
		}
	}
	if tOK == "" {
		tOK, tM = e.check(c, true)
	}
	if fOK == "" {
		fOK, fM = e.check(nc, true)
	}
	// A side whose feasibility the solvers could not decide is not explored:
	// the path is cut there and counted (reduced claim, never a pass and
	// never an alarm).
	tFeas := tOK == "sat"
	fFeas := fOK == "sat"
	if tOK != "sat" && tOK != "unsat" {
		e.Stats.CutUnknown++
		e.note("solver-unknown at branch (true side cut)")
	}
	if fOK != "sat" && fOK != "unsat" {
		e.Stats.CutUnknown++
		e.note("solver-unknown at branch (false side cut)")
	}
	switch {
	case tFeas && fFeas:
		alt := append(append([]Decision{}, e.trace...), Decision{Choice: 0, N: 2, Kind: 'b'})
		e.newAlts = append(e.newAlts, alt)
		e.trace = append(e.trace, Decision{Choice: 1, N: 2, Kind: 'b'})
		e.pos++
		e.pc = append(e.pc, c)
		e.model, e.modelOK = tM, tOK == "sat" && tM != nil
		return true
	case tFeas:
		// the condition is implied by the path condition only if the other
		// side is unsat; if it was cut as undecided the condition is a new
		// constraint of this path
		forced := fOK == "unsat"
		e.trace = append(e.trace, Decision{Choice: 1, N: 2, Forced: forced, Kind: 'b'})
		e.pos++
		if !forced {
			e.pc = append(e.pc, c)
			e.model, e.modelOK = tM, tM != nil
		}
		return true
	case fFeas:
		forced := tOK == "unsat"
		e.trace = append(e.trace, Decision{Choice: 0, N: 2, Forced: forced, Kind: 'b'})
		e.pos++
		if !forced {
			e.pc = append(e.pc, nc)
			e.model, e.modelOK = fM, fM != nil
		}
		return false
	}
	if (tOK != "sat" && tOK != "unsat") || (fOK != "sat" && fOK != "unsat") {
		panic(pathAbort{"unknown", "branch feasibility undecided by the solvers"})
	}
	panic(pathAbort{"assume", "infeasible path"})
}

// truth converts a bool-valued engine value into a Go bool, forking if symbolic.
func (e *Engine) truth(v value) bool {
	switch v := v.(type) {
	case bool:
		return v
	case sv:
		return e.fork(v.t)
	}
	panic(fmt.Sprintf("truth of %T", v))
}

// Choose forks over 0..n-1 (all alternatives feasible by construction).
func (e *Engine) Choose(n int, what string) int {
	if n <= 0 {
		panic(pathAbort{"assume", "Choose(0)"})
	}
	if n == 1 {
		e.answers = append(e.answers, Answer{Fn: "Choose", Val: "0"})
		return 0
	}
	if d, ok := e.replay(); ok {
		if d.Kind != 'c' || d.N != n {
			panic(unsupported{fmt.Sprintf("nondeterministic replay: expected choose(%d) got %c/%d", n, d.Kind, d.N)})
		}
		e.answers = append(e.answers, Answer{Fn: "Choose", Val: fmt.Sprint(d.Choice)})
		return d.Choice
	}
	for i := n - 1; i >= 1; i-- {
		alt := append(append([]Decision{}, e.trace...), Decision{Choice: i, N: n, Kind: 'c'})
		e.newAlts = append(e.newAlts, alt)
	}
	e.trace = append(e.trace, Decision{Choice: 0, N: n, Kind: 'c'})
	e.pos++
	e.answers = append(e.answers, Answer{Fn: "Choose", Val: "0"})
	return 0
}

// concreteInt turns an integer value into a concrete one, forking over the
// values it can take (symbolic values are enumerated between lo and hi by
// repeated solver queries; more than 64 distinct values is unsupported).
func (e *Engine) concreteInt(v value, lo, hi int64) int64 {
	s, ok := v.(sv)
	if !ok {
		return asInt64(v)
	}
	w := s.t.S.Width()
	for n := 0; n < 64; n++ {
		var cand uint64
		if d, ok := e.replay(); ok {
			if d.Kind != 'v' {
				panic(unsupported{"nondeterministic replay: expected value decision"})
			}
			cand = d.Val
		} else {
			res, m := e.checkCached(nil)
			if res != "sat" {
				panic(pathAbort{"assume", "concretize: path condition not satisfiable (" + res + ")"})
			}
			cand = e.evalModel(s.t, m).C
			e.trace = append(e.trace, Decision{Kind: 'v', Val: cand, Forced: true, N: 1})
			e.pos++
		}
		if e.fork(e.tt.Eq(s.t, e.tt.BVConst(w, cand))) {
			return sext(cand, w)
		}
	}
	panic(unsupported{"concretize: more than 64 values"})
}

// checkCached returns a model of the current path condition.
func (e *Engine) checkCached(extra *Term) (string, Model) {
	if extra == nil && e.modelOK {
		return "sat", e.model
	}
	res, m := e.check(extra, true)
	if extra == nil && res == "sat" {
		if m == nil {
			m = Model{}
		}
		e.model, e.modelOK = m, true
	}
	return res, m
}

// index bounds-checks idx against n and returns a concrete index.
func (e *Engine) index(idx value, n int) int {
	if s, ok := idx.(sv); ok {
		w := s.t.S.Width()
		signed := isSigned(s.k)
		var inRange *Term
		nn := e.tt.BVConst(w, uint64(n))
		if signed {
			inRange = e.tt.And(e.tt.BVCmp("bvsle", e.tt.BVConst(w, 0), s.t), e.tt.BVCmp("bvslt", s.t, nn))
		} else {
			inRange = e.tt.BVCmp("bvult", s.t, nn)
		}
		if !e.fork(inRange) {
			panic(rtPanic{fmt.Sprintf("runtime error: index out of range [symbolic] with length %d", n)})
		}
		if n > 64 {
			// large constant tables: enumerate through the solver
			return int(e.concreteInt(s, 0, int64(n)))
		}
		for i := 0; i < n-1; i++ {
			if e.fork(e.tt.Eq(s.t, e.tt.BVConst(w, uint64(i)))) {
				return i
			}
		}
		return n - 1
	}
	i := asInt64(idx)
	if i < 0 || i >= int64(n) {
		panic(rtPanic{fmt.Sprintf("runtime error: index out of range [%d] with length %d", i, n)})
	}
	return int(i)
}

// indexLoad reads a[idx]; a symbolic index over scalar elements becomes an
// ite chain instead of a fork.
func (e *Engine) indexLoad(a []value, idx value) value {
	s, ok := idx.(sv)
	if !ok {
		return a[e.index(idx, len(a))]
	}
	allScalar := len(a) > 0 && len(a) <= 256
	var kind types.BasicKind
	for i, x := range a {
		k, ok := scalarKind(x)
		if !ok || (i > 0 && k != kind) {
			allScalar = false
			break
		}
		kind = k
	}
	if !allScalar {
		return a[e.index(idx, len(a))]
	}
	w := s.t.S.Width()
	nn := e.tt.BVConst(w, uint64(len(a)))
	var inRange *Term
	if isSigned(s.k) {
		inRange = e.tt.And(e.tt.BVCmp("bvsle", e.tt.BVConst(w, 0), s.t), e.tt.BVCmp("bvslt", s.t, nn))
	} else {
		inRange = e.tt.BVCmp("bvult", s.t, nn)
	}
	if !e.fork(inRange) {
		panic(rtPanic{fmt.Sprintf("runtime error: index out of range [symbolic] with length %d", len(a))})
	}
	acc := e.toTerm(a[len(a)-1])
	for i := len(a) - 2; i >= 0; i-- {
		acc = e.tt.Ite(e.tt.Eq(s.t, e.tt.BVConst(w, uint64(i))), e.toTerm(a[i]), acc)
	}
	return e.fromTerm(acc, kind)
}

// ---------------------------------------------------------------- nondet

func (e *Engine) freshVar(prefix string, s Sort) *Term {
	name := fmt.Sprintf("%s%d_%d", prefix, e.nvar, int(s))
	e.nvar++
	return e.tt.Var(name, s)
}

func (e *Engine) Nondet(fn string, k types.BasicKind) value {
	w := kindWidth(k)
	switch k {
	case types.Bool:
		v := e.freshVar("b", SBool)
		e.answers = append(e.answers, Answer{Fn: fn, Var: v.Name, Bits: 1})
		return sv{v, types.Bool}
	case types.Float64, types.Float32:
		v := e.freshVar("x", BV(w))
		e.answers = append(e.answers, Answer{Fn: fn, Var: v.Name, Bits: w})
		return sv{e.tt.FPFromBits(v), k}
	}
	v := e.freshVar("x", BV(w))
	e.answers = append(e.answers, Answer{Fn: fn, Var: v.Name, Bits: w})
	return sv{v, k}
}

// ---------------------------------------------------------------- assume / assert

func (e *Engine) Assume(c value) {
	switch c := c.(type) {
	case bool:
		if !c {
			panic(pathAbort{"assume", "assumption false"})
		}
	case sv:
		if d, ok := e.replay(); ok {
			_ = d
			e.addPC(c.t)
			return
		}
		// feasibility is checked eagerly so that vacuous paths end here
		res, m := e.check(c.t, true)
		e.trace = append(e.trace, Decision{Choice: 1, N: 1, Forced: true, Kind: 'a'})
		e.pos++
		if res == "unsat" {
			panic(pathAbort{"assume", "assumption infeasible"})
		}
		e.pc = append(e.pc, c.t)
		e.model, e.modelOK = m, res == "sat" && m != nil
	}
}

func (e *Engine) site(id string) *AssertSite {
	a := e.Stats.Asserts[id]
	if a == nil {
		a = &AssertSite{ID: id}
		e.Stats.Asserts[id] = a
	}
	return a
}

func (e *Engine) Assert(c value, id string, msg string) {
	a := e.site(id)
	a.Reached++
	switch c := c.(type) {
	case bool:
		if c {
			a.Discharged++
			return
		}
		a.Violated++
		e.recordViolation(id, msg, nil)
	case sv:
		nc := e.tt.Not(c.t)
		res, m := e.check(nc, true)
		switch res {
		case "unsat":
			a.Discharged++
		case "sat":
			a.Violated++
			e.recordViolation(id, msg, m)
			// continue the path under the assertion
			r2, _ := e.check(c.t, false)
			if r2 == "unsat" {
				panic(pathAbort{"ok", "assertion always false"})
			}
			e.addPC(c.t)
		default:
			a.Unknown++
			e.note("solver-" + res + " at assert " + id)
			e.addPC(c.t)
		}
	}
}

func (e *Engine) recordViolation(id, msg string, m Model) {
	if m == nil {
		res, mm := e.checkCached(nil)
		if res == "sat" {
			m = mm
		} else if len(e.pc) > 0 {
			e.note("violation on path whose condition is " + res)
			if res == "unsat" {
				return
			}
		}
	}
	ans := make([]Answer, len(e.answers))
	copy(ans, e.answers)
	for i := range ans {
		if ans[i].Var != "" {
			v := m[ans[i].Var]
			if v == nil {
				v = new(big.Int)
			}
			ans[i].Val = "0x" + v.Text(16)
		}
	}
	var tr []string
	for _, p := range e.probes {
		tr = append(tr, toString(p))
	}
	e.violations = append(e.violations, Violation{
		Harness: e.harness, AssertID: id, Msg: msg,
		Decisions: append([]Decision{}, e.trace...), Answers: ans, Trace: tr,
		Notes: append([]string{}, e.notes...),
	})
}

// diverseModel: a model of the path condition in which the symbolic inputs are
// non-zero and pairwise different where the path allows it (a witness of all
// zeros says little); nil when the solver does not give one quickly.
func (e *Engine) diverseModel() Model {
	var vars []*Term
	for _, a := range e.answers {
		if a.Var != "" && a.Bits >= 8 && len(vars) < 8 {
			vars = append(vars, e.tt.Var(a.Var, BV(a.Bits)))
		}
	}
	if len(vars) == 0 {
		return nil
	}
	c := e.tt.Bool(true)
	for i, v := range vars {
		c = e.tt.And(c, e.tt.Not(e.tt.Eq(v, e.tt.BVConst(int(v.S), 0))))
		for _, w := range vars[:i] {
			if w.S == v.S {
				c = e.tt.And(c, e.tt.Not(e.tt.Eq(v, w)))
			}
		}
	}
	if res, m := e.check(c, true); res == "sat" {
		return m
	}
	return nil
}

func (e *Engine) note(s string) {
	e.notes = append(e.notes, s)
}

// ---------------------------------------------------------------- running paths

// RunPath executes harness fn along the decision prefix.
func (e *Engine) RunPath(fn *ssa.Function, prefix []Decision) (res PathResult, alts [][]Decision) {
	e.resetPath(prefix)
	e.harness = fn.Name()
	e.cutUnknown = false
	main := &gor{id: 0, wake: make(chan struct{}, 1)}
	e.gors = []*gor{main}
	e.cur = main
	res.Status = "ok"
	func() {
		defer func() {
			if p := recover(); p != nil {
				switch p := p.(type) {
				case pathAbort:
					res.Status, res.Msg = p.status, p.msg
				case unsupported:
					res.Status, res.Msg = "unsupported", p.msg
				case targetPanic:
					res.Status, res.Msg = "crash", "panic: "+e.describePanic(p.v)+e.panicWhere
				case rtPanic:
					res.Status, res.Msg = "crash", "panic: "+p.msg+e.panicWhere
				case exitPanic:
					res.Status, res.Msg = "exit", fmt.Sprint(int(p))
				default:
					res.Status, res.Msg = "unsupported", fmt.Sprintf("engine panic %T: %v", p, p)
				}
			}
		}()
		e.ensureInit(fn.Pkg)
		e.callSSA(nil, 0, fn, nil, nil)
		e.drain()
	}()
	e.killAll()
	if res.Status == "unwound" && e.unwindViolation != "" {
		a := e.site(e.unwindViolation)
		a.Reached++
		a.Violated++
		e.recordViolation(e.unwindViolation, res.Msg, nil)
	}
	if res.Status == "deadlock" && e.deadlockViolation != "" {
		a := e.site(e.deadlockViolation)
		a.Reached++
		a.Violated++
		e.recordViolation(e.deadlockViolation, res.Msg, nil)
	}
	if res.Status == "crash" {
		// an uncaught panic on the harness goroutine is the host-crash event
		a := e.site("no-host-crash")
		a.Reached++
		a.Violated++
		e.recordViolation("no-host-crash", res.Msg, nil)
	}
	res.Decisions = e.trace
	res.Violations = e.violations
	e.Stats.Paths++
	for _, d := range e.trace {
		if d.Kind == 'b' || d.Kind == 'c' {
			e.Stats.Decisions++
		}
	}
	e.Stats.ByStatus[res.Status]++
	if res.Status == "unsupported" {
		k := res.Msg
		if i := strings.IndexByte(k, '\n'); i > 0 {
			k = k[:i]
		}
		if len(k) > 200 {
			k = k[:200]
		}
		e.Stats.Unsupported[k]++
	}
	e.Stats.Steps += e.steps
	if e.steps > e.Stats.MaxSteps {
		e.Stats.MaxSteps = e.steps
	}
	for k, v := range e.fnSeen {
		if strings.HasPrefix(k, "ext:") {
			e.Stats.Intrinsics[k[4:]] += v
		} else {
			e.Stats.Fns[k] += v
		}
	}
	if len(e.Stats.Samples) < 4 && res.Status == "ok" {
		e.Stats.Samples = append(e.Stats.Samples, e.sample())
	}
	if e.WantWitness && res.Status == "ok" && len(e.violations) == 0 && !e.cutUnknown && !e.schedExplore && !e.selectExplore {
		// (the driver asks for a spread of paths: the 1st, 2nd, 4th, 8th ... started one and every 97th)
		if len(e.Stats.Witnesses) < MaxWitnesses {
			before := len(e.violations)
			e.recordViolation("", "", e.diverseModel())
			if len(e.violations) > before {
				e.Stats.Witnesses = append(e.Stats.Witnesses, e.violations[before])
				e.violations = e.violations[:before]
			}
		}
	}
	return res, e.newAlts
}

func (e *Engine) sample() string {
	var pcs []string
	for i, p := range e.pc {
		if i >= 3 {
			pcs = append(pcs, "…")
			break
		}
		s := p.SMT()
		if len(s) > 120 {
			s = s[:120] + "…"
		}
		pcs = append(pcs, s)
	}
	var ds []string
	for _, d := range e.trace {
		if !d.Forced {
			ds = append(ds, fmt.Sprintf("%c%d/%d", d.Kind, d.Choice, d.N))
		}
	}
	if len(ds) > 24 {
		ds = append(ds[:24], "…")
	}
	return fmt.Sprintf("%s decisions=[%s] pc=[%s]", e.harness, strings.Join(ds, " "), strings.Join(pcs, " ∧ "))
}

func (e *Engine) describePanic(v value) string {
	if i, ok := v.(iface); ok {
		if s, ok := i.v.(string); ok {
			return s
		}
		if i.t != nil {
			// error values: call Error() when available
			defer func() { recover() }()
			if s, ok := e.errorString(i); ok {
				return s
			}
			return "(" + i.t.String() + ") " + toString(i.v)
		}
	}
	return toString(v)
}

// Explore runs all paths of fn (depth-first) and returns the violations.
func (e *Engine) Explore(fn *ssa.Function, maxPaths int) (viol []Violation, complete bool) {
	stack := [][]Decision{nil}
	n := 0
	for len(stack) > 0 {
		if maxPaths > 0 && n >= maxPaths {
			return viol, false
		}
		p := stack[len(stack)-1]
		stack = stack[:len(stack)-1]
		res, alts := e.RunPath(fn, p)
		n++
		viol = append(viol, res.Violations...)
		for i := len(alts) - 1; i >= 0; i-- {
			stack = append(stack, alts[i])
		}
	}
	return viol, true
}

func sortedKeys(m map[string]int) []string {
	var ks []string
	for k := range m {
		ks = append(ks, k)
	}
	sort.Strings(ks)
	return ks
}

// symptr is a pointer into an array at a symbolic (already bounds-checked)
// index; only loads are supported.
type symptr struct {
	arr array
	idx sv
}

func (e *Engine) boundsFork(s sv, n int) {
	w := s.t.S.Width()
	nn := e.tt.BVConst(w, uint64(n))
	var inRange *Term
	if isSigned(s.k) {
		inRange = e.tt.And(e.tt.BVCmp("bvsle", e.tt.BVConst(w, 0), s.t), e.tt.BVCmp("bvslt", s.t, nn))
	} else {
		inRange = e.tt.BVCmp("bvult", s.t, nn)
	}
	if !e.fork(inRange) {
		panic(rtPanic{fmt.Sprintf("runtime error: index out of range [symbolic] with length %d", n)})
	}
}

// mergeLoad loads arr[idx] for a symbolic idx: scalars, and structures that
// differ in scalar slots only, are merged into ite chains.
func (e *Engine) mergeLoad(sp *symptr) value {
	a := sp.arr
	w := sp.idx.t.S.Width()
	if _, ok := scalarKind(a[0]); ok {
		return e.indexLoad([]value(a), sp.idx)
	}
	first, ok := a[0].(structure)
	if !ok {
		panic(unsupported{"load through symbolic pointer of non-mergeable element"})
	}
	out := make(structure, len(first))
	for slot := range first {
		same := true
		for _, x := range a {
			xs, ok := x.(structure)
			if !ok || len(xs) != len(first) {
				panic(unsupported{"load through symbolic pointer: heterogeneous elements"})
			}
			if !sameSlot(xs[slot], first[slot]) {
				same = false
				break
			}
		}
		if same {
			out[slot] = first[slot]
			continue
		}
		k, ok := scalarKind(first[slot])
		if !ok {
			panic(unsupported{"load through symbolic pointer: non-scalar slot differs"})
		}
		col := make([]value, len(a))
		for i := range a {
			col[i] = a[i].(structure)[slot]
		}
		if t := e.progression(col, sp.idx, k); t != nil {
			out[slot] = e.fromTerm(t, k)
			continue
		}
		acc := e.toTerm(a[len(a)-1].(structure)[slot])
		for i := len(a) - 2; i >= 0; i-- {
			acc = e.tt.Ite(e.tt.Eq(sp.idx.t, e.tt.BVConst(w, uint64(i))), e.toTerm(a[i].(structure)[slot]), acc)
		}
		out[slot] = e.fromTerm(acc, k)
	}
	return out
}

func sameSlot(a, b value) bool {
	switch x := a.(type) {
	case rtype:
		y, ok := b.(rtype)
		return ok && types.Identical(x.t, y.t)
	case rvflag:
		y, ok := b.(rvflag)
		return ok && x == y
	case nil:
		return b == nil
	}
	if ka, ok := scalarKind(a); ok {
		kb, ok2 := scalarKind(b)
		if !ok2 || ka != kb || isSym(a) || isSym(b) {
			return false
		}
		return a == b
	}
	return false
}

// progression: when the concrete integer elements form an exact arithmetic
// progression a[i] = a[0] + i*d, the load at symbolic index idx is the term
// a[0] + idx*d (a faithful closed form of the table, computed from the
// table's actual contents).
func (e *Engine) progression(col []value, idx sv, k types.BasicKind) *Term {
	if len(col) < 3 || isFloatKind(k) || k == types.Bool {
		return nil
	}
	for _, c := range col {
		if isSym(c) {
			return nil
		}
	}
	w := kindWidth(k)
	a0 := e.toTerm(col[0]).C
	d := (e.toTerm(col[1]).C - a0) & mask(w)
	for i, c := range col {
		if e.toTerm(c).C != (a0+uint64(i)*d)&mask(w) {
			return nil
		}
	}
	tt := e.tt
	it := idx.t
	iw := it.S.Width()
	switch {
	case iw > w:
		it = tt.Extract(w-1, 0, it)
	case iw < w:
		it = tt.ZeroExt(w-iw, it) // idx is already known to be in range (non-negative)
	}
	var scaled *Term
	if d == 1 {
		scaled = it
	} else {
		scaled = tt.BVBin("bvmul", it, tt.BVConst(w, d))
	}
	return tt.BVBin("bvadd", tt.BVConst(w, a0), scaled)
}

// concreteSize turns a size operand (make length / capacity) into a concrete
// value without enumerating the solver's models: negative, beyond the
// allocation bound, a few small sizes, and one cut for "any other size".
func (e *Engine) concreteSize(v value) int64 {
	s, ok := v.(sv)
	if !ok {
		return asInt64(v)
	}
	w := s.t.S.Width()
	tt := e.tt
	if isSigned(s.k) && e.fork(tt.BVCmp("bvslt", s.t, tt.BVConst(w, 0))) {
		return -1
	}
	if e.fork(tt.BVCmp("bvult", tt.BVConst(w, uint64(e.MaxAlloc)), s.t)) {
		return e.MaxAlloc + 1
	}
	for i := uint64(0); i <= 3; i++ {
		if e.fork(tt.Eq(s.t, tt.BVConst(w, i))) {
			return int64(i)
		}
	}
	panic(pathAbort{"resource", "symbolic allocation size between 4 and the allocation bound (not enumerated)"})
}
