// Portions derived from golang.org/x/tools/go/ssa/interp (BSD-style licence,
// Copyright 2013 The Go Authors).

package engine

// Values
//
// All interpreter values are "boxed" in the empty interface, value.
// The range of possible dynamic types within value are:
//
// - bool, numbers (all built-in int/float types are distinguished), string
// - sv        --- a symbolic scalar (SMT term + basic kind)
// - symstr    --- a string of concrete length whose bytes may be symbolic
// - *omap     --- maps (insertion ordered, deterministic)
// - *channel  --- channels (engine model)
// - []value   --- slices
// - iface     --- interfaces
// - structure --- structs
// - array     --- arrays
// - *value    --- pointers
// - *ssa.Function, *ssa.Builtin, *closure --- functions
// - tuple, iter, bad, rtype, **deferred as in ssa/interp

import (
	"bytes"
	"fmt"
	"go/types"
	"unsafe"

	"golang.org/x/tools/go/ssa"
)

type value interface{}

type tuple []value

type array []value

type iface struct {
	t types.Type // never an "untyped" type
	v value
}

type structure []value

type iter interface {
	next() tuple
}

type closure struct {
	Fn  *ssa.Function
	Env []value
	// engine-made functions (reflect.MakeFunc, method values): when native
	// is non-nil it is called instead of Fn.
	native func(fr *frame, args []value) value
	sig    *types.Signature
}

type bad struct{}

type rtype struct {
	t types.Type
}

// sv is a symbolic scalar of basic kind k.
type sv struct {
	t *Term
	k types.BasicKind
}

// symstr is a string with concrete length and possibly symbolic bytes
// (each element is a uint8 or an sv of kind Uint8).
type symstr struct {
	b []value
}

func (s symstr) concrete() (string, bool) {
	buf := make([]byte, len(s.b))
	for i, c := range s.b {
		u, ok := c.(uint8)
		if !ok {
			return "", false
		}
		buf[i] = u
	}
	return string(buf), true
}

func normStr(b []value) value {
	s := symstr{b}
	if c, ok := s.concrete(); ok {
		return c
	}
	return s
}

func strBytes(x value) []value {
	switch x := x.(type) {
	case string:
		b := make([]value, len(x))
		for i := 0; i < len(x); i++ {
			b[i] = x[i]
		}
		return b
	case symstr:
		return x.b
	}
	panic(unsupported{fmt.Sprintf("strBytes of %T", x)})
}

// ---------------------------------------------------------------- maps

type mentry struct {
	k, v    value
	deleted bool
}

// omap is an insertion-ordered map.  Keys are compared with equals();
// concrete scalar/string keys are additionally indexed.
type omap struct {
	kt      types.Type
	entries []*mentry
	idx     map[value]*mentry // only for keys that are Go-comparable scalars
	n       int
}

func newOmap(kt types.Type) *omap {
	return &omap{kt: kt, idx: map[value]*mentry{}}
}

func goKey(k value) (value, bool) {
	// (a NaN is equal to no key, itself included: never indexed)
	switch f := k.(type) {
	case float64:
		if f != f {
			return nil, false
		}
	case float32:
		if f != f {
			return nil, false
		}
	}
	switch k := k.(type) {
	case bool, int, int8, int16, int32, int64, uint, uint8, uint16, uint32, uint64, uintptr, float32, float64, string, *value, *channel:
		return k, true
	case iface:
		if k.t == nil {
			return "iface:nil", true
		}
		if in, ok := goKey(k.v); ok {
			if _, isb := k.t.Underlying().(*types.Basic); isb {
				return fmt.Sprintf("iface:%s:%T:%v", k.t.String(), in, in), true
			}
		}
	}
	return nil, false
}

func (m *omap) len() int { return m.n }

// find returns the entry for k (nil if absent).  Symbolic comparisons fork.
func (m *omap) find(e *Engine, k value) *mentry {
	if gk, ok := goKey(k); ok {
		if en, ok := m.idx[gk]; ok {
			return en
		}
		// may still equal a symbolic key: fall through to the scan of
		// non-indexed entries
		for _, en := range m.entries {
			if en.deleted {
				continue
			}
			if _, ok := goKey(en.k); ok {
				continue
			}
			if e.truth(equalsV(e, m.kt, en.k, k)) {
				return en
			}
		}
		return nil
	}
	for _, en := range m.entries {
		if en.deleted {
			continue
		}
		if e.truth(equalsV(e, m.kt, en.k, k)) {
			return en
		}
	}
	return nil
}

func (m *omap) insert(e *Engine, k, v value) {
	if en := m.find(e, k); en != nil {
		en.v = v
		return
	}
	en := &mentry{k: k, v: v}
	m.entries = append(m.entries, en)
	if gk, ok := goKey(k); ok {
		m.idx[gk] = en
	}
	m.n++
}

func (m *omap) delete(e *Engine, k value) {
	if en := m.find(e, k); en != nil {
		en.deleted = true
		if gk, ok := goKey(en.k); ok {
			delete(m.idx, gk)
		}
		m.n--
	}
}

// live returns a snapshot of the live entries in insertion order.
func (m *omap) live() []*mentry {
	var out []*mentry
	for _, en := range m.entries {
		if !en.deleted {
			out = append(out, en)
		}
	}
	return out
}

type omapIter struct {
	m    *omap
	snap []*mentry
	i    int
}

func (it *omapIter) next() tuple {
	for it.i < len(it.snap) {
		en := it.snap[it.i]
		it.i++
		if en.deleted {
			continue
		}
		return tuple{true, en.k, en.v}
	}
	return tuple{false, nil, nil}
}

// ---------------------------------------------------------------- equality

// nil-tolerant variant of types.Identical.
func sameType(x, y types.Type) bool {
	if x == nil {
		return y == nil
	}
	return y != nil && types.Identical(x, y)
}

// equalsV returns x == y (Go's equivalence for type t) as a value that is
// either a Go bool or a symbolic Bool.
func equalsV(e *Engine, t types.Type, x, y value) value {
	switch x := x.(type) {
	case sv:
		return symBinopCmp(e, "==", x, y)
	case symstr:
		return symStrEq(e, x, y)
	}
	switch y.(type) {
	case sv:
		return symBinopCmp(e, "==", x, y)
	case symstr:
		return symStrEq(e, y.(symstr), x)
	}
	switch x := x.(type) {
	case bool:
		return x == y.(bool)
	case int:
		return x == y.(int)
	case int8:
		return x == y.(int8)
	case int16:
		return x == y.(int16)
	case int32:
		return x == y.(int32)
	case int64:
		return x == y.(int64)
	case uint:
		return x == y.(uint)
	case uint8:
		return x == y.(uint8)
	case uint16:
		return x == y.(uint16)
	case uint32:
		return x == y.(uint32)
	case uint64:
		return x == y.(uint64)
	case uintptr:
		return x == y.(uintptr)
	case float32:
		return x == y.(float32)
	case float64:
		return x == y.(float64)
	case complex64:
		return x == y.(complex64)
	case complex128:
		return x == y.(complex128)
	case string:
		return x == y.(string)
	case *value:
		return x == y.(*value)
	case *channel:
		return x == y.(*channel)
	case unsafe.Pointer:
		return x == y.(unsafe.Pointer)
	case structure:
		ys := y.(structure)
		tStruct := t.Underlying().(*types.Struct)
		var acc value = true
		for i, n := 0, tStruct.NumFields(); i < n; i++ {
			f := tStruct.Field(i)
			if f.Name() == "_" {
				continue
			}
			acc = andV(e, acc, equalsV(e, f.Type(), x[i], ys[i]))
			if b, ok := acc.(bool); ok && !b {
				return false
			}
		}
		return acc
	case array:
		ya := y.(array)
		tElt := t.Underlying().(*types.Array).Elem()
		var acc value = true
		for i := range x {
			acc = andV(e, acc, equalsV(e, tElt, x[i], ya[i]))
			if b, ok := acc.(bool); ok && !b {
				return false
			}
		}
		return acc
	case iface:
		yi := y.(iface)
		if !sameType(x.t, yi.t) {
			return false
		}
		if x.t == nil {
			return true
		}
		if !types.Comparable(x.t) {
			panic(rtPanic{"runtime error: comparing uncomparable type " + x.t.String()})
		}
		return equalsV(e, x.t, x.v, yi.v)
	case rtype:
		return types.Identical(x.t, y.(rtype).t)
	}
	panic(rtPanic{fmt.Sprintf("runtime error: comparing uncomparable type %s", t)})
}

func andV(e *Engine, a, b value) value {
	if x, ok := a.(bool); ok {
		if !x {
			return false
		}
		return b
	}
	if y, ok := b.(bool); ok {
		if !y {
			return false
		}
		return a
	}
	return sv{e.tt.And(a.(sv).t, b.(sv).t), types.Bool}
}

// ---------------------------------------------------------------- load/store

func deref(t types.Type) types.Type {
	if p, ok := t.Underlying().(*types.Pointer); ok {
		return p.Elem()
	}
	if p, ok := types.Unalias(t).(*types.Pointer); ok {
		return p.Elem()
	}
	panic(fmt.Sprintf("deref of non-pointer %s", t))
}

// load returns the value of type T in *addr.
func load(T types.Type, addr *value) value {
	switch T := T.Underlying().(type) {
	case *types.Struct:
		v := (*addr).(structure)
		a := make(structure, len(v))
		for i := range a {
			a[i] = load(T.Field(i).Type(), &v[i])
		}
		return a
	case *types.Array:
		v := (*addr).(array)
		a := make(array, len(v))
		for i := range a {
			a[i] = load(T.Elem(), &v[i])
		}
		return a
	case *types.Basic:
		// a string read through a pointer that unsafe made out of a *[]byte
		// (the "zero-copy" idiom): the string shares the slice's bytes, so a
		// later store into the slice shows through it - exactly what the real
		// memory does.  Every other type pun is outside the model.
		if T.Kind() == types.String {
			switch v := (*addr).(type) {
			case string, symstr:
			case []value:
				return symstr{v}
			default:
				panic(unsupported{fmt.Sprintf("load of a string through a pointer to %T (unsafe)", v)})
			}
		}
		return *addr
	default:
		return *addr
	}
}

// store stores value v of type T into *addr.
func (e *Engine) store(T types.Type, addr *value, v value) {
	if e.frozen != nil {
		e.checkFrozen(addr)
	}
	switch T := T.Underlying().(type) {
	case *types.Struct:
		lhs := (*addr).(structure)
		rhs := v.(structure)
		for i := range lhs {
			e.store(T.Field(i).Type(), &lhs[i], rhs[i])
		}
	case *types.Array:
		lhs := (*addr).(array)
		rhs := v.(array)
		for i := range lhs {
			e.store(T.Elem(), &lhs[i], rhs[i])
		}
	default:
		*addr = v
	}
}

// copyVal returns an unaliased copy of v of type T (structs and arrays
// are values).
func copyVal(T types.Type, v value) value {
	return load(T, &v)
}

// zero returns a new "zero" value of the specified type.
func zero(t types.Type) value {
	switch t := t.(type) {
	case *types.Basic:
		if t.Kind() == types.UntypedNil {
			panic("untyped nil has no zero value")
		}
		if t.Info()&types.IsUntyped != 0 {
			t = types.Default(t).(*types.Basic)
		}
		switch t.Kind() {
		case types.Bool:
			return false
		case types.Int:
			return int(0)
		case types.Int8:
			return int8(0)
		case types.Int16:
			return int16(0)
		case types.Int32:
			return int32(0)
		case types.Int64:
			return int64(0)
		case types.Uint:
			return uint(0)
		case types.Uint8:
			return uint8(0)
		case types.Uint16:
			return uint16(0)
		case types.Uint32:
			return uint32(0)
		case types.Uint64:
			return uint64(0)
		case types.Uintptr:
			return uintptr(0)
		case types.Float32:
			return float32(0)
		case types.Float64:
			return float64(0)
		case types.Complex64:
			return complex64(0)
		case types.Complex128:
			return complex128(0)
		case types.String:
			return ""
		case types.UnsafePointer:
			return unsafe.Pointer(nil)
		default:
			panic(fmt.Sprint("zero for unexpected type:", t))
		}
	case *types.Pointer:
		return (*value)(nil)
	case *types.Array:
		a := make(array, t.Len())
		for i := range a {
			a[i] = zero(t.Elem())
		}
		return a
	case *types.Named:
		return zero(t.Underlying())
	case *types.Alias:
		return zero(types.Unalias(t))
	case *types.Interface:
		return iface{} // nil type, methodset and value
	case *types.Slice:
		return []value(nil)
	case *types.Struct:
		s := make(structure, t.NumFields())
		for i := range s {
			s[i] = zero(t.Field(i).Type())
		}
		return s
	case *types.Tuple:
		if t.Len() == 1 {
			return zero(t.At(0).Type())
		}
		s := make(tuple, t.Len())
		for i := range s {
			s[i] = zero(t.At(i).Type())
		}
		return s
	case *types.Chan:
		return (*channel)(nil)
	case *types.Map:
		return (*omap)(nil)
	case *types.Signature:
		return (*ssa.Function)(nil)
	case *types.TypeParam:
		panic(unsupported{"zero of type parameter"})
	}
	panic(fmt.Sprint("zero: unexpected ", t))
}

// ---------------------------------------------------------------- printing

func writeValue(buf *bytes.Buffer, v value) {
	switch v := v.(type) {
	case nil, bool, int, int8, int16, int32, int64, uint, uint8, uint16, uint32, uint64, uintptr, float32, float64, complex64, complex128, string:
		fmt.Fprintf(buf, "%v", v)
	case sv:
		fmt.Fprintf(buf, "<sym %s>", v.t.SMT())
	case symstr:
		buf.WriteString("<symstr")
		for _, c := range v.b {
			buf.WriteString(" ")
			writeValue(buf, c)
		}
		buf.WriteString(">")
	case *omap:
		buf.WriteString("map[")
		if v != nil {
			sep := ""
			for _, en := range v.live() {
				buf.WriteString(sep)
				sep = " "
				writeValue(buf, en.k)
				buf.WriteString(":")
				writeValue(buf, en.v)
			}
		}
		buf.WriteString("]")
	case *channel:
		fmt.Fprintf(buf, "chan(%p)", v)
	case *value:
		if v == nil {
			buf.WriteString("<nil>")
		} else {
			fmt.Fprintf(buf, "%p", v)
		}
	case iface:
		if v.t == nil {
			buf.WriteString("(nil)")
			return
		}
		fmt.Fprintf(buf, "(%s, ", v.t)
		writeValue(buf, v.v)
		buf.WriteString(")")
	case structure:
		buf.WriteString("{")
		for i, e := range v {
			if i > 0 {
				buf.WriteString(" ")
			}
			writeValue(buf, e)
		}
		buf.WriteString("}")
	case array:
		buf.WriteString("[")
		for i, e := range v {
			if i > 0 {
				buf.WriteString(" ")
			}
			writeValue(buf, e)
		}
		buf.WriteString("]")
	case []value:
		buf.WriteString("[")
		for i, e := range v {
			if i > 0 {
				buf.WriteString(" ")
			}
			writeValue(buf, e)
		}
		buf.WriteString("]")
	case *ssa.Function, *ssa.Builtin, *closure:
		fmt.Fprintf(buf, "%p", v) // (an address)
	case rtype:
		buf.WriteString(v.t.String())
	case tuple:
		buf.WriteString("(")
		for i, e := range v {
			if i > 0 {
				buf.WriteString(", ")
			}
			writeValue(buf, e)
		}
		buf.WriteString(")")
	default:
		fmt.Fprintf(buf, "<%T>", v)
	}
}

func toString(v value) string {
	var b bytes.Buffer
	writeValue(&b, v)
	return b.String()
}

// ---------------------------------------------------------------- iterators

type stringIter struct {
	b []value
	i int
	e *Engine
}

func (it *stringIter) next() tuple {
	if it.i >= len(it.b) {
		return tuple{false, nil, nil}
	}
	// bytewise decoding under the ASCII assumption for symbolic bytes;
	// concrete multi-byte sequences are decoded properly.
	c := it.b[it.i]
	if u, ok := c.(uint8); ok {
		if u < 0x80 {
			i := it.i
			it.i++
			return tuple{true, i, int32(u)}
		}
		// decode concrete run
		j := it.i
		var buf []byte
		for j < len(it.b) && len(buf) < 4 {
			u2, ok := it.b[j].(uint8)
			if !ok {
				break
			}
			buf = append(buf, u2)
			j++
		}
		r, n := decodeRune(buf)
		i := it.i
		it.i += n
		return tuple{true, i, r}
	}
	s := c.(sv)
	it.e.assumeASCII(s)
	i := it.i
	it.i++
	return tuple{true, i, it.e.convScalar(types.Int32, s)}
}
