package engine

// Intrinsics of the harness support package zzverif, and the monitors
// (freeze / write barrier, lock discipline).

import (
	"fmt"
	"go/types"
	"sort"
	"strings"

	"golang.org/x/tools/go/ssa"
)

const zzPkg = "github.com/mattn/anko/zzverif."

func strArg(v value) string {
	if s, ok := v.(string); ok {
		return s
	}
	return toString(v)
}

func initZZ() {
	Z := func(name string, f externalFn) { externals[zzPkg+name] = f }
	nd := func(fn string, k types.BasicKind) externalFn {
		return func(fr *frame, a []value) value { return fr.e.Nondet(fn, k) }
	}
	Z("Bool", nd("Bool", types.Bool))
	Z("Int64", nd("Int64", types.Int64))
	Z("Int", nd("Int", types.Int))
	Z("Int32", nd("Int32", types.Int32))
	Z("Int16", nd("Int16", types.Int16))
	Z("Int8", nd("Int8", types.Int8))
	Z("Uint64", nd("Uint64", types.Uint64))
	Z("Uint32", nd("Uint32", types.Uint32))
	Z("Uint16", nd("Uint16", types.Uint16))
	Z("Uint8", nd("Uint8", types.Uint8))
	Z("Byte", nd("Byte", types.Uint8))
	Z("Rune", nd("Rune", types.Int32))
	Z("Float64", nd("Float64", types.Float64))
	Z("Float32", nd("Float32", types.Float32))
	Z("Choose", func(fr *frame, a []value) value {
		return fr.e.Choose(int(asInt64(a[0])), "harness")
	})
	Z("Assume", func(fr *frame, a []value) value { fr.e.Assume(a[0]); return nil })
	Z("Assert", func(fr *frame, a []value) value {
		fr.e.Assert(a[0], strArg(a[1]), "")
		return nil
	})
	Z("Assertf", func(fr *frame, a []value) value {
		fr.e.Assert(a[0], strArg(a[1]), strArg(a[2]))
		return nil
	})
	Z("Probe", func(fr *frame, a []value) value {
		fr.e.probes = append(fr.e.probes, a[0])
		return nil
	})
	Z("Trace", func(fr *frame, a []value) value {
		out := make([]value, len(fr.e.probes))
		copy(out, fr.e.probes)
		return out
	})
	Z("TraceLen", func(fr *frame, a []value) value { return len(fr.e.probes) })
	Z("ResetTrace", func(fr *frame, a []value) value { fr.e.probes = nil; return nil })
	Z("SymString", func(fr *frame, a []value) value {
		e := fr.e
		n := int(asInt64(a[0]))
		b := make([]value, n)
		for i := range b {
			c := e.Nondet("SymStringByte", types.Uint8).(sv)
			e.assumeASCII(c)
			b[i] = c
		}
		return normStr(b)
	})
	Z("Note", func(fr *frame, a []value) value { fr.e.note(strArg(a[0])); return nil })
	Z("Symbolic", func(fr *frame, a []value) value { return true })
	Z("Freeze", func(fr *frame, a []value) value {
		fr.e.freeze(a[0].([]value))
		return nil
	})
	Z("FreezeGlobals", func(fr *frame, a []value) value {
		fr.e.freezeGlobals()
		return nil
	})
	Z("Unfreeze", func(fr *frame, a []value) value {
		fr.e.frozen, fr.e.frozenObj = nil, nil
		return nil
	})
	Z("Events", func(fr *frame, a []value) value {
		kind := strArg(a[0])
		n := 0
		for _, ev := range fr.e.events {
			if strings.HasPrefix(ev, kind+":") {
				n++
			}
		}
		return n
	})
	Z("FrozenAliases", func(fr *frame, a []value) value {
		// number of pointers / addressable reflect.Values reachable from the
		// arguments that alias a frozen cell
		e := fr.e
		if e.frozen == nil {
			return 0
		}
		n := 0
		seen := map[interface{}]bool{}
		var walk func(v value, depth int)
		walk = func(v value, depth int) {
			if depth > 6 {
				return
			}
			switch x := v.(type) {
			case *value:
				if x == nil || seen[x] {
					return
				}
				seen[x] = true
				if _, ok := e.frozen[x]; ok {
					n++
					return
				}
				walk(*x, depth+1)
			case iface:
				if x.t != nil {
					walk(x.v, depth+1)
				}
			case structure:
				for _, f := range x {
					walk(f, depth+1)
				}
			case rvflag:
				if x.addr != nil {
					if _, ok := e.frozen[x.addr]; ok {
						n++
					}
				}
			case []value:
				for _, f := range x {
					walk(f, depth+1)
				}
			case array:
				for _, f := range x {
					walk(f, depth+1)
				}
			}
		}
		for _, x := range a[0].([]value) {
			walk(x, 0)
		}
		return n
	})
	Z("SetFile", func(fr *frame, a []value) value {
		if fr.e.files == nil {
			fr.e.files = map[string]string{}
		}
		fr.e.files[strArg(a[0])] = strArg(a[1])
		return a[0]
	})
	Z("CaptureStdout", func(fr *frame, a []value) value {
		e := fr.e
		start := len(e.stdout)
		e.call(fr, 0, a[0], nil)
		out := strings.Join(e.stdout[start:], "")
		e.stdout = e.stdout[:start]
		return out
	})
	Z("EventText", func(fr *frame, a []value) value {
		kind := strArg(a[0])
		for _, ev := range fr.e.events {
			if strings.HasPrefix(ev, kind+":") {
				return ev
			}
		}
		return ""
	})
	Z("GoroutineCrashes", func(fr *frame, a []value) value { return len(fr.e.gorCrashes) })
	Z("Drain", func(fr *frame, a []value) value { fr.e.drain(); return nil })
	Z("SchedExplore", func(fr *frame, a []value) value {
		fr.e.schedExplore = a[0].(bool)
		fr.e.MaxSwitches = int(asInt64(a[1]))
		return nil
	})
	Z("SchedChannelsOnly", func(fr *frame, a []value) value { fr.e.schedOnlyChan = a[0].(bool); return nil })
	Z("SelectExplore", func(fr *frame, a []value) value { fr.e.selectExplore = a[0].(bool); return nil })
	Z("PermuteMaps", func(fr *frame, a []value) value { fr.e.permuteMaps = a[0].(bool); return nil })
	Z("NondetCount", func(fr *frame, a []value) value { return fr.e.nondetUsed[strArg(a[0])] })
	Z("LockMonitor", func(fr *frame, a []value) value {
		fr.e.lockMon = &lockMonitor{guards: map[*value]*value{}, objs: map[interface{}]*value{}}
		return nil
	})
	Z("Guard", func(fr *frame, a []value) value {
		// Guard(mutexPtr, fieldPtr...) : cells that must only be accessed under the mutex
		e := fr.e
		if e.lockMon == nil {
			e.lockMon = &lockMonitor{guards: map[*value]*value{}, objs: map[interface{}]*value{}}
		}
		mu := a[0].(iface).v.(*value)
		for _, f := range a[1].([]value) {
			p := f.(iface).v.(*value)
			e.lockMon.guards[p] = mu
		}
		return nil
	})
	Z("LocksHeld", func(fr *frame, a []value) value {
		n := 0
		for _, m := range fr.e.mutexes {
			if m.writer != nil {
				n++
			}
			n += m.nreaders()
		}
		return n
	})
	Z("Input", func(fr *frame, a []value) value { return fr.e.Input })
	Z("Output", func(fr *frame, a []value) value {
		fr.e.Outputs = append(fr.e.Outputs, strArg(a[0]))
		return nil
	})
	Z("FuncName", func(fr *frame, a []value) value {
		i := a[0].(iface)
		switch f := i.v.(type) {
		case *ssa.Function:
			if f == nil {
				return ""
			}
			if f.Pkg != nil && f.Signature.Recv() == nil {
				return f.Pkg.Pkg.Path() + "." + f.Name()
			}
			return f.String()
		case *closure:
			if f != nil && f.Fn != nil {
				return f.Fn.String()
			}
		}
		return ""
	})
	Z("MaxDecisions", func(fr *frame, a []value) value { fr.e.MaxForks = int(asInt64(a[0])); return nil })
	Z("DeadlockIsViolation", func(fr *frame, a []value) value { fr.e.deadlockViolation = strArg(a[0]); return nil })
	Z("UnwindIsViolation", func(fr *frame, a []value) value { fr.e.unwindViolation = strArg(a[0]); return nil })
	Z("Steps", func(fr *frame, a []value) value { return int(fr.e.steps) })
	Z("Stdout", func(fr *frame, a []value) value { return strings.Join(fr.e.stdout, "") })
	Z("Opaque", func(fr *frame, a []value) value { return fr.e.opaque })
	Z("Budget", func(fr *frame, a []value) value { fr.e.Budget = asInt64(a[0]); return nil })
	Z("CallDepth", func(fr *frame, a []value) value { fr.e.MaxDepth = int(asInt64(a[0])); return nil })
	Z("IsConcrete", func(fr *frame, a []value) value {
		i := a[0].(iface)
		return !isSym(i.v)
	})
}

// ---------------------------------------------------------------- freeze monitor

// freeze marks every cell reachable from the roots as frozen.
func (e *Engine) freeze(roots []value) {
	if e.frozen == nil {
		e.frozen = map[*value]string{}
		e.frozenObj = map[interface{}]string{}
	}
	seen := map[interface{}]bool{}
	for i, r := range roots {
		e.freezeWalk(r, fmt.Sprintf("root%d", i), seen, 0)
	}
}

func (e *Engine) freezeGlobals() {
	if e.frozen == nil {
		e.frozen = map[*value]string{}
		e.frozenObj = map[interface{}]string{}
	}
	seen := map[interface{}]bool{}
	var gs []*ssa.Global
	for g := range e.globals {
		gs = append(gs, g)
	}
	sort.Slice(gs, func(i, j int) bool { return gs[i].String() < gs[j].String() })
	for _, g := range gs {
		if g.Pkg == nil || !e.P.InitAllow(g.Pkg.Pkg.Path()) || strings.HasSuffix(g.Pkg.Pkg.Path(), "zzverif") {
			continue
		}
		if strings.HasPrefix(g.Name(), "init$") || strings.HasPrefix(g.Name(), "zz") {
			continue
		}
		p := e.globals[g]
		e.frozen[p] = g.String()
		e.freezeGlobalValues = true
		e.freezeWalk(*p, g.String(), seen, 0)
		e.freezeGlobalValues = false
	}
}

func (e *Engine) freezeWalk(v value, path string, seen map[interface{}]bool, depth int) {
	if depth > 200 {
		return
	}
	switch v := v.(type) {
	case *value:
		if v == nil || seen[v] {
			return
		}
		seen[v] = true
		e.frozen[v] = path
		switch in := (*v).(type) {
		case structure:
			for i := range in {
				e.frozen[&in[i]] = fmt.Sprintf("%s.f%d", path, i)
				e.freezeWalk(in[i], fmt.Sprintf("%s.f%d", path, i), seen, depth+1)
			}
		case array:
			for i := range in {
				e.frozen[&in[i]] = fmt.Sprintf("%s[%d]", path, i)
				e.freezeWalk(in[i], fmt.Sprintf("%s[%d]", path, i), seen, depth+1)
			}
		default:
			e.freezeWalk(*v, path+".*", seen, depth+1)
		}
	case []value:
		if len(v) == 0 && cap(v) == 0 {
			return
		}
		full := v[:cap(v)]
		if len(full) == 0 || seen[&full[0]] {
			return
		}
		seen[&full[0]] = true
		for i := range full {
			e.frozen[&full[i]] = fmt.Sprintf("%s[%d]", path, i)
			if i < len(v) {
				e.freezeWalk(v[i], fmt.Sprintf("%s[%d]", path, i), seen, depth+1)
			}
		}
	case structure:
		if len(v) == 3 {
			if _, ok := v[0].(rtype); ok {
				// a reflect.Value held by the tree (LiteralExpr.Literal,
				// CallExpr.Func): the node's slots are frozen, the value it
				// refers to is run-time data, not syntax.  A process-wide
				// reflect.Value (nilValue ...) also freezes the cell it aliases.
				if f, isF := v[2].(rvflag); isF && f.addr != nil && e.freezeGlobalValues {
					e.frozen[f.addr] = path + ".addr"
				}
				return
			}
		}
		for i := range v {
			e.freezeWalk(v[i], fmt.Sprintf("%s.f%d", path, i), seen, depth+1)
		}
	case array:
		for i := range v {
			e.freezeWalk(v[i], fmt.Sprintf("%s[%d]", path, i), seen, depth+1)
		}
	case iface:
		if v.t != nil {
			e.freezeWalk(v.v, path, seen, depth+1)
		}
	case *omap:
		if v == nil || seen[v] {
			return
		}
		seen[v] = true
		e.frozenObj[v] = path
		for _, en := range v.live() {
			e.freezeWalk(en.v, path+"[k]", seen, depth+1)
		}
	case *closure:
		if v == nil || seen[v] {
			return
		}
		seen[v] = true
		for i, b := range v.Env {
			e.freezeWalk(b, fmt.Sprintf("%s.env%d", path, i), seen, depth+1)
		}
	case rvflag:
		if v.addr != nil {
			e.freezeWalk(v.addr, path+".addr", seen, depth+1)
		}
	}
}

func (e *Engine) checkFrozen(p *value) {
	if path, ok := e.frozen[p]; ok {
		where := ""
		e.event("frozen-write", path+where)
	}
}

func (e *Engine) checkFrozenObj(o interface{}) {
	if path, ok := e.frozenObj[o]; ok {
		e.event("frozen-write", "map "+path)
	}
}

// ---------------------------------------------------------------- lock monitor

type lockMonitor struct {
	guards map[*value]*value      // guarded cell -> mutex cell
	objs   map[interface{}]*value // guarded map object -> mutex cell
}

func (lm *lockMonitor) held(e *Engine, mu *value, write bool) bool {
	m := e.mutex(mu)
	if m.writer == e.cur {
		return true
	}
	if !write && m.readers[e.cur] > 0 {
		return true
	}
	return false
}

func (lm *lockMonitor) access(e *Engine, fr *frame, p *value, write bool) {
	mu, ok := lm.guards[p]
	if !ok {
		return
	}
	if !lm.held(e, mu, write) {
		kind := "read"
		if write {
			kind = "write"
		}
		where := ""
		if fr != nil && fr.fn != nil {
			where = " in " + fr.fn.String()
			if fr.curInstr != nil {
				where += " at " + e.P.Prog.Fset.Position(fr.curInstr.Pos()).String()
			}
		}
		e.event("lock-discipline", kind+" of guarded field without the lock"+where)
	}
	// track the map object currently stored in the guarded cell
	if m, ok := (*p).(*omap); ok && m != nil {
		lm.objs[m] = mu
	}
}

func (lm *lockMonitor) accessObj(e *Engine, o interface{}, write bool) {
	mu, ok := lm.objs[o]
	if !ok {
		return
	}
	if !lm.held(e, mu, write) {
		kind := "read"
		if write {
			kind = "write"
		}
		e.event("lock-discipline", kind+" of guarded map without the lock")
	}
}

func init() {
	Z := func(name string, f externalFn) { externals[zzPkg+name] = f }
	Z("Ite", func(fr *frame, a []value) value {
		e := fr.e
		if c, ok := a[0].(bool); ok {
			if c {
				return a[1]
			}
			return a[2]
		}
		k, _ := scalarKind(a[1])
		return e.fromTerm(e.tt.Ite(e.toTerm(a[0]), e.toTerm(a[1]), e.toTerm(a[2])), k)
	})
	externals[zzPkg+"Ite64"] = externals[zzPkg+"Ite"]
	Z("And", func(fr *frame, a []value) value {
		return fr.e.fromTerm(fr.e.tt.And(fr.e.toTerm(a[0]), fr.e.toTerm(a[1])), types.Bool)
	})
	Z("Or", func(fr *frame, a []value) value {
		return fr.e.fromTerm(fr.e.tt.Or(fr.e.toTerm(a[0]), fr.e.toTerm(a[1])), types.Bool)
	})
	Z("Not", func(fr *frame, a []value) value {
		return fr.e.fromTerm(fr.e.tt.Not(fr.e.toTerm(a[0])), types.Bool)
	})
	Z("Implies", func(fr *frame, a []value) value {
		return fr.e.fromTerm(fr.e.tt.Or(fr.e.tt.Not(fr.e.toTerm(a[0])), fr.e.toTerm(a[1])), types.Bool)
	})
}
