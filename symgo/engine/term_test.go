package engine

import (
	"math"
	"os"
	"math/rand"
	"testing"
)

// The integer/float-constant comparison rewrite must be equivalent to the
// unrewritten SMT term (decided by z3).
var testWidths = []int{32, 8}

func TestFPCmpIntConstRewrite(t *testing.T) {
	tt := NewTermTable()
	s := NewSolver("z3-new", 60000)
	defer s.Close()
	rng := rand.New(rand.NewSource(1))
	consts := []float64{0, 1, -1, 0.5, -2.5, 1e6, 9007199254740992, 9007199254740993, 9.223372036854775807e18, -9.223372036854775808e18, 1e19, -1e19, math.Inf(1), math.Inf(-1), 4096, 1.8446744073709552e19, 255, 255.5, 127, -128.5}
	for i := 0; i < 12; i++ {
		consts = append(consts, math.Float64frombits(rng.Uint64()))
		consts = append(consts, float64(rng.Int63())*(1-2*float64(rng.Intn(2))))
	}
	ops := []string{"fp.lt", "fp.leq", "fp.gt", "fp.geq", "fp.eq"}
	n, unknown := 0, 0
	if os.Getenv("SYMGO_TEST_W64") != "" {
		testWidths = []int{64}
	}
	for _, w := range testWidths {
		x := tt.Var("x", BV(w))
		for _, signed := range []bool{true, false} {
			conv := tt.FPFromInt(SF64, x, signed)
			for ci, c := range consts {
				if w == 64 && ci%7 != 0 {
					continue // 64-bit conversions are slow in z3: sample
				}
				k := tt.F64Const(c)
				for _, op := range ops {
					for _, flip := range []bool{false, true} {
						a, b := conv, k
						if flip {
							a, b = k, conv
						}
						re := tt.FPCmp(op, a, b)
						raw := tt.intern(&Term{Op: op, S: SBool, Args: []*Term{a, b}})
						res, _ := s.Check([]*Term{tt.Not(tt.Eq(re, raw))}, false)
						if res == "unknown" && w == 64 {
							unknown++
							continue
						}
						if res != "unsat" {
							t.Fatalf("rewrite differs (%s): w=%d signed=%v c=%v op=%s flip=%v: %s vs %s", res, w, signed, c, op, flip, re.SMT(), raw.SMT())
						}
						n++
					}
				}
			}
		}
	}
	t.Logf("%d rewrites proved equivalent, %d undecided by z3 (64-bit)", n, unknown)
}
