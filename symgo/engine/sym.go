package engine

// Symbolic scalar semantics: Go's integer operators are the wrapping
// bit-vector ones, floats are IEEE (RNE), float->int is the amd64 result.

import (
	"fmt"
	"go/token"
	"go/types"
	"math"
)

func kindWidth(k types.BasicKind) int {
	switch k {
	case types.Bool:
		return 1
	case types.Int8, types.Uint8:
		return 8
	case types.Int16, types.Uint16:
		return 16
	case types.Int32, types.Uint32, types.Float32:
		return 32
	}
	return 64
}

func isSigned(k types.BasicKind) bool {
	switch k {
	case types.Int, types.Int8, types.Int16, types.Int32, types.Int64:
		return true
	}
	return false
}

func isFloatKind(k types.BasicKind) bool { return k == types.Float32 || k == types.Float64 }

func scalarKind(x value) (types.BasicKind, bool) {
	switch x := x.(type) {
	case bool:
		return types.Bool, true
	case int:
		return types.Int, true
	case int8:
		return types.Int8, true
	case int16:
		return types.Int16, true
	case int32:
		return types.Int32, true
	case int64:
		return types.Int64, true
	case uint:
		return types.Uint, true
	case uint8:
		return types.Uint8, true
	case uint16:
		return types.Uint16, true
	case uint32:
		return types.Uint32, true
	case uint64:
		return types.Uint64, true
	case uintptr:
		return types.Uintptr, true
	case float32:
		return types.Float32, true
	case float64:
		return types.Float64, true
	case sv:
		return x.k, true
	}
	return 0, false
}

func kindSort(k types.BasicKind) Sort {
	switch k {
	case types.Bool:
		return SBool
	case types.Float32:
		return SF32
	case types.Float64:
		return SF64
	}
	return BV(kindWidth(k))
}

// toTerm converts a scalar engine value into a term.
func (e *Engine) toTerm(x value) *Term {
	tt := e.tt
	switch x := x.(type) {
	case sv:
		return x.t
	case bool:
		return tt.Bool(x)
	case int:
		return tt.BVConst(64, uint64(x))
	case int8:
		return tt.BVConst(8, uint64(x))
	case int16:
		return tt.BVConst(16, uint64(x))
	case int32:
		return tt.BVConst(32, uint64(x))
	case int64:
		return tt.BVConst(64, uint64(x))
	case uint:
		return tt.BVConst(64, uint64(x))
	case uint8:
		return tt.BVConst(8, uint64(x))
	case uint16:
		return tt.BVConst(16, uint64(x))
	case uint32:
		return tt.BVConst(32, uint64(x))
	case uint64:
		return tt.BVConst(64, x)
	case uintptr:
		return tt.BVConst(64, uint64(x))
	case float32:
		return tt.F32Const(x)
	case float64:
		return tt.F64Const(x)
	}
	panic(unsupported{fmt.Sprintf("toTerm of %T", x)})
}

// fromTerm converts a term back into an engine value of kind k (native when
// the term is constant).
func (e *Engine) fromTerm(t *Term, k types.BasicKind) value {
	if !t.IsConst() {
		return sv{t, k}
	}
	switch k {
	case types.Bool:
		return t.BoolVal()
	case types.Int:
		return int(t.C)
	case types.Int8:
		return int8(t.C)
	case types.Int16:
		return int16(t.C)
	case types.Int32:
		return int32(t.C)
	case types.Int64:
		return int64(t.C)
	case types.Uint:
		return uint(t.C)
	case types.Uint8:
		return uint8(t.C)
	case types.Uint16:
		return uint16(t.C)
	case types.Uint32:
		return uint32(t.C)
	case types.Uint64:
		return uint64(t.C)
	case types.Uintptr:
		return uintptr(t.C)
	case types.Float32:
		return t.F32()
	case types.Float64:
		return t.F64()
	}
	panic(fmt.Sprintf("fromTerm kind %v", k))
}

func isSym(x value) bool {
	switch x.(type) {
	case sv, symstr:
		return true
	}
	return false
}

// symBinopCmp implements == on scalars where at least one side is symbolic.
func symBinopCmp(e *Engine, op string, x, y value) value {
	k, _ := scalarKind(x)
	a, b := e.toTerm(x), e.toTerm(y)
	var r *Term
	if isFloatKind(k) {
		r = e.tt.FPCmp("fp.eq", a, b)
	} else {
		r = e.tt.Eq(a, b)
	}
	return e.fromTerm(r, types.Bool)
}

func symStrEq(e *Engine, x symstr, y value) value {
	yb := strBytes(y)
	if len(x.b) != len(yb) {
		return false
	}
	acc := e.tt.Bool(true)
	for i := range x.b {
		acc = e.tt.And(acc, e.tt.Eq(e.toTerm(x.b[i]), e.toTerm(yb[i])))
	}
	return e.fromTerm(acc, types.Bool)
}

// symStrLess: lexicographic x < y on byte strings.
func symStrLess(e *Engine, xb, yb []value, orEq bool) value {
	tt := e.tt
	// build from the end: less(i) = x[i] < y[i] || (x[i]==y[i] && less(i+1))
	n := len(xb)
	if len(yb) < n {
		n = len(yb)
	}
	var acc *Term
	if len(xb) < len(yb) {
		acc = tt.Bool(true)
	} else if len(xb) == len(yb) {
		acc = tt.Bool(orEq)
	} else {
		acc = tt.Bool(false)
	}
	for i := n - 1; i >= 0; i-- {
		a, b := e.toTerm(xb[i]), e.toTerm(yb[i])
		acc = tt.Or(tt.BVCmp("bvult", a, b), tt.And(tt.Eq(a, b), acc))
	}
	return e.fromTerm(acc, types.Bool)
}

func (e *Engine) symBinop(op token.Token, x, y value) value {
	tt := e.tt
	// strings
	_, xs := x.(symstr)
	_, ys := y.(symstr)
	_, xs2 := x.(string)
	_, ys2 := y.(string)
	if xs || ys || xs2 || ys2 {
		xb, yb := strBytes(x), strBytes(y)
		switch op {
		case token.ADD:
			return normStr(append(append([]value{}, xb...), yb...))
		case token.EQL:
			return symStrEq(e, symstr{xb}, symstr{yb})
		case token.NEQ:
			return e.notV(symStrEq(e, symstr{xb}, symstr{yb}))
		case token.LSS:
			return symStrLess(e, xb, yb, false)
		case token.LEQ:
			return symStrLess(e, xb, yb, true)
		case token.GTR:
			return symStrLess(e, yb, xb, false)
		case token.GEQ:
			return symStrLess(e, yb, xb, true)
		}
		panic(unsupported{"symbolic string op " + op.String()})
	}
	k, ok := scalarKind(x)
	if !ok {
		panic(unsupported{fmt.Sprintf("symBinop %s on %T", op, x)})
	}
	a := e.toTerm(x)
	// shifts: the count has its own type
	if op == token.SHL || op == token.SHR {
		ky, _ := scalarKind(y)
		b := e.toTerm(y)
		w := kindWidth(k)
		wy := kindWidth(ky)
		if isSigned(ky) {
			// negative shift count panics
			neg := tt.BVCmp("bvslt", b, tt.BVConst(wy, 0))
			if e.fork(neg) {
				panic(rtPanic{"runtime error: negative shift amount"})
			}
		}
		// bring the count to width w, saturating
		var cnt *Term
		var big *Term // count >= w
		if wy > w {
			big = tt.BVCmp("bvule", tt.BVConst(wy, uint64(w)), b)
			cnt = tt.Extract(w-1, 0, b)
		} else {
			cnt = tt.ZeroExt(w-wy, b)
			big = tt.BVCmp("bvule", tt.BVConst(w, uint64(w)), cnt)
		}
		var r *Term
		if op == token.SHL {
			r = tt.Ite(big, tt.BVConst(w, 0), tt.BVBin("bvshl", a, cnt))
		} else if isSigned(k) {
			r = tt.Ite(big, tt.BVBin("bvashr", a, tt.BVConst(w, uint64(w-1))), tt.BVBin("bvashr", a, cnt))
		} else {
			r = tt.Ite(big, tt.BVConst(w, 0), tt.BVBin("bvlshr", a, cnt))
		}
		return e.fromTerm(r, k)
	}
	b := e.toTerm(y)
	if a.S != b.S {
		panic(unsupported{fmt.Sprintf("symBinop %s sort mismatch %T %T", op, x, y)})
	}
	if k == types.Bool {
		switch op {
		case token.EQL:
			return e.fromTerm(tt.Eq(a, b), types.Bool)
		case token.NEQ:
			return e.fromTerm(tt.Not(tt.Eq(a, b)), types.Bool)
		case token.AND, token.LAND:
			return e.fromTerm(tt.And(a, b), types.Bool)
		case token.OR, token.LOR:
			return e.fromTerm(tt.Or(a, b), types.Bool)
		}
		panic(unsupported{"bool op " + op.String()})
	}
	if isFloatKind(k) {
		switch op {
		case token.ADD:
			return e.fromTerm(tt.FPBin("fp.add", a, b), k)
		case token.SUB:
			return e.fromTerm(tt.FPBin("fp.sub", a, b), k)
		case token.MUL:
			return e.fromTerm(tt.FPBin("fp.mul", a, b), k)
		case token.QUO:
			return e.fromTerm(tt.FPBin("fp.div", a, b), k)
		case token.EQL:
			return e.fromTerm(tt.FPCmp("fp.eq", a, b), types.Bool)
		case token.NEQ:
			return e.fromTerm(tt.Not(tt.FPCmp("fp.eq", a, b)), types.Bool)
		case token.LSS:
			return e.fromTerm(tt.FPCmp("fp.lt", a, b), types.Bool)
		case token.LEQ:
			return e.fromTerm(tt.FPCmp("fp.leq", a, b), types.Bool)
		case token.GTR:
			return e.fromTerm(tt.FPCmp("fp.gt", a, b), types.Bool)
		case token.GEQ:
			return e.fromTerm(tt.FPCmp("fp.geq", a, b), types.Bool)
		}
		panic(unsupported{"float op " + op.String()})
	}
	signed := isSigned(k)
	w := kindWidth(k)
	switch op {
	case token.ADD:
		return e.fromTerm(tt.BVBin("bvadd", a, b), k)
	case token.SUB:
		return e.fromTerm(tt.BVBin("bvsub", a, b), k)
	case token.MUL:
		return e.fromTerm(tt.BVBin("bvmul", a, b), k)
	case token.QUO, token.REM:
		if e.fork(tt.Eq(b, tt.BVConst(w, 0))) {
			panic(rtPanic{"runtime error: integer divide by zero"})
		}
		var o string
		switch {
		case op == token.QUO && signed:
			o = "bvsdiv"
		case op == token.QUO:
			o = "bvudiv"
		case signed:
			o = "bvsrem"
		default:
			o = "bvurem"
		}
		return e.fromTerm(tt.BVBin(o, a, b), k)
	case token.AND:
		return e.fromTerm(tt.BVBin("bvand", a, b), k)
	case token.OR:
		return e.fromTerm(tt.BVBin("bvor", a, b), k)
	case token.XOR:
		return e.fromTerm(tt.BVBin("bvxor", a, b), k)
	case token.AND_NOT:
		return e.fromTerm(tt.BVBin("bvand", a, tt.BVNot(b)), k)
	case token.EQL:
		return e.fromTerm(tt.Eq(a, b), types.Bool)
	case token.NEQ:
		return e.fromTerm(tt.Not(tt.Eq(a, b)), types.Bool)
	case token.LSS:
		if signed {
			return e.fromTerm(tt.BVCmp("bvslt", a, b), types.Bool)
		}
		return e.fromTerm(tt.BVCmp("bvult", a, b), types.Bool)
	case token.LEQ:
		if signed {
			return e.fromTerm(tt.BVCmp("bvsle", a, b), types.Bool)
		}
		return e.fromTerm(tt.BVCmp("bvule", a, b), types.Bool)
	case token.GTR:
		if signed {
			return e.fromTerm(tt.BVCmp("bvsgt", a, b), types.Bool)
		}
		return e.fromTerm(tt.BVCmp("bvugt", a, b), types.Bool)
	case token.GEQ:
		if signed {
			return e.fromTerm(tt.BVCmp("bvsge", a, b), types.Bool)
		}
		return e.fromTerm(tt.BVCmp("bvuge", a, b), types.Bool)
	}
	panic(unsupported{"symBinop " + op.String()})
}

func (e *Engine) notV(v value) value {
	switch v := v.(type) {
	case bool:
		return !v
	case sv:
		return e.fromTerm(e.tt.Not(v.t), types.Bool)
	}
	panic("notV")
}

func (e *Engine) symUnop(op token.Token, x sv) value {
	tt := e.tt
	switch op {
	case token.NOT:
		return e.fromTerm(tt.Not(x.t), types.Bool)
	case token.SUB:
		if isFloatKind(x.k) {
			return e.fromTerm(tt.FPNeg(x.t), x.k)
		}
		return e.fromTerm(tt.BVNeg(x.t), x.k)
	case token.XOR:
		return e.fromTerm(tt.BVNot(x.t), x.k)
	}
	panic(unsupported{"symUnop " + op.String()})
}

// convScalar converts symbolic scalar x to basic kind dst.
func (e *Engine) convScalar(dst types.BasicKind, x sv) value {
	tt := e.tt
	src := x.k
	if src == dst {
		return x
	}
	ws, wd := kindWidth(src), kindWidth(dst)
	switch {
	case src == types.Bool || dst == types.Bool:
		panic(unsupported{"bool conversion"})
	case isFloatKind(src) && isFloatKind(dst):
		return e.fromTerm(tt.FPToFP(kindSort(dst), x.t), dst)
	case isFloatKind(src):
		// float -> int: truncation; amd64 result for NaN / out of range.
		// CVTTSD2SQ yields 0x8000000000000000 for invalid 64-bit conversions;
		// narrower targets truncate the 64-bit (or 32-bit) result.
		f := x.t
		if src == types.Float32 {
			f = tt.FPToFP(SF64, f)
		}
		if isSigned(dst) || wd < 64 {
			via32 := wd < 32 || dst == types.Int32
			if via32 {
				// CVTTSD2SL: 32-bit truncation, 0x80000000 when invalid
				lo := tt.F64Const(-2147483649.0)
				hi := tt.F64Const(2147483648.0)
				ok := tt.And(tt.FPCmp("fp.lt", lo, f), tt.FPCmp("fp.lt", f, hi))
				raw := tt.FPToIntRaw(32, f, true)
				r := tt.Ite(ok, raw, tt.BVConst(32, 0x80000000))
				if wd < 32 {
					r = tt.Extract(wd-1, 0, r)
				}
				return e.fromTerm(r, dst)
			}
			// CVTTSD2SQ: 64-bit truncation, 0x8000000000000000 when invalid
			lo := tt.F64Const(-9223372036854775808.0)
			hi := tt.F64Const(9223372036854775808.0)
			ok := tt.And(tt.FPCmp("fp.leq", lo, f), tt.FPCmp("fp.lt", f, hi))
			raw := tt.FPToIntRaw(64, f, true)
			r := tt.Ite(ok, raw, tt.BVConst(64, 0x8000000000000000))
			if wd < 64 {
				r = tt.Extract(wd-1, 0, r)
			}
			return e.fromTerm(r, dst)
		}
		// float -> uint64 (Go on amd64: values >= 2^63 handled by subtracting)
		lo := tt.F64Const(0)
		two63 := tt.F64Const(9223372036854775808.0)
		two64 := tt.F64Const(18446744073709551616.0)
		okLow := tt.And(tt.FPCmp("fp.leq", lo, f), tt.FPCmp("fp.lt", f, two63))
		okHigh := tt.And(tt.FPCmp("fp.leq", two63, f), tt.FPCmp("fp.lt", f, two64))
		rawU := tt.FPToIntRaw(64, f, false)
		// negative in (-2^63,0): amd64 gives the int64 truncation reinterpreted
		negOK := tt.And(tt.FPCmp("fp.lt", tt.F64Const(-9223372036854775808.0), f), tt.FPCmp("fp.lt", f, lo))
		rawS := tt.FPToIntRaw(64, f, true)
		r := tt.Ite(tt.Or(okLow, okHigh), rawU, tt.Ite(negOK, rawS, tt.BVConst(64, 0x8000000000000000)))
		return e.fromTerm(r, dst)
	case isFloatKind(dst):
		return e.fromTerm(tt.FPFromInt(kindSort(dst), x.t, isSigned(src)), dst)
	}
	// int -> int
	var r *Term
	switch {
	case wd == ws:
		r = x.t
	case wd < ws:
		r = tt.Extract(wd-1, 0, x.t)
	case isSigned(src):
		r = tt.SignExt(wd-ws, x.t)
	default:
		r = tt.ZeroExt(wd-ws, x.t)
	}
	return e.fromTerm(r, dst)
}

// assumeASCII constrains a symbolic byte to be < 0x80 (documented assumption
// for symbolic strings).
func (e *Engine) assumeASCII(s sv) {
	w := s.t.S.Width()
	c := e.tt.BVCmp("bvult", s.t, e.tt.BVConst(w, 0x80))
	if c.IsConst() {
		if !c.BoolVal() {
			panic(pathAbort{"assume", "non-ASCII symbolic byte"})
		}
		return
	}
	for _, p := range e.pc {
		if p == c {
			return
		}
	}
	e.Assume(sv{c, types.Bool})
}

func f64bits(f float64) uint64 { return math.Float64bits(f) }

// utf8Encode is string(r) for a symbolic integer r: Go's conversion yields the
// UTF-8 encoding of the code point, "�" for surrogates and values outside
// 0..0x10FFFF.  The length class is decided by forking (at most five paths, one
// when the path condition already fixes it); the bytes are bit-vector terms.
func (e *Engine) utf8Encode(s sv) []value {
	tt := e.tt
	r := s.t
	w := r.S.Width()
	if w < 32 {
		if isSigned(s.k) {
			r = tt.SignExt(32-w, r)
		} else {
			r = tt.ZeroExt(32-w, r)
		}
		w = 32
	}
	lt := func(v uint64) *Term { return tt.BVCmp("bvult", r, tt.BVConst(w, v)) }
	b := func(t *Term) value { return e.fromTerm(t, types.Uint8) }
	cont := func(hi, lo int) value { return b(tt.Concat(tt.BVConst(2, 2), tt.Extract(hi, lo, r))) }
	if e.fork(lt(0x80)) {
		return []value{b(tt.Extract(7, 0, r))}
	}
	if e.fork(lt(0x800)) {
		return []value{b(tt.Concat(tt.BVConst(3, 6), tt.Extract(10, 6, r))), cont(5, 0)}
	}
	// negative values of a signed source are huge as unsigned: invalid as well
	invalid := tt.Or(tt.Not(lt(0x110000)), tt.And(tt.Not(lt(0xD800)), lt(0xE000)))
	if e.fork(invalid) {
		return []value{uint8(0xEF), uint8(0xBF), uint8(0xBD)}
	}
	if e.fork(lt(0x10000)) {
		return []value{b(tt.Concat(tt.BVConst(4, 14), tt.Extract(15, 12, r))), cont(11, 6), cont(5, 0)}
	}
	return []value{b(tt.Concat(tt.BVConst(5, 30), tt.Extract(20, 18, r))), cont(17, 12), cont(11, 6), cont(5, 0)}
}
