package engine

// Persistent SMT solver processes (z3 / cvc5 on a pipe).  One process per
// worker; every query is push / assert* / check-sat / [get-value] / pop.
// Any "(error" line makes the answer "error" (= inconclusive).

import (
	"bufio"
	"fmt"
	"io"
	"math/big"
	"os/exec"
	"strings"
	"time"
)

type Solver struct {
	Name     string
	argv     []string
	cmd      *exec.Cmd
	in       io.WriteCloser
	out      *bufio.Reader
	declared map[string]Sort
	Queries  int
	Time     time.Duration
	TimeoutM int
	Log      io.Writer
	dead     bool
	pushed   bool
}

func NewSolver(kind string, timeoutMs int) *Solver {
	s := &Solver{Name: kind, TimeoutM: timeoutMs}
	switch kind {
	case "z3-new", "z3":
		s.argv = []string{kind, "-in", fmt.Sprintf("-t:%d", timeoutMs)}
	case "cvc5":
		s.argv = []string{"cvc5", "--incremental", "--lang=smt2", "--produce-models", fmt.Sprintf("--tlimit-per=%d", timeoutMs)}
	case "cvc5-int":
		// bit-vectors solved as integers (keeps the mod-2^k semantics): decides
		// add/compare chains in milliseconds that stall bit-blasting
		s.argv = []string{"cvc5", "--incremental", "--lang=smt2", "--produce-models", "--solve-bv-as-int=sum", fmt.Sprintf("--tlimit-per=%d", timeoutMs)}
	default:
		panic("unknown solver " + kind)
	}
	return s
}

func (s *Solver) start() error {
	s.cmd = exec.Command(s.argv[0], s.argv[1:]...)
	in, err := s.cmd.StdinPipe()
	if err != nil {
		return err
	}
	out, err := s.cmd.StdoutPipe()
	if err != nil {
		return err
	}
	s.cmd.Stderr = nil
	if err := s.cmd.Start(); err != nil {
		return err
	}
	s.in = in
	s.out = bufio.NewReaderSize(out, 1<<16)
	s.declared = map[string]Sort{}
	s.dead = false
	if !strings.HasPrefix(s.Name, "cvc5") {
		s.send("(set-option :produce-models true)\n")
	} else {
		s.send("(set-logic ALL)\n")
	}
	return nil
}

func (s *Solver) Close() {
	if s.cmd != nil && s.cmd.Process != nil {
		s.in.Close()
		s.cmd.Process.Kill()
		s.cmd.Wait()
		s.cmd = nil
	}
}

func (s *Solver) send(str string) {
	if s.Log != nil {
		io.WriteString(s.Log, str)
	}
	if _, err := io.WriteString(s.in, str); err != nil {
		s.dead = true
	}
}

func (s *Solver) readLine() string {
	// hard watchdog: a solver that ignores its own time limit is killed
	type lr struct {
		line string
		err  error
	}
	ch := make(chan lr, 1)
	out := s.out
	go func() {
		line, err := out.ReadString('\n')
		ch <- lr{line, err}
	}()
	select {
	case r := <-ch:
		if r.err != nil {
			s.dead = true
			return "(error \"solver died\")"
		}
		return strings.TrimSpace(r.line)
	case <-time.After(time.Duration(s.TimeoutM)*time.Millisecond + 1500*time.Millisecond):
		s.dead = true
		if s.cmd != nil && s.cmd.Process != nil {
			s.cmd.Process.Kill()
		}
		return "timeout (watchdog)"
	}
}

// readSexp reads one balanced s-expression (possibly multi-line).
func (s *Solver) readSexp() string {
	var sb strings.Builder
	depth := 0
	started := false
	for {
		line := s.readLine()
		if s.dead {
			return line
		}
		sb.WriteString(line)
		sb.WriteByte(' ')
		for _, c := range line {
			if c == '(' {
				depth++
				started = true
			} else if c == ')' {
				depth--
			}
		}
		if started && depth <= 0 {
			break
		}
		if !started && line != "" {
			break
		}
	}
	return sb.String()
}

// Model maps variable names to values (bit-vectors as big.Int, Bool as 0/1).
type Model map[string]*big.Int

// Check decides satisfiability of the conjunction.  Result: "sat", "unsat",
// "unknown" or "error".
func (s *Solver) Check(asserts []*Term, wantModel bool) (string, Model) {
	return s.CheckMode(asserts, wantModel, true)
}

// CheckMode: fresh=true resets the solver first (z3 then uses its one-shot
// tactic pipeline, better on hard queries); fresh=false uses push/pop on the
// persistent context (much cheaper for the thousands of tiny queries).
func (s *Solver) CheckMode(asserts []*Term, wantModel bool, fresh bool) (string, Model) {
	t0 := time.Now()
	defer func() { s.Time += time.Since(t0); s.Queries++ }()
	if s.cmd == nil || s.dead {
		s.Close()
		if err := s.start(); err != nil {
			return "error", nil
		}
	}
	vars := Vars(asserts...)
	var sb strings.Builder
	if fresh || strings.HasPrefix(s.Name, "cvc5") {
		if strings.HasPrefix(s.Name, "cvc5") {
			sb.WriteString("(reset)\n(set-logic ALL)\n")
		} else {
			fmt.Fprintf(&sb, "(reset)\n(set-option :produce-models true)\n(set-option :timeout %d)\n", s.TimeoutM)
		}
		s.declared = map[string]Sort{}
		s.pushed = false
		for _, v := range vars {
			fmt.Fprintf(&sb, "(declare-const %s %s)\n", v.Name, v.S.SMT())
		}
	} else {
		fmt.Fprintf(&sb, "(set-option :timeout %d)\n", s.TimeoutM)
		for _, v := range vars {
			if old, ok := s.declared[v.Name]; ok {
				if old != v.S {
					panic("variable redeclared with another sort: " + v.Name)
				}
				continue
			}
			s.declared[v.Name] = v.S
			fmt.Fprintf(&sb, "(declare-const %s %s)\n", v.Name, v.S.SMT())
		}
		sb.WriteString("(push 1)\n")
		s.pushed = true
	}
	for _, a := range asserts {
		fmt.Fprintf(&sb, "(assert %s)\n", a.SMT())
	}
	sb.WriteString("(check-sat)\n")
	s.send(sb.String())
	res := s.readLine()
	for res == "" && !s.dead {
		res = s.readLine()
	}
	var model Model
	switch {
	case res == "sat":
		if wantModel && len(vars) > 0 {
			var names []string
			for _, v := range vars {
				names = append(names, v.Name)
			}
			s.send("(get-value (" + strings.Join(names, " ") + "))\n")
			txt := s.readSexp()
			if strings.Contains(txt, "(error") {
				res = "error"
			} else {
				model = parseModel(txt)
			}
		}
	case res == "unsat", res == "unknown":
	case strings.HasPrefix(res, "timeout"):
		res = "unknown"
	default:
		// error text, or anything unexpected
		if s.Log != nil {
			fmt.Fprintf(s.Log, "; solver said: %s\n", res)
		}
		res = "error"
	}
	if s.pushed && !s.dead {
		s.send("(pop 1)\n")
		s.pushed = false
	}
	if res == "error" {
		// resynchronise by restarting the process
		s.Close()
	}
	return res, model
}

func parseModel(txt string) Model {
	m := Model{}
	// ((name value) (name value) ...)
	toks := tokenize(txt)
	i := 0
	if i < len(toks) && toks[i] == "(" {
		i++
	}
	for i < len(toks) {
		if toks[i] != "(" {
			i++
			continue
		}
		i++
		if i >= len(toks) {
			break
		}
		name := toks[i]
		i++
		if i >= len(toks) {
			break
		}
		v := toks[i]
		switch {
		case v == "true":
			m[name] = big.NewInt(1)
		case v == "false":
			m[name] = big.NewInt(0)
		case strings.HasPrefix(v, "#x"):
			n, _ := new(big.Int).SetString(v[2:], 16)
			m[name] = n
		case strings.HasPrefix(v, "#b"):
			n, _ := new(big.Int).SetString(v[2:], 2)
			m[name] = n
		case v == "(":
			// (_ bvN w)
			if i+2 < len(toks) && toks[i+1] == "_" && strings.HasPrefix(toks[i+2], "bv") {
				n, _ := new(big.Int).SetString(toks[i+2][2:], 10)
				m[name] = n
			}
			depth := 1
			i++
			for i < len(toks) && depth > 0 {
				if toks[i] == "(" {
					depth++
				} else if toks[i] == ")" {
					depth--
				}
				i++
			}
			i--
		}
		// skip to the closing paren of this pair
		for i < len(toks) && toks[i] != ")" {
			i++
		}
		i++
	}
	return m
}

func tokenize(s string) []string {
	var out []string
	cur := ""
	flush := func() {
		if cur != "" {
			out = append(out, cur)
			cur = ""
		}
	}
	for _, c := range s {
		switch c {
		case '(', ')':
			flush()
			out = append(out, string(c))
		case ' ', '\t', '\n', '\r':
			flush()
		default:
			cur += string(c)
		}
	}
	flush()
	return out
}
