// Portions derived from golang.org/x/tools/go/ssa/interp (BSD-style licence,
// Copyright 2013 The Go Authors).

package engine

// The SSA interpreter: frames, instructions, calls, panics and defers.
// Scalars may be symbolic (sv); control flow on a symbolic condition forks
// through Engine.fork (path.go).

import (
	"fmt"
	"go/token"
	"go/types"
	"os"
	"runtime"
	"slices"
	"strings"
	"sync"

	"golang.org/x/tools/go/ssa"
)

type continuation int

const (
	kNext continuation = iota
	kReturn
	kJump
)

// Panic carriers ------------------------------------------------------------

// targetPanic: the target program called panic(v).
type targetPanic struct {
	v value
}

// rtPanic: the target program hit a Go run-time error.
type rtPanic struct {
	msg string
}

// unsupported: the engine cannot model what the path needs.
type unsupported struct {
	msg string
}

// pathAbort ends the current path (assume failed, budget, deadlock, ...).
type pathAbort struct {
	status string
	msg    string
}

// exitPanic: os.Exit in the target.
type exitPanic int

func isControl(p interface{}) bool {
	switch p.(type) {
	case unsupported, pathAbort, exitPanic:
		return true
	}
	return false
}

// Program: state shared (read-only after Build) by all workers.
type Program struct {
	Prog     *ssa.Program
	Pkgs     []*ssa.Package
	MainPkgs map[string]*ssa.Package
	Sizes    types.Sizes
	fnInfoMu sync.Mutex
	fnInfos  map[*ssa.Function]*fnInfo
	InitAllow func(path string) bool
	rtErrString types.Type
	rtError     types.Type
	errorString types.Type // *errors.errorString
	reflectPkg  *ssa.Package
	rtPlain     types.Type
	rtypePtrT   types.Type
}

type fnInfo struct {
	idx map[ssa.Value]int
	n   int
}

func (p *Program) info(fn *ssa.Function) *fnInfo {
	p.fnInfoMu.Lock()
	defer p.fnInfoMu.Unlock()
	if fi, ok := p.fnInfos[fn]; ok {
		return fi
	}
	fi := &fnInfo{idx: map[ssa.Value]int{}}
	add := func(v ssa.Value) {
		if _, ok := fi.idx[v]; !ok {
			fi.idx[v] = fi.n
			fi.n++
		}
	}
	for _, p := range fn.Params {
		add(p)
	}
	for _, fv := range fn.FreeVars {
		add(fv)
	}
	for _, l := range fn.Locals {
		add(l)
	}
	for _, b := range fn.Blocks {
		for _, in := range b.Instrs {
			if v, ok := in.(ssa.Value); ok {
				add(v)
			}
		}
	}
	p.fnInfos[fn] = fi
	return fi
}

type deferred struct {
	fn    value
	args  []value
	instr *ssa.Defer
	tail  *deferred
}

type frame struct {
	e                *Engine
	g                *gor
	caller           *frame
	fn               *ssa.Function
	info             *fnInfo
	block, prevBlock *ssa.BasicBlock
	regs             []value
	set              []bool
	locals           []value
	defers           *deferred
	result           value
	panicking        bool
	panic            interface{}
	phitemps         []value
	curInstr         ssa.Instruction
}

func (fr *frame) setv(k ssa.Value, v value) {
	fr.regs[fr.info.idx[k]] = v
}

func (fr *frame) get(key ssa.Value) value {
	switch key := key.(type) {
	case nil:
		return nil
	case *ssa.Function, *ssa.Builtin:
		return key
	case *ssa.Const:
		return constValue(key)
	case *ssa.Global:
		return fr.e.global(key)
	}
	if i, ok := fr.info.idx[key]; ok {
		return fr.regs[i]
	}
	panic(fmt.Sprintf("get: no value for %T: %v", key, key.Name()))
}

// runDefer runs a deferred call d.
func (fr *frame) runDefer(d *deferred) {
	var ok bool
	defer func() {
		if !ok {
			p := recover()
			if isControl(p) {
				panic(p)
			}
			fr.panicking = true
			fr.panic = p
		}
	}()
	fr.e.call(fr, d.instr.Pos(), d.fn, d.args)
	ok = true
}

func (fr *frame) runDefers() {
	for d := fr.defers; d != nil; d = d.tail {
		fr.runDefer(d)
	}
	fr.defers = nil
	if fr.panicking {
		panic(fr.panic) // new panic, or still panicking
	}
}

func (e *Engine) lookupMethod(typ types.Type, meth *types.Func) *ssa.Function {
	return e.P.Prog.LookupMethod(typ, meth.Pkg(), meth.Name())
}

func (e *Engine) step(fr *frame, instr ssa.Instruction) {
	e.steps++
	if e.steps > e.Budget {
		panic(pathAbort{"unwound", fmt.Sprintf("instruction budget %d exceeded in %s", e.Budget, fr.fn)})
	}
	if e.abortAll {
		panic(pathAbort{"killed", ""})
	}
}

// visitInstr interprets a single ssa.Instruction.
func visitInstr(fr *frame, instr ssa.Instruction) continuation {
	e := fr.e
	e.step(fr, instr)
	fr.curInstr = instr
	switch instr := instr.(type) {
	case *ssa.DebugRef:
		// no-op

	case *ssa.UnOp:
		fr.setv(instr, e.unop(fr, instr, fr.get(instr.X)))

	case *ssa.BinOp:
		fr.setv(instr, e.binop(instr.Op, instr.X.Type(), fr.get(instr.X), fr.get(instr.Y)))

	case *ssa.Call:
		fn, args := prepareCall(fr, &instr.Call)
		fr.setv(instr, e.call(fr, instr.Pos(), fn, args))

	case *ssa.ChangeInterface:
		fr.setv(instr, fr.get(instr.X))

	case *ssa.ChangeType:
		fr.setv(instr, fr.get(instr.X)) // (can't fail)

	case *ssa.Convert:
		fr.setv(instr, e.conv(instr.Type(), instr.X.Type(), fr.get(instr.X)))

	case *ssa.SliceToArrayPointer:
		fr.setv(instr, sliceToArrayPointer(instr.Type(), instr.X.Type(), fr.get(instr.X)))

	case *ssa.MakeInterface:
		fr.setv(instr, iface{t: instr.X.Type(), v: fr.get(instr.X)})

	case *ssa.Extract:
		fr.setv(instr, fr.get(instr.Tuple).(tuple)[instr.Index])

	case *ssa.Slice:
		fr.setv(instr, e.slice(instr.X.Type(), fr.get(instr.X), fr.get(instr.Low), fr.get(instr.High), fr.get(instr.Max)))

	case *ssa.Return:
		switch len(instr.Results) {
		case 0:
		case 1:
			fr.result = fr.get(instr.Results[0])
		default:
			var res []value
			for _, r := range instr.Results {
				res = append(res, fr.get(r))
			}
			fr.result = tuple(res)
		}
		fr.block = nil
		return kReturn

	case *ssa.RunDefers:
		fr.runDefers()

	case *ssa.Panic:
		panic(targetPanic{fr.get(instr.X)})

	case *ssa.Send:
		e.chanSend(fr.get(instr.Chan).(*channel), fr.get(instr.X))

	case *ssa.Store:
		addr := fr.get(instr.Addr).(*value)
		if addr == nil {
			panic(rtPanic{"runtime error: invalid memory address or nil pointer dereference"})
		}
		if e.lockMon != nil {
			e.lockMon.access(e, fr, addr, true)
		}
		e.store(deref(instr.Addr.Type()), addr, fr.get(instr.Val))

	case *ssa.If:
		succ := 1
		if e.truth(fr.get(instr.Cond)) {
			succ = 0
		}
		fr.prevBlock, fr.block = fr.block, fr.block.Succs[succ]
		return kJump

	case *ssa.Jump:
		fr.prevBlock, fr.block = fr.block, fr.block.Succs[0]
		return kJump

	case *ssa.Defer:
		fn, args := prepareCall(fr, &instr.Call)
		defers := &fr.defers
		if into := fr.get(instr.DeferStack); into != nil {
			defers = into.(**deferred)
		}
		*defers = &deferred{
			fn:    fn,
			args:  args,
			instr: instr,
			tail:  *defers,
		}

	case *ssa.Go:
		fn, args := prepareCall(fr, &instr.Call)
		e.spawn(fr, instr.Pos(), fn, args)

	case *ssa.MakeChan:
		fr.setv(instr, newChannel(int(e.concreteInt(fr.get(instr.Size), 0, 1<<20)), instr.Type().Underlying().(*types.Chan).Elem()))

	case *ssa.Alloc:
		var addr *value
		if instr.Heap {
			addr = new(value)
			fr.setv(instr, addr)
		} else {
			addr = fr.get(instr).(*value)
		}
		*addr = zero(deref(instr.Type()))

	case *ssa.MakeSlice:
		n := e.concreteSize(fr.get(instr.Len))
		c := e.concreteSize(fr.get(instr.Cap))
		if n < 0 || n > c {
			panic(rtPanic{"runtime error: makeslice: len out of range"})
		}
		if c > e.MaxAlloc {
			panic(pathAbort{"resource", fmt.Sprintf("make slice of %d elements", c)})
		}
		slice := make([]value, c)
		tElt := instr.Type().Underlying().(*types.Slice).Elem()
		for i := range slice {
			slice[i] = zero(tElt)
		}
		fr.setv(instr, slice[:n])

	case *ssa.MakeMap:
		fr.setv(instr, newOmap(instr.Type().Underlying().(*types.Map).Key()))

	case *ssa.Range:
		fr.setv(instr, e.rangeIter(fr.get(instr.X), instr.X.Type()))

	case *ssa.Next:
		fr.setv(instr, fr.get(instr.Iter).(iter).next())

	case *ssa.FieldAddr:
		p := fr.get(instr.X).(*value)
		if p == nil {
			panic(rtPanic{"runtime error: invalid memory address or nil pointer dereference"})
		}
		fr.setv(instr, &(*p).(structure)[instr.Field])

	case *ssa.Field:
		fr.setv(instr, fr.get(instr.X).(structure)[instr.Field])

	case *ssa.IndexAddr:
		x := fr.get(instr.X)
		idx := fr.get(instr.Index)
		switch x := x.(type) {
		case []value:
			i := e.index(idx, len(x))
			fr.setv(instr, &x[i])
		case *value: // *array
			if x == nil {
				panic(rtPanic{"runtime error: invalid memory address or nil pointer dereference"})
			}
			a := (*x).(array)
			if s, ok := idx.(sv); ok && len(a) > 16 {
				// symbolic index into a large array: keep the pointer symbolic
				// (bounds checked now, load merges the elements)
				e.boundsFork(s, len(a))
				fr.setv(instr, &symptr{arr: a, idx: s})
				break
			}
			i := e.index(idx, len(a))
			fr.setv(instr, &a[i])
		default:
			panic(fmt.Sprintf("unexpected x type in IndexAddr: %T", x))
		}

	case *ssa.Index:
		x := fr.get(instr.X)
		idx := fr.get(instr.Index)
		switch x := x.(type) {
		case array:
			fr.setv(instr, e.indexLoad(x, idx))
		case string:
			if s, ok := idx.(sv); ok {
				fr.setv(instr, e.indexLoad(strBytes(x), s))
			} else {
				i := e.index(idx, len(x))
				fr.setv(instr, x[i])
			}
		case symstr:
			fr.setv(instr, e.indexLoad(x.b, idx))
		default:
			panic(fmt.Sprintf("unexpected x type in Index: %T", x))
		}

	case *ssa.Lookup:
		fr.setv(instr, e.lookup(instr, fr.get(instr.X), fr.get(instr.Index)))

	case *ssa.MapUpdate:
		m := fr.get(instr.Map).(*omap)
		if m == nil {
			panic(rtPanic{"assignment to entry in nil map"})
		}
		if e.frozen != nil {
			e.checkFrozenObj(m)
		}
		if e.lockMon != nil {
			e.lockMon.accessObj(e, m, true)
		}
		key := fr.get(instr.Key)
		if k, ok := key.(iface); ok {
			checkHashable(k)
		}
		m.insert(e, key, fr.get(instr.Value))

	case *ssa.TypeAssert:
		fr.setv(instr, e.typeAssert(instr, fr.get(instr.X).(iface)))

	case *ssa.MakeClosure:
		var bindings []value
		for _, binding := range instr.Bindings {
			bindings = append(bindings, fr.get(binding))
		}
		fr.setv(instr, &closure{Fn: instr.Fn.(*ssa.Function), Env: bindings})

	case *ssa.Phi:
		panic("unreachable") // phis are processed at block entry

	case *ssa.Select:
		fr.setv(instr, e.selectInstr(fr, instr))

	default:
		panic(unsupported{fmt.Sprintf("unexpected instruction: %T", instr)})
	}
	return kNext
}

func checkHashable(k iface) {
	if k.t == nil {
		return
	}
	if !types.Comparable(k.t) {
		panic(rtPanic{"runtime error: hash of unhashable type " + k.t.String()})
	}
	switch v := k.v.(type) {
	case structure:
		st := k.t.Underlying().(*types.Struct)
		for i := range v {
			if in, ok := v[i].(iface); ok {
				_ = st
				checkHashable(in)
			}
		}
	case array:
		for i := range v {
			if in, ok := v[i].(iface); ok {
				checkHashable(in)
			}
		}
	}
}

// prepareCall determines the function value and argument values for a
// function call in a Call, Go or Defer instruction.
func prepareCall(fr *frame, call *ssa.CallCommon) (fn value, args []value) {
	v := fr.get(call.Value)
	if call.Method == nil {
		fn = v
	} else {
		recv := v.(iface)
		if recv.t == nil {
			panic(rtPanic{"runtime error: invalid memory address or nil pointer dereference"})
		}
		if nf := fr.e.nativeMethod(recv, call.Method); nf != nil {
			fn = nf
		} else if f := fr.e.lookupMethod(recv.t, call.Method); f == nil {
			panic(unsupported{fmt.Sprintf("method set for dynamic type %v does not contain %s", recv.t, call.Method)})
		} else {
			fn = f
		}
		args = append(args, recv.v)
	}
	for _, arg := range call.Args {
		args = append(args, fr.get(arg))
	}
	return
}

// call interprets a call to a function (function, builtin or closure).
func (e *Engine) call(caller *frame, callpos token.Pos, fn value, args []value) value {
	switch fn := fn.(type) {
	case *ssa.Function:
		if fn == nil {
			panic(rtPanic{"runtime error: invalid memory address or nil pointer dereference"})
		}
		return e.callSSA(caller, callpos, fn, args, nil)
	case *closure:
		if fn.native != nil {
			fr := &frame{e: e, caller: caller, g: e.cur}
			return fn.native(fr, args)
		}
		return e.callSSA(caller, callpos, fn.Fn, args, fn.Env)
	case *ssa.Builtin:
		return e.callBuiltin(caller, callpos, fn, args)
	}
	panic(fmt.Sprintf("cannot call %T", fn))
}

func (e *Engine) callSSA(caller *frame, callpos token.Pos, fn *ssa.Function, args []value, env []value) value {
	return e.callSSAx(caller, callpos, fn, args, env, false)
}

// callSSAx: noExt interprets the SSA body even when an external exists (used
// for std functions whose native stub cannot take symbolic arguments).
func (e *Engine) callSSAx(caller *frame, callpos token.Pos, fn *ssa.Function, args []value, env []value, noExt bool) value {
	e.depth++
	defer func() { e.depth-- }()
	if e.depth > e.MaxDepth {
		panic(pathAbort{"resource", "call depth exceeded in " + fn.String()})
	}
	fr := &frame{
		e:      e,
		g:      e.cur,
		caller: caller,
		fn:     fn,
	}
	if fn.Parent() == nil {
		if fn.Pkg != nil && fn.Name() == "init" && fn.Synthetic == "package initializer" {
			if !e.P.InitAllow(fn.Pkg.Pkg.Path()) {
				e.inited[fn.Pkg] = true
				return nil
			}
			e.inited[fn.Pkg] = true
		}
		name := fn.String()
		if ext := externals[name]; ext != nil && !noExt {
			e.noteFn("ext:" + name)
			return ext(fr, args)
		}
		if fn.Blocks == nil {
			if fn.Synthetic != "" && strings.Contains(fn.Synthetic, "instan") {
				panic(unsupported{"uninstantiated generic: " + name})
			}
			panic(unsupported{"no code for function: " + name})
		}
	}
	if fn.TypeParams().Len() > 0 && len(fn.TypeArgs()) == 0 {
		panic(unsupported{"generic function body " + fn.String()})
	}
	if fn.Pkg != nil {
		e.ensureInit(fn.Pkg)
	}
	e.noteFn(fn.String())
	fr.info = e.P.info(fn)
	fr.regs = make([]value, fr.info.n)
	fr.block = fn.Blocks[0]
	fr.locals = make([]value, len(fn.Locals))
	for i, l := range fn.Locals {
		fr.locals[i] = zero(deref(l.Type()))
		fr.setv(l, &fr.locals[i])
	}
	for i, p := range fn.Params {
		fr.setv(p, args[i])
	}
	for i, fv := range fn.FreeVars {
		fr.setv(fv, env[i])
	}
	for fr.block != nil {
		runFrame(fr)
	}
	return fr.result
}

func runFrame(fr *frame) {
	defer func() {
		if fr.block == nil {
			return // normal return
		}
		p := recover()
		if u, ok := p.(unsupported); ok && !strings.Contains(u.msg, " <- ") {
			panic(unsupported{u.msg + fr.e.stackOf(fr)})
		}
		if isControl(p) {
			panic(p)
		}
		if re, ok := p.(runtime.Error); ok {
			// a Go run-time error inside the engine itself: an engine defect
			// or an unmodelled feature, never a target panic.
			buf := make([]byte, 4096)
			n := runtime.Stack(buf, false)
			panic(unsupported{fmt.Sprintf("engine fault: %v in %s\n%s", re, fr.fn, buf[:n])})
		}
		if s, ok := p.(string); ok {
			panic(unsupported{"engine panic: " + s + " in " + fr.fn.String()})
		}
		if !fr.e.unwinding {
			fr.e.unwinding = true
			fr.e.panicWhere = fr.e.stackOf(fr)
		}
		fr.panicking = true
		fr.panic = p
		fr.runDefers()
		fr.block = fr.fn.Recover
		if fr.block == nil {
			// recovered, no named results: return zero values
			fr.result = zero(fr.fn.Signature.Results())
			if fr.fn.Signature.Results().Len() == 0 {
				fr.result = nil
			}
		}
	}()

	for {
		nonPhis := executePhis(fr)
		for _, instr := range nonPhis {
			if visitInstr(fr, instr) == kReturn {
				return
			}
		}
	}
}

func executePhis(fr *frame) []ssa.Instruction {
	firstNonPhi := -1
	for i, instr := range fr.block.Instrs {
		if _, ok := instr.(*ssa.Phi); !ok {
			firstNonPhi = i
			break
		}
	}
	nonPhis := fr.block.Instrs[firstNonPhi:]
	if firstNonPhi > 0 {
		phis := fr.block.Instrs[:firstNonPhi]
		predIndex := slices.Index(fr.block.Preds, fr.prevBlock)
		fr.phitemps = fr.phitemps[:0]
		for _, phi := range phis {
			phi := phi.(*ssa.Phi)
			fr.phitemps = append(fr.phitemps, fr.get(phi.Edges[predIndex]))
		}
		for i, phi := range phis {
			fr.setv(phi.(*ssa.Phi), fr.phitemps[i])
		}
	}
	return nonPhis
}

// panicValue converts a carrier into the value recover() returns.
func (e *Engine) panicValue(p interface{}) value {
	switch p := p.(type) {
	case targetPanic:
		return p.v
	case rtPanic:
		msg := strings.TrimPrefix(p.msg, "runtime error: ")
		return iface{e.P.rtErrString, msg}
	}
	panic(unsupported{fmt.Sprintf("unexpected panic type %T in target call to recover(): %v", p, p)})
}

// doRecover implements the recover() built-in.
func doRecover(caller *frame) value {
	if caller != nil && !caller.panicking &&
		caller.caller != nil && caller.caller.panicking {
		caller.caller.panicking = false
		p := caller.caller.panic
		caller.caller.panic = nil
		caller.e.unwinding = false
		return caller.e.panicValue(p)
	}
	return iface{}
}

// ---------------------------------------------------------------- globals / init

func (e *Engine) global(g *ssa.Global) *value {
	if r, ok := e.globals[g]; ok {
		return r
	}
	if g.Pkg != nil {
		e.ensureInit(g.Pkg)
		if r, ok := e.globals[g]; ok {
			return r
		}
	}
	cell := zero(deref(g.Type()))
	if g.Pkg != nil && g.Pkg.Pkg.Path() == "os" && g.Name() == "Args" {
		cell = []value{"anko"}
	}
	e.globals[g] = &cell
	return &cell
}

// ensureInit runs the package initialiser of pkg (once per path) when the
// package is on the allow-list.
func (e *Engine) ensureInit(pkg *ssa.Package) {
	if e.inited[pkg] {
		return
	}
	e.inited[pkg] = true
	for _, m := range pkg.Members {
		if g, ok := m.(*ssa.Global); ok {
			if _, ok := e.globals[g]; !ok {
				cell := zero(deref(g.Type()))
				if pkg.Pkg.Path() == "os" && g.Name() == "Args" {
					cell = []value{"anko"}
				}
				e.globals[g] = &cell
			}
		}
	}
	if !e.P.InitAllow(pkg.Pkg.Path()) {
		return
	}
	if init := pkg.Func("init"); init != nil && init.Blocks != nil {
		saved := e.initDepth
		e.initDepth++
		e.callSSA(nil, token.NoPos, init, nil, nil)
		e.initDepth = saved
	}
}

func (e *Engine) noteFn(name string) {
	if e.fnSeen != nil && e.initDepth == 0 {
		e.fnSeen[name]++
	}
}

func debugf(format string, args ...interface{}) {
	if os.Getenv("SYMGO_DEBUG") != "" {
		fmt.Fprintf(os.Stderr, format, args...)
	}
}

func (e *Engine) stackOf(fr *frame) string {
	var sb strings.Builder
	for n := 0; fr != nil && n < 8; fr, n = fr.caller, n+1 {
		if fr.fn == nil {
			continue
		}
		pos := ""
		if fr.curInstr != nil {
			p := e.P.Prog.Fset.Position(fr.curInstr.Pos())
			pos = fmt.Sprintf(" %s:%d", p.Filename, p.Line)
		}
		fmt.Fprintf(&sb, " <- %s%s", fr.fn.String(), pos)
	}
	return sb.String()
}
