// symgo: bounded symbolic executor for the Go code of /repo.
package main

import (
	"encoding/json"
	"flag"
	"fmt"
	"os"
	"regexp"
	"sort"
	"strings"
	"sync"
	"time"

	"golang.org/x/tools/go/ssa"

	"symgo/engine"
)

type item struct {
	fn     *ssa.Function
	prefix []engine.Decision
}

type HarnessResult struct {
	Harness    string              `json:"harness"`
	Pkg        string              `json:"pkg"`
	Paths      int                 `json:"paths"`
	ByStatus   map[string]int      `json:"by_status"`
	Forks      int                 `json:"forks"`
	Decisions  int                 `json:"decisions"`
	Solver     map[string]int      `json:"solver"`
	SolverTime float64             `json:"solver_time_s"`
	Asserts    []*engine.AssertSite `json:"asserts"`
	Violations []engine.Violation  `json:"violations"`
	Unsupported map[string]int     `json:"unsupported,omitempty"`
	Msgs       map[string]int      `json:"messages,omitempty"`
	Samples    []string            `json:"samples"`
	Witnesses  []engine.Violation  `json:"witnesses,omitempty"`
	Complete   bool                `json:"complete"`
	Steps      int64               `json:"steps"`
	MaxSteps   int64               `json:"max_steps"`
	WallS      float64             `json:"wall_s"`
}

type Output struct {
	Harnesses  []*HarnessResult  `json:"harnesses"`
	Functions  []string          `json:"functions_encoded"`
	Intrinsics []string          `json:"intrinsics_used"`
	FileHashes map[string]string `json:"file_hashes"`
	LoadS      float64           `json:"load_s"`
	WallS      float64           `json:"wall_s"`
	Solver     string            `json:"solver"`
	Error      string            `json:"error,omitempty"`
}

func main() {
	repo := flag.String("repo", "/repo", "repository root")
	harness := flag.String("harness", "/verif/harness", "harness directory")
	gen := flag.String("gen", "/verif/out/gen", "generated harness directory")
	pkgs := flag.String("pkgs", "./vm", "comma separated package patterns")
	fnRe := flag.String("fn", "^ZZ_", "regexp of harness function names")
	workers := flag.Int("workers", 16, "worker count")
	solver := flag.String("solver", "z3-new", "z3-new | z3 | cvc5")
	timeoutMs := flag.Int("timeout-ms", 10000, "per-query solver timeout")
	budget := flag.Int64("budget", 5000000, "instruction budget per path")
	maxPaths := flag.Int("maxpaths", 0, "max paths per harness (0 = unlimited)")
	out := flag.String("out", "", "result JSON file")
	corpus := flag.String("corpus", "", "concrete mode: JSON list of input strings, run harness -fn once per input")
	corpusOut := flag.String("corpus-out", "", "concrete mode: output JSON")
	replay := flag.String("replay", "", "replay one path: JSON file with harness+decisions")
	verbose := flag.Bool("v", false, "verbose")
	flag.Parse()

	t0 := time.Now()
	prog, err := engine.Load(engine.LoadConfig{Repo: *repo, HarnessDir: *harness, GenDir: *gen, Patterns: strings.Split(*pkgs, ",")})
	output := &Output{Solver: *solver}
	if err != nil {
		output.Error = err.Error()
		write(*out, output)
		fmt.Fprintln(os.Stderr, "symgo: load failed:", err)
		os.Exit(2)
	}
	output.LoadS = time.Since(t0).Seconds()

	re := regexp.MustCompile(*fnRe)
	var fns []*ssa.Function
	for _, p := range prog.Pkgs {
		var names []string
		for name, m := range p.Members {
			if f, ok := m.(*ssa.Function); ok && re.MatchString(name) && strings.HasPrefix(name, "ZZ_") && f.Signature.Params().Len() == 0 {
				names = append(names, name)
			}
		}
		sort.Strings(names)
		for _, n := range names {
			fns = append(fns, p.Func(n))
		}
	}
	if len(fns) == 0 {
		output.Error = "no harness function matches " + *fnRe
		write(*out, output)
		fmt.Fprintln(os.Stderr, "symgo:", output.Error)
		os.Exit(2)
	}
	_ = replay
	if *corpus != "" {
		runCorpus(prog, fns[0], *corpus, *corpusOut, *workers, *solver, *timeoutMs, *budget)
		return
	}

	results := map[*ssa.Function]*HarnessResult{}
	stats := map[*ssa.Function]*engine.Stats{}
	starts := map[*ssa.Function]time.Time{}
	ends := map[*ssa.Function]time.Time{}
	for _, f := range fns {
		results[f] = &HarnessResult{Harness: f.Name(), Pkg: f.Pkg.Pkg.Path(), Complete: true, Msgs: map[string]int{}}
		stats[f] = engine.NewStats()
	}

	var mu sync.Mutex
	cond := sync.NewCond(&mu)
	var queue []item
	for i := len(fns) - 1; i >= 0; i-- {
		queue = append(queue, item{fn: fns[i]})
	}
	inflight := 0
	pathCount := map[*ssa.Function]int{}
	var wg sync.WaitGroup
	for w := 0; w < *workers; w++ {
		wg.Add(1)
		go func(w int) {
			defer wg.Done()
			eng := engine.NewEngine(prog, *solver, *timeoutMs)
			eng.Budget = *budget
			defer eng.Close()
			for {
				mu.Lock()
				for len(queue) == 0 && inflight > 0 {
					cond.Wait()
				}
				if len(queue) == 0 {
					mu.Unlock()
					cond.Broadcast()
					return
				}
				it := queue[len(queue)-1]
				queue = queue[:len(queue)-1]
				if *maxPaths > 0 && pathCount[it.fn] >= *maxPaths {
					results[it.fn].Complete = false
					mu.Unlock()
					continue
				}
				pathCount[it.fn]++
				pn := pathCount[it.fn]
				wantWitness := len(stats[it.fn].Witnesses) < engine.MaxWitnesses && (pn&(pn-1) == 0 || pn%97 == 0)
				inflight++
				if _, ok := starts[it.fn]; !ok {
					starts[it.fn] = time.Now()
				}
				mu.Unlock()

				eng.Stats = engine.NewStats()
				eng.WantWitness = wantWitness
				res, alts := eng.RunPath(it.fn, it.prefix)
				if *verbose {
					fmt.Fprintf(os.Stderr, "[w%d] %s %s %s (%d decisions)\n", w, it.fn.Name(), res.Status, firstLine(res.Msg), len(res.Decisions))
				}

				mu.Lock()
				stats[it.fn].Merge(eng.Stats)
				r := results[it.fn]
				r.Violations = append(r.Violations, res.Violations...)
				if res.Status != "ok" && res.Msg != "" {
					k := res.Status + ": " + firstLine(res.Msg)
					if len(k) > 300 {
						k = k[:300]
					}
					r.Msgs[k]++
				}
				for i := len(alts) - 1; i >= 0; i-- {
					queue = append(queue, item{fn: it.fn, prefix: alts[i]})
				}
				inflight--
				ends[it.fn] = time.Now()
				mu.Unlock()
				cond.Broadcast()
			}
		}(w)
	}
	wg.Wait()

	allFns := map[string]int{}
	allIntr := map[string]int{}
	for _, f := range fns {
		r, s := results[f], stats[f]
		r.Paths = s.Paths
		r.ByStatus = s.ByStatus
		r.Forks = s.Forks
		r.Decisions = s.Decisions
		r.Solver = map[string]int{"calls": s.SolverCalls, "sat": s.SolverSat, "unsat": s.SolverUnsat, "unknown": s.SolverUnknown, "cvc5_int_calls": s.AltCalls, "cvc5_int_decided": s.AltDecided, "cut_unknown": s.CutUnknown}
		r.SolverTime = s.SolverTime.Seconds()
		r.Unsupported = s.Unsupported
		r.Samples = s.Samples
		r.Witnesses = s.Witnesses
		r.Steps = s.Steps
		r.MaxSteps = s.MaxSteps
		r.WallS = ends[f].Sub(starts[f]).Seconds()
		var ids []string
		for id := range s.Asserts {
			ids = append(ids, id)
		}
		sort.Strings(ids)
		for _, id := range ids {
			r.Asserts = append(r.Asserts, s.Asserts[id])
		}
		for k, v := range s.Fns {
			allFns[k] += v
		}
		for k, v := range s.Intrinsics {
			allIntr[k] += v
		}
		output.Harnesses = append(output.Harnesses, r)
	}
	for k := range allFns {
		if strings.Contains(k, "github.com/mattn/anko") && !strings.Contains(k, "zzverif") && !strings.Contains(k, ".ZZ_") {
			output.Functions = append(output.Functions, k)
		}
	}
	sort.Strings(output.Functions)
	for k := range allIntr {
		output.Intrinsics = append(output.Intrinsics, k)
	}
	sort.Strings(output.Intrinsics)
	output.FileHashes = prog.FileHashes(allFns, *repo)
	output.WallS = time.Since(t0).Seconds()
	write(*out, output)
	// human summary
	for _, r := range output.Harnesses {
		fmt.Printf("%-40s paths=%d %v forks=%d solver=%v viol=%d\n", r.Harness, r.Paths, r.ByStatus, r.Forks, r.Solver, len(r.Violations))
		for _, a := range r.Asserts {
			fmt.Printf("    assert %-40s reached=%d discharged=%d violated=%d unknown=%d\n", a.ID, a.Reached, a.Discharged, a.Violated, a.Unknown)
		}
		var ks []string
		for k := range r.Msgs {
			ks = append(ks, k)
		}
		sort.Strings(ks)
		for i, k := range ks {
			if i >= 12 {
				fmt.Printf("    … %d more message kinds\n", len(ks)-i)
				break
			}
			fmt.Printf("    %d× %s\n", r.Msgs[k], k)
		}
	}
}

func firstLine(s string) string {
	if i := strings.IndexByte(s, '\n'); i >= 0 {
		return s[:i]
	}
	return s
}

func write(path string, o *Output) {
	if path == "" {
		return
	}
	data, _ := json.MarshalIndent(o, "", " ")
	os.WriteFile(path, data, 0o644)
}

type corpusResult struct {
	Input   string   `json:"input"`
	Status  string   `json:"status"`
	Msg     string   `json:"msg,omitempty"`
	Outputs []string `json:"outputs"`
	Paths   int      `json:"paths"`
}

func runCorpus(prog *engine.Program, fn *ssa.Function, in, out string, workers int, solver string, timeoutMs int, budget int64) {
	data, err := os.ReadFile(in)
	if err != nil {
		fmt.Fprintln(os.Stderr, err)
		os.Exit(2)
	}
	var inputs []string
	if err := json.Unmarshal(data, &inputs); err != nil {
		fmt.Fprintln(os.Stderr, err)
		os.Exit(2)
	}
	results := make([]corpusResult, len(inputs))
	var mu sync.Mutex
	next := 0
	var wg sync.WaitGroup
	for w := 0; w < workers; w++ {
		wg.Add(1)
		go func() {
			defer wg.Done()
			eng := engine.NewEngine(prog, solver, timeoutMs)
			eng.Budget = budget
			defer eng.Close()
			for {
				mu.Lock()
				i := next
				next++
				mu.Unlock()
				if i >= len(inputs) {
					return
				}
				eng.Input = inputs[i]
				eng.Stats = engine.NewStats()
				res, alts := eng.RunPath(fn, nil)
				results[i] = corpusResult{Input: inputs[i], Status: res.Status, Msg: firstLine(res.Msg), Outputs: append([]string{}, eng.Outputs...), Paths: 1 + len(alts)}
			}
		}()
	}
	wg.Wait()
	data, _ = json.MarshalIndent(results, "", " ")
	os.WriteFile(out, data, 0o644)
	by := map[string]int{}
	for _, r := range results {
		by[r.Status]++
	}
	fmt.Println("corpus:", len(results), by)
}
