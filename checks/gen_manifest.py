#!/usr/bin/env python3
"""Regenerates MANIFEST.json from checks/config.py and checks/manifest_meta.py."""
import json, os, sys
sys.path.insert(0, os.path.dirname(os.path.abspath(__file__)))
from config import CHECKS
from manifest_meta import META, NOT_APPLICABLE_REASON

props = [json.loads(l)["id"] for l in open(os.path.join(os.path.dirname(__file__), "..", "properties.jsonl"))]
checks = []
na = []
for p in props:
    if p in CHECKS and p in META:
        m = META[p]
        checks.append({
            "property_id": p,
            "quick_cmd": "./check %s --tier quick" % p,
            "thorough_cmd": "./check %s --tier thorough" % p,
            "evidence_file": "evidence/%s.json" % p,
            "replay_cmd_template": "./check replay {path}",
            "engine": "symgo",
            "level_claimed": {"category": "model_checking", "text": m["text"], "design_ref": m["design_ref"]},
            "level_note": m["note"],
            "technique": m["technique"],
        })
    else:
        na.append({"property_id": p, "reason": NOT_APPLICABLE_REASON.get(p, "no solver-based check registered for this property yet (engine support not reached in this session); not claimed by another technique")})
manifest = {
    "version": 1,
    "setup_cmd": "cd /verif/symgo && GOFLAGS=-mod=mod GOPROXY=off GOSUMDB=off GOTOOLCHAIN=local go build -o ../build/symgo ./cmd/symgo && GOFLAGS=-mod=mod GOPROXY=off GOSUMDB=off GOTOOLCHAIN=local go build -o ../build/zzgen ./cmd/zzgen",
    "hooks": {
        "guard": "verif",
        "enable": "none needed: harnesses are injected with go/packages and go test -overlay (virtual files /repo/<pkg>/zz_verif_*.go and virtual package /repo/zzverif); nothing is written into /repo",
        "baseline_off_cmd": "cd /repo && go test -vet=off -count=1 -timeout 25m ./...",
        "source_commits": [],
        "add_only": True,
    },
    "engines": [{
        "name": "symgo",
        "path": "symgo/",
        "serves_properties": [c["property_id"] for c in checks],
        "kind_free_text": "bounded symbolic executor for Go SSA (go/ssa v0.29.0) of /repo's current source: symbolic scalars as SMT bit-vector/float terms, concrete heap, interpreter-level model of package reflect, path forking by stateless re-execution, obligations discharged by z3 5.1.0 over a pipe; every sat answer is replayed natively (go test -overlay) before it is reported; a spread of passing paths is re-run natively with the solver's model of their inputs as a cross-check of the encoding",
    }],
    "checks": checks,
    "not_applicable": na,
    "notes": "See DESIGN.md. ./check <ID> regenerates the encoding from /repo on every run; evidence lists functions encoded, bounds, queries and solver time.",
}
json.dump(manifest, open(os.path.join(os.path.dirname(__file__), "..", "MANIFEST.json"), "w"), indent=1)
print("claimed:", [c["property_id"] for c in checks])
