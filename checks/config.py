# Per-property run configuration for ./check.  Each run = one symgo invocation.
# "fn" is a regexp over harness function names (ZZ_*) in the packages "pkgs".

def R(pkgs, quick, thorough=None, **kw):
    d = {"pkgs": pkgs, "quick": quick, "thorough": thorough or quick}
    d.update(kw)
    return d

CHECKS = {}

CHECKS["C15"] = {
    "max_unsupported": 200,
    "expect_action_errors": True,
    "action_errors_unreached": ["missing expressions on left side of channel operator", "not type default"],
    "runs": [
        R("./parser", {"fn": r"^ZZ_C15_P1_scan_n[1-4]$"}, {"fn": r"^ZZ_C15_P1_scan_n[1-6]$"}),
        R("./parser", {"fn": r"^ZZ_C15_(P2_parse_n[12]|P4a_scan_translation_n[23]|P3_P4b_compose|P4b_compose_sym_(first|second)_n[12]|P4b_compose_stem_(first|second)_n1|P2_action_errors|P2_parse_wide_n1|P1_scan_wide_n1)$"},
                      {"fn": r"^ZZ_C15_(P2_parse_n[123]|P4a_scan_translation_n[234]|P3_P4b_compose|P4b_compose_sym_(first|second)_n[123]|P4b_compose_stem_(first|second)_n[12]|P2_action_errors|P2_parse_wide_n[12]|P1_scan_wide_n[12])$", "wall_timeout": 7200}),
    ],
    "expect_asserts": [r"C15\.P1\.invariant-preserved", r"C15\.P1\.position-in-input", r"C15\.P2\.parse-no-panic", r"C15\.P2\.error-position-in-input", r"C15\.P4a\.line-shifted-by-prefix-lines", r"C15\.P3\.same-text-same-tree", r"C15\.P4b\.same-subtrees-with-shifted-positions"],
    "bounds": {
        "quick": {"scan step: symbolic suffix runes": 4, "prefix shapes": 4, "unseen earlier lines": "symbolic 0..2^30", "ParseSrc totality and error position": "all sources of <= 2 symbolic ASCII runes; all sources of 1 symbolic rune over every code point 0..0x10FFFF (scanner step and parse; thorough: 2); 607 erroneous programs for the 14 error messages raised by grammar actions (clause bodies empty / one line / several lines), the message list read from parser.go.y on every run", "scanner translation lemma": "5 prefixes x 2..3 symbolic runes", "parser compositionality": "all ordered pairs of 43 snippets; every text of <= 2 symbolic ASCII runes before or after 2 fixed texts; every text made of one of 48 stems (the 32 keywords of the scanner's own table, 16 operator / literal / comment openers) followed by 1 symbolic rune, before or after 4 fixed texts"},
        "thorough": {"scan step: symbolic suffix runes": 6, "prefix shapes": 4, "unseen earlier lines": "symbolic 0..2^30", "ParseSrc totality": "<= 3 runes", "scanner translation lemma": "up to 4 runes", "parser compositionality": "43 x 43 snippets; every text of <= 3 symbolic ASCII runes before or after 2 fixed texts; stems followed by <= 2 symbolic runes"},
    },
    "stubs": ["unicode.IsLetter / IsDigit on symbolic runes: ASCII formula below 0x80, above it membership in the real range tables of package unicode (disjunction of ranges with strides)", "string(rune) of a symbolic rune: UTF-8 by length class (fork)", "fmt.Errorf: native formatting, symbolic operands print as <symbolic>"],
    "assumptions": ["symbolic runes are ASCII (0..0x7f) except in the *_wide_* harnesses, where they range over 0..0x10FFFF", "the wide parse harness enters at Parse with the rune slice ParseSrc builds ([]rune(src))", "go/ssa v0.29.0 SSA of /repo is faithful to the compiled code", "z3 5.1.0 answers are sound"],
    "outside": ["inputs whose single token spans more runes than the bound", "concurrent ParseSrc calls (frame argument only)", "paths on which a symbolic numeral reaches strconv.ParseFloat (about 60 on the quick tier: counted as unsupported, limit 200)"],
}

CHECKS["C17"] = {
    "runs": [R("./ast/astutil", {"fn": r"^ZZ_C17_"})],
    "expect_asserts": [r"C17\.walk\.no-error/.*", r"C17\.walk\.child-presented-once/.*", r"C17\.stop\.returns-callback-error/.*", r"C17\.pairs\.descendant-presented-once/LetsExpr>MultiplyOperator", r"C17\.history\.walk-after-aborted-walk/child-presented-once/.*", r"C17\.deep\.every-node-presented/.*"],
    "bounds": {"depth": "operator chains, nested lists and nested ifs 40 and 700 levels deep, and c-1, c, c+1, 2c+1 levels for every integer constant c (8..65536, depth <= 5000) written in /repo/ast/astutil and /repo/ast", "histories": "three walks of one program rooted in a StmtsStmt: aborted at a symbolic index (or complete), complete, aborted at index 1", "node kinds": "all struct types of package ast embedding StmtImpl/ExprImpl/OperatorImpl, derived by go/types at check time (enumerated by forking)",
               "list-valued child fields": "0..2 elements", "optional children": "present / nil",
               "early stop": "callback fails at call j, j symbolic in 0..63 (solver-decided)",
               "parent x child kinds": "every ordered pair of node kinds (an operator in an expression position inside the OpExpr the parser builds): all three levels presented once, parents first"},
    "stubs": [],
    "assumptions": ["IfStmt.ElseIf holds *IfStmt and SwitchStmt.Cases holds *SwitchCaseStmt, as the grammar actions build them",
                    "completeness for whole programs follows by induction on the tree from the per-kind step lemma"],
    "outside": ["node kinds are enumerated by forking, not by the solver; the solver's part is the early-stop index"],
}

CHECKS["C12"] = {
    "runs": [
        R("./env", {"fn": r"^ZZ_C12_(values_step|path_step|external_step|copy_step|copy_ext_step|copy_binding_kinds|copy_tables_independent|invalid_requests|addr_step|types_step_quick)$"},
                   {"fn": r"^ZZ_C12_(values_step|path_step|external_step|copy_step|copy_ext_step|copy_binding_kinds|copy_tables_independent|invalid_requests|addr_step|types_step)$"}),
        R("./env", {"fn": r"^ZZ_C12_history3$"}, thorough_only=True),
    ],
    "expect_asserts": [r"C12\.post-state", r"C12\.no-panic/GetEnvFromPath", r"C12\.copy-independent/copy", r"C12\.result/Set"],
    "bounds": {"scopes": "tree of <= 3 scopes in 6 shapes (chain, siblings, module chain, path through a non-module)",
               "names": "pool {a, b} per table; arguments a, b, a.b, n (unbound), int64, string",
               "values": "symbolic int64 payloads (no bound), modules; for copies also bindings that are settable cells (the nil binding, DefineValue of an addressable int64 / interface{} cell)", "tables": "each values/types map nil or any subset of the pool",
               "operations": "one call of every exported Env method from the arbitrary state (inductive step); thorough adds all 3-call histories"},
    "stubs": ["sync.RWMutex: engine model", "fmt.Errorf/Sprintf: native formatting"],
    "assumptions": ["representation invariant: maps may be nil, parent links form a tree, tables hold no dotted names",
                    "bindings are int64 values or modules (other value classes are covered by C11/C20)"],
    "outside": ["the space is enumerated by forking (shapes x table contents x operation x target x name); payloads are symbolic but the solver is not needed to decide these obligations",
                "external lookups that themselves mutate the environment"],
}

CHECKS["C13"] = {
    "runs": [
        R("./env", {"fn": r"^ZZ_C13_D1_"}, race=True),
        R("./env", {"fn": r"^ZZ_C13_D2_(two_goroutines|sequence)_quick$"}, {"fn": r"^ZZ_C13_D2_(two_goroutines|sequence)$", "wall_timeout": 7200}),
    ],
    "expect_asserts": [r"C13\.D1\.external-lookup-called-with-no-lock-held/Addr", r"C13\.D1\.lock-discipline/.*", r"C13\.D2\.linearizable/.*"],
    "bounds": {"quick": {"D1": "every exported Env method (SetExternalLookup included; guarded fields: values, types, externalLookup), one call from arbitrary state of <=2 scopes; GetEnvFromPath with 1-3 path elements through modules m, m.m2 including every failing path",
                         "D2": "2 goroutines x 1 operation, <= 3 context switches at lock operations; 2 operations (Define/Delete/DefineType) against 1 observer (Copy/DeepCopy/Get/Symbols), <= 2 switches"},
               "thorough": {"D1": "same", "D2": "2 goroutines x 1 operation, <= 8 context switches (all interleavings at lock granularity); 2 operations (Define/Delete/DefineType/Set) against 1 of 8 operations, <= 4 switches"}},
    "stubs": ["sync.RWMutex / WaitGroup / go: engine coroutine model, switch only at lock operations and goroutine start/end"],
    "assumptions": ["lock discipline on e.values/e.types/e.externalLookup implies data-race freedom of those fields under the Go memory model (trusted inference)",
                    "scheduling granularity = lock operations"],
    "outside": ["memory-access interleavings observable only by the race detector under stress: not encoded; -race is used to replay D1 candidates",
                "3 goroutines; 2 operations in both goroutines"],
}

CHECKS["C05"] = {
    "corpus": True,
    # (two runs: the host-kind table's slow queries starved the solver processes of the
    # int64/float64 table when they shared one run - branches were cut as undecided)
    "runs": [R("./vm", {"fn": r"^ZZ_C05_(binary_numeric|unary_numeric|int64Value|string_concat|string_number|string_repeat|tree2|shorthand)$"},
                       {"fn": r"^ZZ_C05_(binary_numeric|unary_numeric|int64Value|string_concat|string_number|string_repeat|tree2|tree2_mixed|shorthand)$", "wall_timeout": 7200}),
             R("./vm", {"fn": r"^ZZ_C05_(binary_host_kinds|unary_host_kinds)$"},
                       {"fn": r"^ZZ_C05_(binary_host_kinds|binary_host_kinds_u64|unary_host_kinds)$", "wall_timeout": 7200})],
    "expect_asserts": [r"C05\.\+/int,int/value", r"C05\.</int,float/value", r"C05\.int64Value/value", r"C05\.string\+string/value", r"C05\.%/int,int/zero-divisor-is-error"],
    "bounds": {"numeric payloads": "none: all operand pairs per operator and ordered class pair over int64, float64 and the host-only kinds int, int32, int16, int8, float32 and uint8 (64 class pairs x 15 operators; thorough adds uint64 below 2^63: 81 pairs), decided per path by the solver",
               "strings": "symbolic ASCII strings of length 0..2; numbers in string concatenation from a concrete pool of 10", "repeat count": "-1..3",
               "tree depth": "single operator (step lemma) plus all depth-2 trees over + - * & | on int64; the shorthands a op= b, a++, a-- from source text; thorough adds both depth-2 tree shapes over 7 x 8 operators and every int64/float64 mix of leaves"},
    "stubs": ["strconv/fmt formatting of concrete numbers: native", "int64Cache load at a symbolic index: closed form of the table computed from its actual contents (arithmetic progression check)"],
    "assumptions": ["operands are int64, float64, strings, or signed integer / float32 host values entering the tower by Go's conversion; unsigned kinds and bool operands are outside this check",
                    "float -> int conversions use the amd64 result for NaN/out-of-range values"],
    "outside": ["formatting of symbolic numbers", "strings longer than 2 symbolic bytes", "non-ASCII symbolic bytes"],
}

CHECKS["C06"] = {
    "corpus": True,
    "runs": [R("./vm", {"fn": r"^ZZ_C06_"})],
    "expect_asserts": [r"C06\.symmetric/.*", r"C06\.int-float/eq-iff-le-and-ge", r"C06\.string-number/decimal-numeral", r"C06\.pool/int-float-eq-iff-le-and-ge", r"C06\.in-agrees/.*", r"C06\.switch-agrees/.*"],
    "bounds": {"classes": "12 value classes x 12 (ordered pairs): nil, bool, int64, float64, int32, float32 (pool), uint8, decimal numeral strings (pool of 10), non-numeral strings (pool of 8), symbolic strings <=2, []interface{} <=2, map <=1",
               "numeric payloads": "unbounded (symbolic 64-bit)", "magnitude pool": "+-10^0..10^22 and the 2^53 cliff as int64/float64/float32 (concrete, for formatting-based code)"},
    "stubs": ["strconv.ParseInt/ParseFloat/Format*: native on concrete operands; symbolic operands end the path as unsupported (counted)"],
    "assumptions": ["'1_0' is excluded from the non-numeral pool (ParseFloat reads it as 10; arguable)"],
    "outside": ["number formatting/parsing of symbolic values", "containers deeper than one nesting"],
}

CHECKS["C19"] = {
    "corpus": True,
    "runs": [
        R("./core", {"fn": r"^ZZ_C19_(range_misuse|range_sym_n[0-2]|range_pool_n[34]|keys|typeOf_kindOf|toInt_toFloat|toString_toRune_slices)$"},
                    {"fn": r"^ZZ_C19_"}),
        R("./packages", {"fn": r"^ZZ_C19_package_tables$"}),
    ],
    "expect_asserts": [r"C19\.range/length", r"C19\.range/element", r"C19\.keys/each-once", r"C19\.toInt/float64", r"C19\.tables/function-is-its-name/strings\.ToUpper", r"C19\.typeOf"],
    "bounds": {"quick": {"range": "all int64 (start, stop, step) triples whose progression has 0..2 elements; step from a pool of 11 (incl. +-2^63 edges) with symbolic start/stop for 3..4 elements", "conversions": "symbolic numbers, concrete string pools", "package tables": "all entries (closed obligations)"},
               "thorough": {"range": "symbolic triples for 0..3 elements; pooled steps up to 8 elements"}},
    "stubs": ["strconv/fmt on concrete values: native", "std package variables (os.ErrExist ...) are not initialised by the engine: non-function table entries are outside the claim"],
    "assumptions": ["range inputs are characterised from the element side: the n elements exist without overflow and stop lies within one step beyond the last"],
    "outside": ["range results longer than 8 elements", "non-function entries of the package tables", "package table obligations are closed: decided by evaluation, not by the solver"],
}

CHECKS["C10"] = {
    "corpus": True,
    "runs": [R("./vm", {"fn": r"^ZZ_C10_"})],
    "expect_asserts": [r"C10\.slice-read/int64/addressed-element", r"C10\.slice-slice/b:e:c/shares-storage", r"C10\.slice-write/int64/append-at-len", r"C10\.map-write/unhashable-key-is-error", r"C10\.string-write/in-range", r"C10\.typed-slice/store-converts-as-go", r"C10\.struct/unknown-field-read-is-error", r"C10\.read-is-a-value/copy-keeps-the-value-read/swap/.*", r"C10\.read-is-a-value/copy-keeps-the-value-read/defer-argument/.*", r"C10\.literal-is-fresh/each-evaluation-yields-a-new-container/.*", r"C10\.failed-operation/an-error-leaves-every-container-unchanged/.*", r"C10\.string-bytes/index-reads-the-addressed-byte", r"C10\.delete/removes-the-addressed-entry/.*", r"C10\.read-is-a-value/copy-keeps-the-value-read/left-operand-with-right-operand-shapes/.*"],
    "bounds": {"slices": "len 0..3, cap len..len+1, symbolic int64 elements", "indices and bounds": "arbitrary int64 / float64 / int32 / bool and non-numeric classes (no bound on the value)",
               "maps": "0..3 entries over a key pool incl. nil and an unhashable key", "strings": "symbolic ASCII, length 0..3", "typed containers": "[]int64 with values of 6 classes; struct{A int64; B string; C []interface{}}",
               "histories": "single operations (step lemma) plus slice-then-append through two aliased variables; read-then-overwrite: 18 receiving forms (variable, var, parameter, variadic parameter, list / map literal, defer / go argument, function result, result under a deferred store, return list, swap, rotation, two targets, left operand of an arithmetic / comparison operator, spread assignment and var) x 8 containers ([]interface{}, []int64, two map types, struct value, struct pointer, slice of slices, slice of structs), symbolic payloads, from source text"},
    "stubs": [],
    "assumptions": ["anko accepts numeral strings, booleans and fractional floats as indices; for those only 'in range after conversion => that element, else error' is asserted",
                    "reslicing into len < e <= cap is refused by anko (stricter than Go): that band is not compared"],
    "outside": ["symbolic multi-byte strings (a concrete pool of 7 is indexed at every position)", "containers longer than 3", "struct field types beyond int64/string/slice"],
}

CHECKS["C07"] = {
    "corpus": True,
    "runs": [R("./vm", {"fn": r"^ZZ_C07_"})],
    "expect_asserts": [r"C07\.once-and-in-order/.*", r"C07\.evaluation-stops-at-failing-operand/.*", r"C07\.short-circuit/right-only-when-needed/.*", r"C07\.defer-evaluates-operands-at-the-statement/.*", r"C07\.assignment-target/index-operands-evaluated-once/.*", r"C07\.accepted-call-evaluates-every-operand/.*"],
    "bounds": {"callees": "15: Go functions with 0..3 fixed parameters, two variadic ones, script functions with 0..6 parameters (direct path <= 4, reflect path >= 5) and two variadic script functions",
               "operands": "0..4 probe operands, failing operand index -1..n-1, spread of a 2-element slice", "call forms": "direct, anonymous, go, defer",
               "other forms": "list/typed list/map literals, the three operator groups, index, in, slice, return list, multi-assignment, var; && || ?: ??; index operands of 10 assignment-target shapes (slice element, append at len, nested, map entry, member of element, two targets, `v, ok = m[k]`) from source text"},
    "stubs": [], "assumptions": ["the space is enumerated by forking; no payload is symbolic, the solver is not needed for these obligations"],
    "outside": ["more than 4 operands", "x op= e and x++ (documented exception)"],
}

CHECKS["C08"] = {
    "corpus": True,
    "runs": [R("./vm", {"fn": r"^ZZ_C08_(control_(d1|d2_lite|d1_text)|truthiness|forin_slice|forin_map|forin_corner_entries|switch_first_equal)$"}, {"fn": r"^ZZ_C08_(control_(d1|d2_b2|d1_text|d2_text)|truthiness|forin_slice|forin_map|forin_corner_entries|switch_first_equal)$", "wall_timeout": 10000}),
             R("./vm", {"fn": r"^ZZ_C08_forin_long$", "budget": 400000000})],
    "expect_asserts": [r"C08\.for-in-long/body-runs-exactly-while-the-loop-lasts/.*", r"C08\.switch/exactly-the-first-case-equal-to-the-subject", r"C08\.probe-trace", r"C08\.error-status", r"C08\.return-value", r"C08\.truthiness/branch-taken-iff-truthy/.*", r"C08\.for-in-slice/index-order-and-element/.*", r"C08\.for-in-map/every-entry-once/.*"],
    "bounds": {"long loops": "for-in over []interface{}, []int64, a channel and a counting loop of c-1, c, c+1, 2c+1 iterations for every integer constant c (8..65536, lengths up to 9000) written in /repo/vm and /repo/env (extracted on every run), left by break / return / continue / at the end at the second, middle or next-to-last element",
               "quick": "all abstract programs of depth 1 (11 statement kinds x leaf outcomes x condition truth sequences of <= 2 true evaluations x 0..2 for-in elements) and depth-2 programs over 7 kinds with one nested compound (lite); return leaves are `return v`, bare `return` or `return v, w`; switch cases list one or two expressions; the depth-1 programs are also rendered as source text and run through the parser, with the default clause before, between or after the cases",
               "thorough": "depth 2 with <= 2 compound statements over all 11 kinds, as trees and as source text"},
    "stubs": [], "assumptions": ["break/continue are never placed outside a loop (the statement leaves that open)", "enumerated by forking: skeleton, outcomes and truth values are concrete per path"],
    "outside": ["depth 3", "maps of more than 3 entries and slices of more than 3 elements in for-in", "truthiness of numeral / boolean-word strings (\"0\", \"false\": the statement only names empty / non-empty strings)"],
}

CHECKS["C09"] = {
    "corpus": True,
    "runs": [R("./vm", {"fn": r"^ZZ_C09_(try_defer_(d1|d2_lite|d1_text)|throw_values|defer_call_shapes)$"}, {"fn": r"^ZZ_C09_(try_defer_(d1|d2_b2|d1_text|d2_text_lite)|throw_values|defer_call_shapes)$", "wall_timeout": 10000})],
    "expect_asserts": [r"C09\.probe-trace", r"C09\.error-status", r"C09\.throw/nothing-runs-after-the-throw/.*"],
    "bounds": {"quick": "as C08 plus try/catch/finally with outcomes normal/error in finally and functions with 0..2 deferred probe calls, one of which may fail; `throw v` for 15 thrown values (empty and blank strings, nil, numbers, booleans, containers, an error with an empty message, computed empty strings) at top level, in a try, in a called function, in a loop",
               "thorough": "depth 2 with <= 2 compound statements"},
    "stubs": [], "assumptions": ["which of several deferred errors surfaces is not asserted (the statement leaves it open)"],
    "outside": ["defer inside a loop body registered more than twice", "depth 3"],
}

CHECKS["C20"] = {
    "corpus": True,
    "runs": [R("./vm", {"fn": r"^ZZ_C20_chain1$"}, {"fn": r"^ZZ_C20_chain[12]$", "wall_timeout": 7200})],
    "expect_asserts": [r"C20\.same-result/neg/int64/slice-element", r"C20\.same-error-or-success/deref/\*int64/struct-field", r"C20\.same-error-or-success/close/chan-open/go-call-interface", r"C20\.same-result/add-l/int64/variable"],
    "bounds": {"templates": "63 operation templates (a Go function whose parameter has the value's own type, typed list / map literals of that type, unary/binary operators in both operand positions, index, slice, len, in, call/spread/callee, member, deref, for-in, switch subject/case, conditions, make length, channel send/receive/close, delete, throw, assignment source/target, defer and go callee, literals, return, delete name and global flag, nil in switch subject and case, == / != nil, make(type), send channel)",
               "values": "40 classes of the value universe (among them values of a defined integer type with a method and of a defined string type), symbolic payloads where a class has one", "provenance": "chains of length 1 (quick) / 2 (thorough) over 14 hops: a Go function declared to return a defined interface type, an element of a slice of that type, variable, slice element, map entry, script call, Go call returning interface{}, parentheses, ?:, ??, struct field, and three that hand out addressable values: element of a Go slice of the value's own type, field of its own type through a struct pointer, *p"},
    "stubs": [], "assumptions": ["functions, channels and pointers are distinct objects in the two runs: their dynamic type is compared, not their identity", "all NaNs are one value"],
    "outside": ["effects on the environment beyond the result", "assignment targets whose store must re-bind the target (strings, append at len)", "chains of length 3"],
}

_C01_RUNS = [
    R("./vm", {"fn": r"^ZZ_C01_k_.*_quick$"}, {"fn": r"^ZZ_C01_k_[A-Za-z]*$", "wall_timeout": 14000}),
]
_C01_EXTRA = [R("./vm", {"fn": r"^ZZ_C01_interference$"})]

CHECKS["C01"] = {
    "corpus": True,
    "assert_filter": r"C01\.|C15\.P2\.|no-host-crash",
    "runs": _C01_RUNS + _C01_EXTRA + [R("./parser", {"fn": r"^ZZ_C15_P2_parse_n[12]$"}, {"fn": r"^ZZ_C15_P2_parse_n[123]$"})],
    "expect_asserts": [r"C01\.step\.no-panic/CallExpr", r"C01\.step\.no-panic/LetsStmt", r"C01\.step\.no-goroutine-crash/CallExpr", r"C15\.P2\.parse-no-panic", r"C01\.step\.bindings-well-formed/.*", r"C01\.interference\.no-panic/for-in-map/.*"],
    "bounds": {"quick": {"node kinds": "all (derived from go/types), one node with arbitrary children (inductive step)", "varied child": "23 value classes (the first 19 of the universe plus map[int64]string, a nil map, a nil []int64, an addressable struct value) x 2 provenances or a failing child; one further child over 3 benign classes; assignment targets: identifier, member / index / slice of a fixed or an arbitrary container, dereference, non-l-value",
                         "interference": "9 program families (source text; the last two: the loop variable of a for-in over containers with nil pointer / nil container / nil elements used in 21 ways, and 33 operations on nil pointers, nil typed containers and huge counts) in which a child changes the container its parent works on: for-in over maps of 1..3 entries x 10 mutations x 1|2 loop variables x every key order, slices, channels, assignment targets, operands, conditions",
                         "statement children": "one child over 6 outcomes (normal, break, continue, return, error, throw)", "lists": "0..2 elements", "parse": "sources of <= 2 symbolic ASCII runes through the real ParseSrc"},
               "thorough": {"varied child": "all 38 value classes x 2 provenances", "parse": "<= 3 runes"}},
    "stubs": ["host Go functions of the universe: identity, variadic, one that panics, one returning (value, error)", "instruction budget 300000 per step: non-terminating loops are cut and counted"],
    "assumptions": ["non-node fields take the values the grammar can produce (operator spellings, identifier names, typed literals with slice/map types, make with any type of the pool)",
                    "closure: the step's result is an error or a valid value and every binding it leaves is valid+interfaceable; that is what the next step assumes of its operands"],
    "outside": ["memory/stack exhaustion (allocations beyond 2^20 elements cut the path)", "host values outside the universe", "Debug=true", "sources longer than the rune bound (the per-token scanner lemma of C15 covers tokens up to 6 runes)"],
}

CHECKS["C14"] = {
    "corpus": True,
    "assert_filter": r"C14\.",
    "runs": _C01_RUNS + [R("./vm", {"fn": r"^ZZ_C14_import_copies$"})],
    "expect_asserts": [r"C14\.F4\.no-hidden-input/IfStmt", r"C14\.F2\.no-alias-to-shared-state/AddrExpr", r"C14\.F3\.other-importer-unaffected", r"C14\.F1\.tree-and-globals-read-only/CallExpr", r"C14\.F1\.tree-and-globals-read-only/LiteralExpr", r"C14\.F1\.tree-and-globals-read-only/StmtsStmt"],
    "bounds": {"F1": "every node kind with arbitrary children (the C01 step instances): the tree and every object that existed after package initialisation are frozen during RunContext"},
    "stubs": ["write barrier of the engine on Store / MapUpdate / delete / in-place append / reflect Set"],
    "assumptions": ["frame argument: no evaluation step writes the tree or process-wide state (F1) => runs on separate environments commute, so k sequential or concurrent runs of one tree give their solo results",
                    "run-time values referenced from literals (containers, pointers) are data, not syntax"],
    "outside": ["goroutine interleavings under the race detector: replaced by the frame argument (not encoded)", "F4 is the ledger of nondeterministic primitives reached (select with several ready cases, address-derived values); map iteration is excluded as the statement says"],
}

CHECKS["C04"] = {
    "corpus": True,
    "assert_filter": r"C04\.",
    "runs": [R("./vm", {"fn": r"^ZZ_C04_"}),
             R("./vm", {"fn": r"^ZZ_C01_k_.*Stmt_quick$"}, {"fn": r"^ZZ_C01_k_[A-Za-z]*Stmt$", "wall_timeout": 14000})],
    "expect_asserts": [r"C04\.S1\.scope-restored/IfStmt", r"C04\.S1\.scope-restored/TryStmt", r"C04\.S2\.block-binding-not-visible-after/.*", r"C04\.S3\.nearest-binding-updated-or-defined-here", r"C04\.S4\.closure-sees-defining-scope", r"C04\.S4\.escaping-closure/sees-its-defining-scope-from-a-later-block/.*", r"C04\.S5\.module-binding-through-name/.*"],
    "bounds": {"S1": "every statement kind with arbitrary child outcomes (the C01 step instances): current scope pointer-identical before and after", "S2": "17 block forms x 3 binding forms x exits (normal, break, continue, return, caught throw); symbolic int64 values",
               "S3": "chains of depth 1..3, existing binding at any level or absent, optional second outer binding", "escaping closures": "closure made in block I inside block O, called from a later block K and after it: 11 x 11 x 11 block-opening constructs, reading or writing the captured binding, symbolic values", "S4/S5": "19 closure / invocation / recursion / module programs with symbolic values"},
    "stubs": [], "assumptions": ["whether try and catch are one block or two is not asserted (the statement leaves it open)", "the init variable of a C-style loop is not asserted"],
    "outside": ["name pools beyond {x, y}", "programs are parsed from templates: their shapes are enumerated, only the bound values are symbolic"],
}

CHECKS["C02"] = {
    "corpus": True,
    "runs": [R("./vm", {"fn": r"^ZZ_C02_(cores|wrapped|poll_on_entry|library_functions|host_calls_after_cancellation|racing_senders)$"}, {"fn": r"^ZZ_C02_", "wall_timeout": 10000})],
    "expect_asserts": [r"C02\.returns-execution-interrupted/loop/none", r"C02\.no-side-effect-after-cancellation/.*", r"C02\.no-statement-after-the-interrupted-one/.*/try-catch", r"C02\.entry/nothing-executed", r"C02\.no-host-call-starts-after-cancellation/.*", r"C02\.returns-execution-interrupted/racing-senders/.*", r"C02\.returns-execution-interrupted/chan-send/.*"],
    "bounds": {"cores": "20 spinning / blocking cores (three loop forms, for-in over slice/map/channel, channel send/receive/receive statement, recursion, calls through the direct path with 0/2/4 parameters, the reflect path with 5 parameters, variadic, spread, anonymous, from a container, deferred, callback from a host function)",
               "wrappers": "12 (try/catch[/finally], ?? left, if/switch/module/function bodies, catch and finally blocks, deferred call, nested try)", "cancellation instant": "poll 0..7 (every Done() call is a poll); for blocking cores the cancellation arrives while blocked",
               "instruction budget": "3,000,000 per run: exceeding it after the cancellation was delivered is the violation 'terminates'"},
    "stubs": ["context: a harness context whose Done() counts polls and closes at poll c; a canceller goroutine for blocking operations", "channels / select: engine model of Go's channel semantics"],
    "assumptions": ["logical time: polls and instructions instead of wall-clock time", "host functions return immediately (the single-host-call exclusion of the property)"],
    "outside": ["wall-clock latency and OS scheduling: not functions of the encoded code (not applicable to the technique)"],
}

CHECKS["C16"] = {
    "corpus": True,
    "runs": [R("./vm", {"fn": r"^ZZ_C16_(sequential|go_args|go_call_shapes|pipeline_quick|blocked_receiver|fan_in|producer_outlives_run)$"}, {"fn": r"^ZZ_C16_(sequential|go_args|go_call_shapes|pipeline|blocked_receiver|fan_in|fan_in_2|producer_outlives_run)$", "wall_timeout": 10000})],
    "expect_asserts": [r"C16\.fifo/order-and-values", r"C16\.closed/drained-receive-yields-nil", r"C16\.receive-stmt/ok-false-when-closed", r"C16\.go/arguments-before-callee-starts", r"C16\.pipeline/in-order", r"C16\.send-on-closed-is-error", r"C16\.blocked-receiver/ok-false-when-closed/.*", r"C16\.producer-outlives-run/later-run-receives-every-item/.*"],
    "bounds": {"quick": "sequential: buffered channels of capacity 3 over int64/interface elements, symbolic values; blocked receiver: 4 receive forms x 2 element types x capacity 0/1/4 x a producer that (sends 0..2 values and) closes while the receiver is already blocked; fan-in: 2 producers x 1 value into a channel of capacity 1|2, <= 3 context switches (thorough: 2 values, 4 switches); pipelines: 0..2 items, unbuffered / capacity 1, 0..1 relay stage, <= 3 context switches at channel operations (all schedules within that bound)",
               "thorough": "0..3 items, capacity 0..2, <= 4 context switches"},
    "stubs": ["channels, select, goroutines: engine coroutine model of Go's specified channel semantics; a switch can happen at every channel operation and goroutine start"],
    "assumptions": ["`y = <-ch` is the receive statement (leaves y untouched on a closed channel); receive expressions are used inside other expressions"],
    "outside": ["all schedules the Go runtime produces across GOMAXPROCS: the runtime scheduler and its channel implementation are not encoded (not applicable to the technique)"],
}

CHECKS["C18"] = {
    "corpus": True,
    "witness_cmd": "c18_binary.py",
    "runs": [R(".", {"fn": r"^ZZ_C18_"})],
    "expect_asserts": [r"C18\.exit-0-iff-library-succeeds/.*", r"C18\.exit-4-on-parse-or-run-error/.*", r"C18\.exit-2-when-file-unreadable/.*", r"C18\.one-diagnostic-line/.*", r"C18\.trailing-arguments-become-args/.*", r"C18\.no-extra-output-on-success/.*"],
    "bounds": {"scripts": "26 (succeeding with and without output, using args / core builtins / a bundled package / printf; parse errors; run errors of every error type; empty; the builtins that look at the script's own environment: defined on own names, functions, modules and from inside a function, load of a file that reads the loader's globals / defines for the loader / is missing)", "modes": "-e and file, 0..2 trailing arguments, unreadable file",
               "process level": "7 runs of the real built binary (exit status, stdout) as witnesses"},
    "stubs": ["io/ioutil.ReadFile: the harness's virtual files", "fmt.Print*: recorded standard output", "os.Args / flag: a fresh FlagSet per run"],
    "assumptions": ["the function-level verdict is the process's verdict: main() only passes the return code of runNonInteractive to os.Exit"],
    "outside": ["interactive mode, terminal and pipe behaviour, signals", "scripts are enumerated (source text must be concrete for the parser); nothing is symbolic here"],
}

CHECKS["C03"] = {
    "runs": [R("./parser", {"fn": r"^ZZ_C03_(operator_tokens|decimal_literals|hex_literals|binary_literals|int64_edge|hex_binary_edge|float_and_malformed|float_roundtrip|string_literals|raw_string_literals|precedence_2|precedence_2_literals|ternary|unary_stacking)$"},
                          {"fn": r"^ZZ_C03_", "wall_timeout": 10000})],
    "expect_asserts": [r"C03\.operator/==/longest-match-token", r"C03\.int-literal/base10/exact-value", r"C03\.int-literal/base16/exact-value", r"C03\.int64-edge/not-representable-rejected", r"C03\.float-literal/roundtrip/denotes-the-nearest-float64/shortest-decimal",
                       r"C03\.string-literal/denotes-exactly-what-is-written", r"C03\.precedence/\+,\*/same-tree-as-explicit-parentheses", r"C03\.ternary/same-tree-as-explicit-parentheses/.*"],
    "bounds": {"quick": {"operators": "every spelling of the reference token table followed by an arbitrary ASCII rune (solver)", "integer literals": "1..4 symbolic decimal digits (+sign), 1..3 hex digits, 1..4 binary digits through the real scanner, grammar action and strconv.ParseInt (interpreted from its SSA); the int64 edge by an 18-digit prefix + symbolic last digit",
                         "floats / malformed numbers": "17 concrete spellings; 1536 structured float64 values (12 binades x 128 mantissa patterns, both signs) in the three spellings Go's formatter gives, read back bit for bit (concrete pool: decimal-to-binary rounding of a symbolic numeral is outside the encoding)", "strings": "0..3 symbolic characters incl. backslash, both quotes; raw strings", "precedence": "all ordered pairs of the 19 binary operators (incl. in and ??) x 5 statement contexts; 7 ternary shapes x every operator"},
               "thorough": {"precedence": "all triples of operators; pairs with unary prefixes and postfix forms on the first two operands", "integer literals": "up to 6 decimal digits"}},
    "stubs": ["strconv.ParseFloat: native on concrete spellings"],
    "assumptions": ["symbolic characters are ASCII", "same tree => same value, so the interpreter is not needed for the precedence part"],
    "outside": ["parser.go.y itself (the compiled tables of parser.go are what runs)", "expressions with more than 3 binary operators", "operator tokens are enumerated by forking; the solver's part is the literal arithmetic and the character classes"],
}

CHECKS["C11"] = {
    "corpus": True,
    "runs": [R("./vm", {"fn": r"^ZZ_C11_"})],
    "expect_asserts": [r"C11\.convert/value-as-go-converts/int64->int8", r"C11\.convert/value-as-go-converts/float64->int32", r"C11\.convert-table/convertible-iff-go-converts/.*", r"C11\.call/fixed/integers-converted-as-go",
                       r"C11\.call/variadic-spread/tail-elements", r"C11\.results/several-in-order", r"C11\.identity/define-get-same-pointer", r"C11\.method/pointer-receiver-called-with-receiver", r"C11\.callback/result-converted-to-declared-type", r"C11\.host-values/value-is-go's-conversion/.*", r"C11\.members/same-named-types/reads-each-value's-own-field"],
    "bounds": {"conversion lemma": "symbolic int64 / float64 sources (plain and interface-wrapped) x 11 numeric target types; 21 rows of non-numeric pairs (nil -> zero value, element-wise slices and maps, 1-character strings, unconvertible pairs)",
               "calls": "13 call shapes over host functions that record their arguments (fixed with six parameter types, variadic, variadic interface, slice parameter, spread, 0/1/2/3 results, (value, error))",
               "identity / members": "13 cases over a struct pointer, a struct value, a typed slice, an error value", "callbacks": "7 cases over five Go func types"},
    "stubs": [], "assumptions": ["an integer passed for a string parameter converts as Go's string(rune) does (that is Go's own conversion)", "float -> uint64 of out-of-range values is platform specific: not compared"],
    "outside": ["signatures and named types not in the pool, unexported fields, channels of func", "the signature pool is enumerated; payloads are symbolic"],
}
