#!/usr/bin/env python3
"""C18 process-level witness: the real built ./anko binary on fixed scripts, both
ways of supplying them; exit status and stdout against the statement.
Prints 'WITNESS-FAIL <what>' lines; exit 0 always (the driver decides)."""
import os, subprocess, sys, tempfile, shutil
REPO = os.environ.get("VERIF_REPO", "/repo")
OUT = sys.argv[1]
env = dict(os.environ, GOFLAGS="-mod=mod", GOPROXY="off", GOSUMDB="off", GOTOOLCHAIN="local", CGO_ENABLED="0")
os.makedirs(OUT, exist_ok=True)
binp = os.path.join(OUT, "anko-bin")
r = subprocess.run(["go", "build", "-o", binp, "."], cwd=REPO, env=env, stdout=subprocess.PIPE, stderr=subprocess.STDOUT, text=True)
if r.returncode != 0:
    print("WITNESS-BROKEN build failed:", r.stdout[-500:])
    sys.exit(0)
cases = [
    ("ok", 'println("hello")\nprintln(len(args))', 0, "hello\n{N}\n"),
    ("parse-error", 'println("a")\nfor {', 4, None),
    ("run-error", 'println("one")\nprintln(undefined_name)\nprintln("never")', 4, "one\n"),
]
n = 0
tmp = tempfile.mkdtemp(prefix="zzc18-", dir=OUT)
try:
    for name, src, code, outprefix in cases:
        for mode in ("file", "-e"):
            extra = ["p", "q"]
            if mode == "file":
                f = os.path.join(tmp, name + ".ank")
                open(f, "w").write(src)
                cmd = [binp, f] + extra
            else:
                cmd = [binp, "-e", src] + extra
            p = subprocess.run(cmd, stdout=subprocess.PIPE, stderr=subprocess.PIPE, text=True, timeout=60)
            n += 1
            if p.returncode != code:
                print("WITNESS-FAIL %s/%s: exit %d, want %d" % (name, mode, p.returncode, code))
            if outprefix is not None:
                want = outprefix.replace("{N}", "2")
                if not p.stdout.startswith(want):
                    print("WITNESS-FAIL %s/%s: stdout %r does not start with %r" % (name, mode, p.stdout, want))
            lines_after = p.stdout[len(outprefix.replace("{N}", "2")):] if outprefix is not None and p.stdout.startswith(outprefix.replace("{N}", "2")) else None
            if lines_after is not None:
                if code == 0 and lines_after != "":
                    print("WITNESS-FAIL %s/%s: extra output %r" % (name, mode, lines_after))
                if code != 0 and lines_after.count("\n") != 1:
                    print("WITNESS-FAIL %s/%s: want exactly one diagnostic line, got %r" % (name, mode, lines_after))
    # a directory given as the script file cannot be read: exit 2
    d = os.path.join(tmp, "dir.ank")
    os.mkdir(d)
    p = subprocess.run([binp, d], stdout=subprocess.PIPE, stderr=subprocess.PIPE, text=True, timeout=60)
    n += 1
    if p.returncode != 2:
        print("WITNESS-FAIL directory-as-file: exit %d, want 2" % p.returncode)
    if p.stdout.count("\n") != 1:
        print("WITNESS-FAIL directory-as-file: want exactly one diagnostic line, got %r" % p.stdout)
    # a script with one very long line (100 KiB comment, 100 KiB string literal) is read whole
    for name, src, code, want in (
        ("long-comment-line", 'println("start")\n// ' + "x" * 100000 + '\nprintln("end")\nundefined_name', 4, "start\nend\n"),
        ("long-string-line", 'println("start")\ns = "' + "y" * 100000 + '"\nprintln(len(s))', 0, "start\n100000\n"),
        ("crlf-lines", 'println("a")\r\nprintln("b")\r\n', 0, "a\nb\n"),
        ("no-final-newline", 'println("a")\nprintln("b")', 0, "a\nb\n"),
        ("raw-string-with-crlf", 'println(len(`a\r\nb`))', 0, "4\n"),
    ):
        f = os.path.join(tmp, name + ".ank")
        open(f, "w", newline="").write(src)
        p = subprocess.run([binp, f], stdout=subprocess.PIPE, stderr=subprocess.PIPE, text=True, timeout=60)
        n += 1
        if p.returncode != code:
            print("WITNESS-FAIL %s: exit %d, want %d" % (name, p.returncode, code))
        if not p.stdout.startswith(want):
            print("WITNESS-FAIL %s: stdout %r does not start with %r" % (name, p.stdout[:80], want))
    p = subprocess.run([binp, os.path.join(tmp, "missing.ank")], stdout=subprocess.PIPE, stderr=subprocess.PIPE, text=True, timeout=60)
    n += 1
    if p.returncode != 2:
        print("WITNESS-FAIL unreadable-file: exit %d, want 2" % p.returncode)
finally:
    shutil.rmtree(tmp, ignore_errors=True)
    try:
        os.remove(binp)
    except OSError:
        pass
print("WITNESS-RUNS %d" % n)
