META = {}
NOT_APPLICABLE_REASON = {}

META["C15"] = {
    "text": "Bounded symbolic model checking of the real scanner: from an arbitrary scanner state satisfying the stated invariant over a symbolic input suffix, one Scan() re-establishes the invariant, makes progress and returns a position inside the input, for every rune assignment within the bound (solver-decided per path). The per-token step lemma covers every position of longer inputs up to the rune bound per token. P2: the real ParseSrc on every source of <= 2|3 symbolic runes returns a tree or a *parser.Error positioned inside the input, never panics. P3: parsing writes no pre-existing object (write barrier) and the same text gives the same tree. P4a: relational scanner lemma - the same suffix behind any of 5 prefixes yields the same token with the line shifted by the prefix's line count and the column unchanged. P4b: for all ordered pairs of 31 snippets the concatenation parses to the concatenated statement lists with positions shifted. Added: concatenation with texts made of a stem (every keyword of the scanner's own table, operator / literal / comment openers) followed by symbolic runes.",
    "design_ref": "DESIGN.md §5 C15",
    "note": "Trusted: go/ssa translation, symgo instruction semantics, z3 5.1.0. Symbolic runes are ASCII; bound = runes per scan step (quick 4, thorough 6). ParseSrc totality on whole inputs and compositionality at parser level are claimed only where the evidence lists their harnesses.",
    "technique": "symbolic execution of go/ssa + SMT (z3), inductive step lemma, native replay",
}

META["C17"] = {
    "text": "Step lemma over every AST node kind (table derived from go/types over the current ast package at check time): the real astutil.Walk, executed symbolically on a node of each kind whose every child field holds distinct leaves, returns nil, presents the node before its children and every child exactly once; with a callback failing at a symbolic call index Walk returns that error and stops. Induction on the tree gives completeness for every parsed program. Added: every ordered pair parent kind x child kind (three levels, operators inside the OpExpr the parser builds), which checks the independence assumption of the step lemma itself.",
    "design_ref": "DESIGN.md §5 C17",
    "note": "Node kinds and list lengths (0..2) are enumerated by forking; the early-stop index is solver-decided. Trusted: go/ssa, symgo semantics, the induction argument.",
    "technique": "symbolic execution of go/ssa + SMT (z3), per-node-kind step lemma, native replay",
}

META["C12"] = {
    "text": "Differential inductive step: from an arbitrary tree of <=3 scopes (any subset of a name pool bound to symbolic int64 values or modules, maps possibly nil, optional external lookup) one call of each exported Env method is executed symbolically on the real env package and on a 60-line reference chain-of-dictionaries model; result, error-ness and the full observable state of every scope must agree, failures must change nothing and nothing may panic. Copy/DeepCopy independence is checked with a further arbitrary mutation on either side. Added: copies of scopes whose bindings are settable cells (the nil binding, DefineValue of an addressable value) stay independent under a later Set / Define / Delete on either side. Added: requests that cannot be honoured (binding a name to a Value that could not be read back) return an error and leave every scope readable and unchanged.",
    "design_ref": "DESIGN.md §5 C12",
    "note": "One step from an arbitrary well-formed state covers histories of any length within the name pool and depth bound; state shapes, table contents, operation, target and names are enumerated by forking (payloads symbolic). Trusted: go/ssa, symgo semantics incl. its reflect and RWMutex models.",
    "technique": "symbolic execution of go/ssa + SMT (z3), differential step lemma against a reference model, native replay",
}

META["C13"] = {
    "text": "D1: a lock monitor on the symbolic execution of every exported Env method shows every read of values/types happens under rwMutex (read or write mode), every write under the write lock, locks are released on all paths and never re-acquired. D2: two goroutines with one symbolic operation each on a shared scope are explored under all interleavings at lock-operation granularity (bounded context switches); results and final state must equal one of the two sequential orders on a reference model (solver-decided over the symbolic payloads). Added: the external-lookup field belongs to the guarded set; a second read lock by the holder of a read lock counts as a self-deadlock (sync.RWMutex forbids it).",
    "design_ref": "DESIGN.md §5 C13",
    "note": "The race-detector-under-stress half of the property is not applicable to this technique (Go runtime and memory model are not encoded); lock discipline => race freedom is the trusted step. D1 candidates are replayed under go test -race, D2 candidates by a native stress run with yields injected at every lock operation.",
    "technique": "symbolic execution of go/ssa + SMT (z3), lock-discipline monitor, bounded schedule exploration with linearizability oracle, native replay",
}

META["C05"] = {
    "text": "Differential symbolic execution of the real operator code (invokeAddOperator, invokeMultiplyOperator, invokeComparisonOperator, invokeUnaryExpr, toInt64/toFloat64/toString, int64Value with its cache) on literal operands with fully symbolic int64/float64 payloads against the Go expression the statement names, executed by the same engine; z3 decides kind and payload equality for all operand values per operator and class pair. Strings: bounded symbolic ASCII strings, numbers from a concrete pool.",
    "design_ref": "DESIGN.md §5 C05",
    "note": "No bound on numeric payloads. Trusted: go/ssa, symgo bit-vector/IEEE semantics (float->int per amd64), its reflect model (validated on 2269 repo scripts), z3.",
    "technique": "symbolic execution of go/ssa + SMT (z3 bit-vectors and floats), differential against Go semantics, native replay",
}

META["C06"] = {
    "text": "Algebraic laws of the real equal()/comparison/in/switch code over ordered pairs of 12 value classes with symbolic payloads: symmetry, != is the negation, in and switch agree with ==, same-type equality is Go's ==, int/float equality iff <= and >=, nil equals only nil, string/number equality iff the string is a decimal numeral for that number (pools), structural container equality; each decided by z3 over all payloads. Formatting-based comparisons are exercised on a concrete magnitude pool. Added: views of one backing array (prefixes, windows, the same container twice), every non-decimal spelling strconv accepts as a non-numeral, integer numerals at and beyond the int64 edge.",
    "design_ref": "DESIGN.md §5 C06",
    "note": "Parsing/formatting of symbolic strings and numbers is not encoded (paths ending there are counted as unsupported, never as passed).",
    "technique": "symbolic execution of go/ssa + SMT (z3), algebraic-law harness, native replay",
}

META["C19"] = {
    "text": "The real closures bound by core.Import/ImportToX are executed symbolically: range against an element-side characterisation of the progression (all int64 triples for 0..3 elements, pooled steps up to 8; running past the end is a violation via an unwinding bound), keys/len/typeOf/kindOf and the toX family against Go's own conversions on symbolic numbers and concrete string pools; the package tables produced by the real init functions are checked entry by entry (each function is the Go function of that name). Added: typeOf / kindOf on defined types over basic kinds (time.Duration, named float / string / bool / uint16 types, containers of them), arrays and struct types behind interfaces; toInt / toFloat on every non-decimal spelling strconv accepts and on numerals at and beyond the range limits.",
    "design_ref": "DESIGN.md §5 C19",
    "note": "Table obligations are closed (no free variable): enumeration, not a solver result. Trusted: go/ssa, symgo semantics and reflect model, z3 + cvc5 (bv-as-int) portfolio.",
    "technique": "symbolic execution of go/ssa + SMT (z3, cvc5), differential against Go conversions, unwinding assertions, native replay",
}

META["C10"] = {
    "text": "Differential symbolic execution of the real container code (invokeItemExpr, invokeSliceExpr, invokeLenExpr, invokeIncludeExpr, invokeLetItem*, invokeLetMemberExpr, getMapIndex, runDeleteStmt, append through +, element conversion) against a mirror Go value: symbolic indices and slice bounds of every numeric class decide in-range/out-of-range by the solver; in-range operations must touch exactly the addressed element, failures must leave the container unchanged, slicing must share storage, typed containers and struct fields must keep their declared type. Added: a read yields the value at the time of the read - 18 receiving forms (variable, parameter, literal, defer / go argument, result, swap, operand ...) x 8 containers with symbolic old and new payloads, from source text; `x + y` on overlapping views of one array against Go's append. Added (round 7): eight more receiving forms (spread arguments, `x, ok =`, switch subject, in, map-literal key, indexed container, for-in variable) and slots whose values are references (slices, maps, pointers in typed containers and struct fields).",
    "design_ref": "DESIGN.md §5 C10",
    "note": "Container sizes <= 3; index values unbounded (symbolic). Trusted: go/ssa, symgo semantics and reflect model (validated on the repo's scripts in every run), z3.",
    "technique": "symbolic execution of go/ssa + SMT (z3), differential against mirror Go values, native replay",
}

META["C07"] = {
    "text": "Every operand of every call form (Go/script callee, fixed/variadic, 0..6 parameters, plain/spread, direct/anonymous/go/defer), literal, operator, index/slice expression, return list and multi-assignment is a logging probe, one of which may fail: symbolic execution of the real call machinery (callExpr, makeCallArgs, anonCallExpr, runDeferStmt, the operator and literal functions) must log every tag at most once, in increasing order, completely on success and exactly up to the failing operand otherwise; && || ?: ?? must evaluate only the operands the result depends on. Added: index operands of 10 assignment-target shapes; calls that are accepted although their argument count does not fit; 6 callee outcomes (incl. a recovered Go panic) x 8 arities x 4 positions: operands and body exactly once. Added (round 7): operands inside `&` arguments of Go functions (the call writes pointees back).",
    "design_ref": "DESIGN.md §5 C07",
    "note": "Forms are enumerated by forking (no symbolic payload is needed); the deciding step is exhaustive bounded exploration of the real code under the engine's reflect model.",
    "technique": "symbolic execution of go/ssa (bounded exhaustive exploration), probe-trace oracle, native replay",
}

META["C08"] = {
    "text": "Differential against a reference control-flow interpreter over abstract programs: the real runStmtsStmt/runIfStmt/runSwitchStmt/loop functions/runTryStmt/function call boundary are executed on every statement skeleton within the bound, with every leaf a probed statement of chosen outcome and every condition a probed call with a chosen truth sequence; probe trace, error status and returned value must equal the reference (first truthy branch, first equal case, body while condition, break/continue consumed by the innermost loop with the post expression after continue, return leaving the invocation). Added: the truth class of the condition value (22 classes with symbolic payloads x 3 provenances) in every condition position; for-in over slices of symbolic elements in index order and over maps in every key order (every entry once, with its value), with the body leaving at visit j by every outcome; leaves inside blocks with a scope of their own re-bind the condition probe, so that a leaked scope shows in the trace. Added (round 7): entries with NaN keys, entries removed by the body, loop variables as values under stores into the container.",
    "design_ref": "DESIGN.md §5 C08",
    "note": "Skeletons/outcomes/truth values are enumerated by forking. Known finding (recorded, the repo's tests assert it): try/catch catches break/continue/return leaving its try block.",
    "technique": "symbolic execution of go/ssa (bounded exhaustive exploration), differential against a reference interpreter, unwinding assertions, native replay",
}

META["C09"] = {
    "text": "Same machinery as C08 with the try/defer oracle: catch runs iff the try body failed, finally after a body that succeeded or whose error was caught, nothing after an uncaught error except the deferred calls of the invocations being left, every deferred call exactly once in LIFO order, the invocation's result unchanged, a deferred error surfacing iff the body did not fail. Added: 21 shapes of deferred call (arities 0..6, variadic, spread over fixed parameters, Go functions, literals, module members) x 3 exits with symbolic arguments re-bound after the defer statement; `throw v` for 15 thrown values in 4 positions.",
    "design_ref": "DESIGN.md §5 C09",
    "note": "As C08. Known finding shared with C08 (control signals through try).",
    "technique": "symbolic execution of go/ssa (bounded exhaustive exploration), differential against a reference interpreter, native replay",
}

META["C20"] = {
    "text": "Relational step lemma: each of 51 operation templates is executed twice by the real interpreter in fresh, equal environments - once with the operand as a literal, once with the same value (same symbolic payload) delivered through a provenance chain of real AST over real containers (variable, []interface{} element, map entry, struct field, script call, Go call typed interface{}, parentheses, ?:, ??) - and error-or-success, result value and dynamic type must coincide for every value class; payload equality is decided by the solver. Added: nil in switch subject / case, == and != nil, the global flag and the name of delete, make(type T, x), the channel of a send, the callee of a go statement.",
    "design_ref": "DESIGN.md §5 C20",
    "note": "Templates, classes and hops are enumerated by forking; payloads are symbolic. Trusted: go/ssa, symgo semantics and reflect model (Kind Interface values, addressability), z3.",
    "technique": "symbolic execution of go/ssa + SMT (z3), relational (two-run) step lemma, native replay",
}

META["C01"] = {
    "text": "Bounded inductive invariant over every AST node kind (table derived from go/types at check time): the real RunContext/runSingleStmt/invokeExpr/invokeLetExpr/invokeOperator code, executed symbolically with Debug=false on a node whose children are arbitrary outcomes (any value class of the universe through plain or interface-wrapped provenance with symbolic payloads, an error, or a control signal), returns without a panic escaping on the calling goroutine or on one started by `go`, and leaves only well-formed bindings; plus totality of the real ParseSrc on all sources of <= 2|3 symbolic runes. Added: seven families of source-text programs in which a child changes the container its parent is working on (entries deleted from a map while a for-in visits it, in every key order), and assignment targets whose container is an arbitrary value. Added (round 7): loop variables over containers holding nil pointers / nil containers used in 21 ways; 57 operations on nil pointers, nil typed containers, nil errors returned by Go functions, multi-byte strings and huge counts.",
    "design_ref": "DESIGN.md §5 C01",
    "note": "One step from arbitrary well-formed children + closure of the universe covers programs of every depth; value classes, node kinds and list lengths are enumerated by forking, payloads and indices are solver-decided. Trusted: go/ssa, symgo semantics, its reflect model incl. the panics of every reflect entry point (validated on the repo's scripts in every run).",
    "technique": "symbolic execution of go/ssa + SMT (z3), per-node-kind inductive step lemma, native replay",
}

META["C14"] = {
    "text": "Frame (non-interference) lemma decided per step: in every instance of the C01 step lemma the tree (built, then frozen) and every object that existed after package initialisation (oneLiteral, int64Cache, nilValue, env.Packages, parser tables) are under a write barrier during RunContext; any Store/MapUpdate/delete/in-place append/reflect Set into them is a violation naming the field. Because every node kind runs with arbitrary children this is an inductive step: no evaluation writes the tree or process-wide state, hence repeated and concurrent runs of one tree on separate environments give their solo results. Added (import harness): Set and member assignment on imported scopes.",
    "design_ref": "DESIGN.md §5 C14",
    "note": "The 'all goroutine interleavings with the race detector' quantifier is discharged by this frame argument, not by exploring schedules (not applicable to the technique). F2: nothing the step hands back (value, bindings) aliases process-wide state. F3: import gives every importer its own copy of the package table. F4: the only nondeterministic primitive a goroutine-free step reaches is map iteration. Native replay compares a structural dump of the tree before and after the run, stores through every alias handed back, and re-runs the node in an equal fresh environment.",
    "technique": "symbolic execution of go/ssa with a write-barrier monitor, per-node-kind frame lemma, native replay",
}

META["C04"] = {
    "text": "S1: in every instance of the per-statement-kind step lemma (arbitrary child outcomes: normal, break, continue, return, error, throw) the interpreter's current scope after runSingleStmt is pointer-identical to the one before. S2-S5: the real parser and interpreter are executed on all block forms x binding forms x exit paths and on closure/recursion/module programs with symbolic bound values; the observable bindings afterwards must equal the reference (assignment updates the nearest binding else defines in the current block, var/loop variables/catch variables/parameters bind locally, block bindings vanish, closures see their defining scope by reference, invocations have fresh scopes, module bindings only through the module). S3 runs invokeLetExpr over scope chains with the binding at an arbitrary level. Added: var lists with fewer values than names bind every listed name in the current block.",
    "design_ref": "DESIGN.md §5 C04",
    "note": "Program shapes are enumerated by forking; values are symbolic (solver-decided equalities). Trusted as C01.",
    "technique": "symbolic execution of go/ssa + SMT (z3), step lemma + differential against a chain-of-dictionaries reference, native replay",
}

META["C02"] = {
    "text": "Cancellation in logical time: the real ExecuteContext runs every spinning/blocking core, alone and under every wrapping construct, with a context that reports done from its c-th poll on (c enumerated) or is cancelled while the interpreter is blocked in the engine's channel/select model; after the first poll that observes the cancellation no probe may be logged, no later statement may run, the call must return the error 'execution interrupted', and exceeding the instruction budget afterwards is a violation. Added: 15 wrappers that run the core while a statement stores its results or evaluates a subordinate position (the ok / value target of a receive statement, assignment-target indices, delete key, switch case, for-in collection, C-for post, send / throw / make / map-literal operands).",
    "design_ref": "DESIGN.md §5 C02",
    "note": "The wall-clock half ('within a short bounded time') is not applicable: time is replaced by poll and instruction counts. Known finding (recorded): script functions converted to Go func types run under context.Background().",
    "technique": "symbolic execution of go/ssa (bounded exhaustive exploration) with a poll-counting context and channel model, unwinding assertions, native replay",
}

META["C16"] = {
    "text": "The interpreter's channel code (make(chan), send/receive expressions with element conversion, the two-value receive statement, for-in over a channel, close with panic capture, go with argument evaluation) is executed on the engine's model of Go's channel semantics: FIFO and conversion with symbolic values, closed/drained behaviour, errors instead of crashes for send-on-closed and double close; producer -> [relay ->] consumer pipelines are explored under every schedule at channel-operation granularity within a context-switch bound and must deliver every item once, in order, and terminate. Added: receivers already blocked when the producer sends or closes (4 receive forms x capacities 0/1/4), every go call shape followed by other calls before the goroutine's value is read (argument storage must not be reused). Added: fan-in - two producers into one buffered channel under schedule exploration (TrySend / TryRecv are schedule points), every value received exactly once; native replay by a stress run.",
    "design_ref": "DESIGN.md §5 C16",
    "note": "'All schedules the runtime produces with varying GOMAXPROCS' is not applicable (runtime not encoded); schedules are explored on the channel model. Payload equalities are solver-decided; schedules are enumerated by forking.",
    "technique": "symbolic execution of go/ssa with a channel/goroutine model, bounded schedule exploration, unwinding assertions, native replay",
}

META["C18"] = {
    "text": "Function-level check of the real main package with the OS stubbed: parseFlags, setupEnv and runNonInteractive are executed by the engine for every script of a pool x both ways of supplying it x trailing arguments; the return code must be 0 iff vm.Execute on the same source in an equally prepared environment succeeds, 4 on a parse or run error, 2 when the file cannot be read, and the recorded standard output must be the script's own output followed by exactly one diagnostic line iff the code is non-zero. Seven runs of the real built binary serve as process-level witnesses. Added: scripts using the builtins that look at the script's own environment (defined, load).",
    "design_ref": "DESIGN.md §5 C18",
    "note": "Exit status and stdout of the process are observed only by the witness runs; os.Exit, file system and pipes are stubs in the engine. Scripts are enumerated; no solver variable is involved.",
    "technique": "symbolic execution of go/ssa (bounded exhaustive exploration) against the library verdict, process-level witness runs",
}

META["C03"] = {
    "text": "Lexical part: the real Scanner.Scan on every operator spelling of a reference token table followed by an arbitrary rune yields the longest-match token, literal and consumed length (solver over the rune). Literals: symbolic decimal / hexadecimal / binary digit strings run through the real scanner, the grammar's number action and the real strconv.ParseInt (interpreted from its SSA) and must denote exactly the reference value (int64), the int64 edge is accepted iff representable; quoted strings with symbolic contents and escapes denote the reference unescaping, raw strings are verbatim. Precedence: for every pair (thorough: triple) of binary operators, and the ternary shapes, the written expression and its fully parenthesised spelling (reference precedence climbing over the property's table) are parsed by the real generated parser in 5 statement contexts and must give the same tree modulo parentheses and positions. Added: negated literals in every base and the most negative int64 in every base.",
    "design_ref": "DESIGN.md §5 C03",
    "note": "Known finding (recorded): `in` is declared right-associative in the grammar (a in b in c parses as a in (b in c)); goyacc is not available to regenerate parser.go. Operator sequences are enumerated by forking.",
    "technique": "symbolic execution of go/ssa + SMT (z3), differential of the real parser against a reference precedence climber and reference literal readers, native replay",
}

META["C11"] = {
    "text": "Conversion lemma: the real convertReflectValueToType on symbolic int64/float64 sources (plain and interface-wrapped) for every numeric target type must give exactly the target type and Go's own conversion of the payload (solver-decided), and on a table of non-numeric pairs must convert exactly when Go does (element-wise for slices and maps, zero value for nil). Call lemma: host functions recording their arguments are called through the real call machinery in fixed/variadic x plain/spread shapes and must receive exactly the supplied arguments converted as above, and all results come back. Identity, member and method access on Go values, and script functions converted to Go func types (arguments in, result converted out, error surfacing) are checked on a pool of Go types. Added: array parameter types, pointer- and value-receiver methods on pointers to named slices / integers, named maps and through embedded structs, variadic script functions as callbacks. Added (round 7): unexported fields and fields promoted through nil embedded pointers are errors; variadic Go func types with variadic / fixed script callbacks; empty containers convert to empty, not nil.",
    "design_ref": "DESIGN.md §5 C11",
    "note": "The 'all Go signatures' quantifier is bounded to the pool; payloads are symbolic. Trusted: go/ssa, symgo reflect model (Convert, Call, MakeFunc, method sets).",
    "technique": "symbolic execution of go/ssa + SMT (z3), differential against Go's own conversions, native replay",
}
