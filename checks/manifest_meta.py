META = {}
NOT_APPLICABLE_REASON = {}

META["C15"] = {
    "text": "Bounded symbolic model checking of the real scanner: from an arbitrary scanner state satisfying the stated invariant over a symbolic input suffix, one Scan() re-establishes the invariant, makes progress and returns a position inside the input, for every rune assignment within the bound (solver-decided per path). The per-token step lemma covers every position of longer inputs up to the rune bound per token.",
    "design_ref": "DESIGN.md §5 C15",
    "note": "Trusted: go/ssa translation, symgo instruction semantics, z3 5.1.0. Symbolic runes are ASCII; bound = runes per scan step (quick 4, thorough 6). ParseSrc totality on whole inputs and compositionality at parser level are claimed only where the evidence lists their harnesses.",
    "technique": "symbolic execution of go/ssa + SMT (z3), inductive step lemma, native replay",
}
