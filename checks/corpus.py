#!/usr/bin/env python3
"""Translator self-validation (DESIGN 4.5a): the Script literals of the repo's
own test tables run natively and under symgo in concrete mode; renderings must
agree.  usage: corpus.py [--sample N] [--seed S] [--show K]"""
import json, os, re, subprocess, sys, random, glob, codecs

VERIF = os.path.dirname(os.path.dirname(os.path.abspath(__file__)))
REPO = os.environ.get("VERIF_REPO", "/repo")
OUT = os.path.join(VERIF, "out", "corpus")
GOENV = dict(os.environ, GOFLAGS="-mod=mod", GOPROXY="off", GOSUMDB="off", GOTOOLCHAIN="local", CGO_ENABLED="0")


def go_unquote(lit):
    if lit[0] == '`':
        return lit[1:-1]
    body = lit[1:-1]
    try:
        return codecs.decode(body.encode('latin-1', 'backslashreplace'), 'unicode_escape')
    except Exception:
        return None


def extract():
    scripts = []
    pat = re.compile(r'Script:\s*(`[^`]*`|"(?:[^"\\\n]|\\.)*")')
    for f in sorted(glob.glob(os.path.join(REPO, "vm", "*_test.go")) + glob.glob(os.path.join(REPO, "core", "*_test.go")) + glob.glob(os.path.join(REPO, "*_test.go"))):
        src = open(f, encoding="utf-8").read()
        for m in pat.finditer(src):
            s = go_unquote(m.group(1))
            if s is not None and s not in scripts:
                scripts.append(s)
    for f in sorted(glob.glob(os.path.join(REPO, "core", "testdata", "*.ank"))):
        scripts.append(open(f, encoding="utf-8").read())
    return scripts


def run(scripts):
    os.makedirs(OUT, exist_ok=True)
    cin = os.path.join(OUT, "in.json")
    json.dump(scripts, open(cin, "w"))
    # native
    repl = {}
    for d, target in (("zzverif", "zzverif"), ("zzcorpus", "zzcorpus")):
        for f in glob.glob(os.path.join(VERIF, "harness", d, "*.go")):
            repl[os.path.join(REPO, target, os.path.basename(f))] = f
    ov = os.path.join(OUT, "overlay.json")
    json.dump({"Replace": repl}, open(ov, "w"))
    nout = os.path.join(OUT, "native.json")
    if os.path.exists(nout):
        os.remove(nout)
    env = dict(GOENV, VERIF_CORPUS=cin, VERIF_CORPUS_OUT=nout)
    binp = os.path.join(OUT, "corpus.test")
    r = subprocess.run("go test -c -vet=off -overlay %s -o %s ./zzcorpus && cd %s && ulimit -v 8000000; timeout 1200 %s -test.run '^TestZZCorpus$' -test.timeout 1100s" % (ov, binp, OUT, binp),
                       shell=True, cwd=REPO, env=env, stdout=subprocess.PIPE, stderr=subprocess.STDOUT, text=True)
    if not os.path.exists(nout):
        print(r.stdout[-3000:])
        return None, None
    native = json.load(open(nout))
    eout = os.path.join(OUT, "engine.json")
    r = subprocess.run([os.path.join(VERIF, "build", "symgo"), "-repo", REPO, "-harness", os.path.join(VERIF, "harness"), "-gen", os.path.join(VERIF, "out", "gen"), "-pkgs", "./zzcorpus", "-fn", "^ZZ_corpus_run$", "-corpus", cin, "-corpus-out", eout, "-budget", "3000000"],
                       cwd=VERIF, env=GOENV, stdout=subprocess.PIPE, stderr=subprocess.STDOUT, text=True)
    if not os.path.exists(eout):
        print(r.stdout[-3000:])
        return native, None
    return native, json.load(open(eout))


def compare(scripts, native, engine, show=10):
    agree = disagree = skipped = 0
    dis = []
    skips = {}
    for s, n, e in zip(scripts, native, engine):
        if e["status"] != "ok" or not e["outputs"]:
            skipped += 1
            k = e["status"] + ": " + e.get("msg", "")[:100]
            skips[k] = skips.get(k, 0) + 1
            continue
        if n.startswith("PANIC") or n == "":
            skipped += 1
            skips["native panic/none"] = skips.get("native panic/none", 0) + 1
            continue
        if re.search(r"0x[0-9a-f]{6,}|context deadline|execution interrupted", n + e["outputs"][0]):
            skipped += 1
            skips["address/timeout dependent"] = skips.get("address/timeout dependent", 0) + 1
            continue
        if e["outputs"][0] == n:
            agree += 1
        else:
            disagree += 1
            dis.append((s, n, e["outputs"][0]))
    return agree, disagree, skipped, dis, skips


def main():
    scripts = extract()
    seed = int(os.environ.get("VERIF_SEED", "0") or 0)
    if "--seed" in sys.argv:
        seed = int(sys.argv[sys.argv.index("--seed") + 1])
    if "--sample" in sys.argv:
        n = int(sys.argv[sys.argv.index("--sample") + 1])
        random.Random(seed).shuffle(scripts)
        scripts = scripts[:n]
    show = 10
    if "--show" in sys.argv:
        show = int(sys.argv[sys.argv.index("--show") + 1])
    native, engine = run(scripts)
    if native is None or engine is None:
        print("corpus: could not run")
        sys.exit(2)
    agree, disagree, skipped, dis, skips = compare(scripts, native, engine)
    print("corpus: scripts=%d agree=%d disagree=%d skipped=%d" % (len(scripts), agree, disagree, skipped))
    for k, v in sorted(skips.items(), key=lambda kv: -kv[1])[:show * 3]:
        print("  skipped %4d  %s" % (v, k))
    for s, n, e in dis[:show]:
        print("  DISAGREE script=%r\n     native=%s\n     engine=%s" % (s[:200], n[:300], e[:300]))
    json.dump({"scripts": len(scripts), "agree": agree, "disagree": disagree, "skipped": skipped}, open(os.path.join(OUT, "summary.json"), "w"))
    sys.exit(0 if disagree == 0 else 3)


if __name__ == "__main__":
    main()
