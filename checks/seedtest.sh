#!/bin/bash
# usage: seedtest.sh <seed-dir> <property> [verify]
# Applies the seeded change to /repo, runs the property's quick check, undoes the change.
# With "verify": first confirms in a scratch worktree that the change builds, the existing
# tests pass and the demonstration fails with / passes without the change.
set -u
export GOFLAGS=-mod=mod GOPROXY=off GOSUMDB=off GOTOOLCHAIN=local
D=$1; P=$2; MODE=${3:-}
if [ "$MODE" = verify ]; then
  WT=/tmp/seedwt-$$
  git -C /repo worktree add -q --detach $WT HEAD || exit 9
  (cd $WT && git apply $D/patch.diff) || { echo "VERIFY $D: patch does not apply"; git -C /repo worktree remove --force $WT; exit 9; }
  DEMODIR=$(python3 -c "import json,sys; print(json.load(open('$D/meta.json')).get('demo_dir',''))" 2>/dev/null)
  [ -z "$DEMODIR" ] && DEMODIR=$(grep -o 'wt-[A-Z0-9]*/[a-z/]*' $D/meta.json | head -1 | sed 's|wt-[A-Z0-9]*/||; s|/[a-z_0-9]*\.go$||; s|/$||')
  [ -z "$DEMODIR" ] && DEMODIR=vm
  cp $D/demo_test.go $WT/$DEMODIR/zz_seed_demo_test.go
  (cd $WT && go build ./... ) || echo "VERIFY $D: build FAILED"
  (cd $WT && timeout 600 go test -vet=off -count=1 -run 'TestSeed|TestDemo' ./$DEMODIR/ > /tmp/seed-with.log 2>&1); W=$?
  (cd $WT && git apply -R $D/patch.diff)
  (cd $WT && timeout 600 go test -vet=off -count=1 -run 'TestSeed|TestDemo' ./$DEMODIR/ > /tmp/seed-without.log 2>&1); WO=$?
  (cd $WT && rm $DEMODIR/zz_seed_demo_test.go && git apply $D/patch.diff && timeout 1500 go test -vet=off -count=1 ./... > /tmp/seed-suite.log 2>&1); S=$?
  echo "VERIFY $D: demo-with-change exit=$W (want !=0)  demo-without exit=$WO (want 0)  suite-with-change exit=$S (want 0)  demo_dir=$DEMODIR"
  git -C /repo worktree remove --force $WT
fi
git -C /repo diff --quiet || { echo "/repo not clean"; exit 9; }
git -C /repo apply $D/patch.diff || { echo "patch does not apply to /repo"; exit 9; }
cd /verif && timeout 3000 ./check $P > /tmp/seed-check.log 2>&1; RC=$?
git -C /repo checkout -- .
echo "CHECK $D $P: exit=$RC  $(grep -c '^VIOLATION' /tmp/seed-check.log) violations; $(tail -1 /tmp/seed-check.log | cut -c1-200)"
grep '^VIOLATION' /tmp/seed-check.log | head -3 | cut -c1-220
